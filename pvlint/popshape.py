"""LEN and elitism classification of every write of ``self._population`` (C10, C17).

``population_writes(prog, ctx, roots)`` enumerates, for one optimizer class, every statement reachable
from the given hooks that stores / mutates ``self._population`` (including calls of the three base
helpers).  ``len_class`` maps a write to  SAME | N | GROW | SHRINK | UNKNOWN ; ``keeps_best`` decides whether
a write can make the best cost worse.
"""
from __future__ import annotations

import ast
from dataclasses import dataclass
from typing import Optional

from .callgraph import Resolver, own_nodes, reachable
from .flow import origin, reaching_def, returns_of, store_sites
from .model import PKG, ClassInfo, FuncInfo, Program, dotted, enclosing_stmt, norm, parent

ABSTRACT = f"{PKG}.abstract.OptimizationAbstract"
BASE_HELPERS = ("_extend_and_trim_population", "_replace_and_trim_population", "_greedy_select_population")
LIST_MUT = ("append", "extend", "insert", "pop", "remove", "clear", "sort", "reverse", "__iadd__")


@dataclass
class PopWrite:
    fi: FuncInfo
    stmt: ast.AST
    kind: str          # assign | multi-assign | slot | aug | mutcall | helper | del
    node: ast.AST      # the call / target node
    value: Optional[ast.AST] = None
    helper: str = ""

    def loc(self) -> str:
        return f"{self.fi.module.relpath}:{self.stmt.lineno}"

    def text(self, n: int = 110) -> str:
        return norm(self.stmt, n)


def population_writes(prog: Program, ctx: ClassInfo, hooks: tuple) -> list:
    res = Resolver(prog, ctx)
    roots = []
    for h in hooks:
        m = prog.lookup_method(ctx, h)
        if m is not None and m.cls is not None and m.cls.qualname != ABSTRACT:
            roots.append(m)
    seen = reachable(prog, ctx, roots, res)
    out = []
    for f in seen:
        if f.cls is None or not prog.is_subclass(f.cls, ABSTRACT) or f.cls.qualname == ABSTRACT:
            continue
        for n in own_nodes(f):
            if isinstance(n, ast.Attribute) and dotted(n) == "self._population" and isinstance(n.ctx, (ast.Store, ast.Del)):
                st = enclosing_stmt(n)
                if isinstance(st, ast.AugAssign):
                    out.append(PopWrite(f, st, "aug", n, st.value))
                elif isinstance(st, ast.Assign) and len(st.targets) == 1 and st.targets[0] is n:
                    out.append(PopWrite(f, st, "assign", n, st.value))
                elif isinstance(st, ast.Assign):
                    out.append(PopWrite(f, st, "multi-assign", n, st.value))
                elif isinstance(st, ast.Delete):
                    out.append(PopWrite(f, st, "del", n))
                else:
                    out.append(PopWrite(f, st, "other", n))
            elif isinstance(n, ast.Subscript) and isinstance(n.ctx, (ast.Store, ast.Del)) and dotted(n.value) == "self._population":
                st = enclosing_stmt(n)
                kind = "slot"
                if isinstance(n.slice, ast.Slice) or isinstance(n.ctx, ast.Del):
                    kind = "slice-store"
                out.append(PopWrite(f, st, kind, n, st.value if isinstance(st, ast.Assign) else None))
            elif isinstance(n, ast.Call) and isinstance(n.func, ast.Attribute) and dotted(n.func.value) == "self._population" \
                    and n.func.attr in LIST_MUT:
                out.append(PopWrite(f, enclosing_stmt(n), "mutcall", n, None, n.func.attr))
            elif isinstance(n, ast.Call) and isinstance(n.func, ast.Attribute) and isinstance(n.func.value, ast.Name) \
                    and n.func.value.id == "self" and n.func.attr in BASE_HELPERS:
                out.append(PopWrite(f, enclosing_stmt(n), "helper", n, n.args[0] if n.args else None, n.func.attr))
    out.sort(key=lambda w: (w.fi.module.relpath, w.stmt.lineno))
    return out


# ---------------------------------------------------------------------------------------------
# iteration shapes
# ---------------------------------------------------------------------------------------------

def pop_iter(it: ast.AST):
    """Does a comprehension iterate the whole live population?  -> (member target index kind) or None
    returns 'direct' | 'enumerate' | 'zip' """
    if dotted(it) == "self._population":
        return "direct"
    if isinstance(it, ast.Call) and isinstance(it.func, ast.Name) and it.func.id == "enumerate" and len(it.args) == 1 \
            and dotted(it.args[0]) == "self._population":
        return "enumerate"
    if isinstance(it, ast.Call) and isinstance(it.func, ast.Name) and it.func.id == "zip" and it.args \
            and dotted(it.args[0]) == "self._population":
        return "zip"
    return None


def member_name(gen: ast.comprehension) -> Optional[str]:
    k = pop_iter(gen.iter)
    t = gen.target
    if k == "direct" and isinstance(t, ast.Name):
        return t.id
    if k in ("enumerate",) and isinstance(t, ast.Tuple) and len(t.elts) == 2 and isinstance(t.elts[1], ast.Name):
        return t.elts[1].id
    if k == "zip" and isinstance(t, ast.Tuple) and t.elts and isinstance(t.elts[0], ast.Name):
        return t.elts[0].id
    return None


def index_name(gen: ast.comprehension) -> Optional[str]:
    if pop_iter(gen.iter) == "enumerate" and isinstance(gen.target, ast.Tuple) and isinstance(gen.target.elts[0], ast.Name):
        return gen.target.elts[0].id
    return None


def zip_unpack_comp(value: ast.AST, fnode=None) -> Optional[ast.ListComp]:
    """``map(<list-ifier>, zip(*[ELT for .. in <pop iter>]))`` / ``[list(g) for g in zip(*[..])]`` / ``zip(*[..])`` -> the
    inner comprehension (also when it is held by a local bound once)."""
    def star_comp(z):
        if isinstance(z, ast.Call) and isinstance(z.func, ast.Name) and z.func.id == "zip" and len(z.args) == 1 \
                and isinstance(z.args[0], ast.Starred):
            inner = z.args[0].value
            if isinstance(inner, ast.Name) and fnode is not None:
                from .flow import origin
                inner = origin(fnode, inner)
            if isinstance(inner, ast.ListComp):
                return inner
        return None
    v = value
    if isinstance(v, ast.Call) and isinstance(v.func, ast.Name) and v.func.id == "map" and len(v.args) == 2:
        f0 = v.args[0]
        listifier = (isinstance(f0, ast.Name) and f0.id in ("list", "tuple")) or (
            isinstance(f0, ast.Lambda) and len(f0.args.args) == 1 and isinstance(f0.body, ast.Call) and isinstance(f0.body.func, ast.Name)
            and f0.body.func.id in ("list", "tuple"))
        if listifier:
            return star_comp(v.args[1])
        return star_comp(v.args[1])
    if isinstance(v, ast.ListComp) and len(v.generators) == 1 and not v.generators[0].ifs and isinstance(v.elt, ast.Call) \
            and isinstance(v.elt.func, ast.Name) and v.elt.func.id in ("list", "tuple") and len(v.elt.args) == 1 \
            and isinstance(v.elt.args[0], ast.Name) and isinstance(v.generators[0].target, ast.Name) \
            and v.elt.args[0].id == v.generators[0].target.id:
        return star_comp(v.generators[0].iter)
    return star_comp(v)


# ---------------------------------------------------------------------------------------------
# LEN
# ---------------------------------------------------------------------------------------------

def _is_population_size(fi: FuncInfo, e: ast.AST) -> bool:
    o = e
    if isinstance(e, ast.Name):
        # local or closure variable bound once
        scope = fi
        while scope is not None:
            sites = store_sites(scope.node, e.id)
            if sites:
                return len(sites) == 1 and sites[0][2] == "assign" and dotted(sites[0][1]) == "self._config.population_size"
            if e.id in scope.params:
                return False
            scope = scope.outer
        return False
    return dotted(o) == "self._config.population_size"


def shaped_fields(prog: Program, ctx: ClassInfo) -> set:
    """Private fields of the class that are population-shaped: every assignment is an unfiltered
    comprehension over the population (or the zip-unpack idiom together with the population)."""
    cand: dict = {}
    for c in prog.mro(ctx):
        if c.qualname == ABSTRACT:
            continue
        for m in c.methods.values():
            stack = [m]
            while stack:
                f = stack.pop()
                stack.extend(f.nested.values())
                for n in own_nodes(f):
                    if isinstance(n, ast.Assign):
                        for t in n.targets:
                            tt = t.elts if isinstance(t, (ast.Tuple, ast.List)) else [t]
                            for x in tt:
                                if isinstance(x, ast.Attribute) and isinstance(x.value, ast.Name) and x.value.id == "self" \
                                        and x.attr != "_population":
                                    ok = False
                                    v = n.value
                                    if isinstance(t, (ast.Tuple, ast.List)):
                                        comp = zip_unpack_comp(v, f.node)
                                        ok = comp is not None and len(comp.generators) == 1 and not comp.generators[0].ifs \
                                            and pop_iter(comp.generators[0].iter) is not None
                                    elif isinstance(v, ast.ListComp) and len(v.generators) == 1 and not v.generators[0].ifs \
                                            and pop_iter(v.generators[0].iter) is not None:
                                        ok = True
                                    elif isinstance(v, ast.Call) and isinstance(v.func, ast.Attribute) and v.func.attr == "copy" \
                                            and dotted(v.func.value) == "self._population" and not v.args:
                                        ok = True
                                    elif isinstance(v, ast.Call) and isinstance(v.func, ast.Name) and v.func.id == "list" \
                                            and len(v.args) == 1 and dotted(v.args[0]) == "self._population":
                                        ok = True
                                    elif isinstance(v, (ast.List, ast.Constant)) and f.name == "__init__":
                                        ok = True     # placeholder before the first run
                                        continue
                                    cand.setdefault(x.attr, []).append(ok)
    return {k for k, v in cand.items() if v and all(v)}


# -- symbolic lengths: linear forms over N (= population_size) and opaque integer symbols ------------------------

def _lin_add(a: dict, b: dict, sign: int = 1) -> dict:
    out = dict(a)
    for k, v in b.items():
        out[k] = out.get(k, 0) + sign * v
        if out[k] == 0:
            del out[k]
    return out


def lin(fi: FuncInfo, e: ast.AST, depth: int = 6) -> dict:
    """Linear form of an integer expression; anything not understood becomes one opaque symbol (its text)."""
    if isinstance(e, ast.Constant) and isinstance(e.value, int) and not isinstance(e.value, bool):
        return {"1": e.value} if e.value else {}
    if dotted(e) == "self._config.population_size":
        return {"N": 1}
    if isinstance(e, ast.BinOp) and isinstance(e.op, (ast.Add, ast.Sub)):
        return _lin_add(lin(fi, e.left, depth), lin(fi, e.right, depth), 1 if isinstance(e.op, ast.Add) else -1)
    if isinstance(e, ast.Name) and depth > 0:
        scope = fi
        while scope is not None:
            sites = store_sites(scope.node, e.id)
            if sites:
                if len(sites) == 1 and sites[0][2] == "assign":
                    return lin(scope, sites[0][1], depth - 1)
                break
            if e.id in scope.params:
                break
            scope = scope.outer
        return {f"`{e.id}`": 1}
    return {f"`{norm(e, 60)}`": 1}


def show_lin(f: dict) -> str:
    if not f:
        return "0"
    parts = []
    for k, v in sorted(f.items()):
        term = (str(v) if k == "1" else (k if v == 1 else f"{v}*{k}"))
        parts.append(term)
    return " + ".join(parts).replace("+ -", "- ")


def sym_len(fi: FuncInfo, e: ast.AST, depth: int = 6) -> Optional[dict]:
    """Symbolic length of a list expression under the inductive hypothesis len(self._population) == N and the
    configuration-domain assumption that slice bounds lie within the list; None when not understood."""
    if depth <= 0:
        return None
    if dotted(e) == "self._population":
        return {"N": 1}
    if isinstance(e, ast.Name):
        rd = reaching_def(fi.node, e, e.id)
        if rd is not None and rd[2] == "assign":
            return sym_len(fi, rd[1], depth - 1)
        return None
    if isinstance(e, ast.Call):
        d = dotted(e.func)
        if d in ("sort_by_cost", "sorted", "list", "tuple") and e.args:
            return sym_len(fi, e.args[0], depth - 1)
        if isinstance(e.func, ast.Attribute) and e.func.attr == "copy" and not e.args:
            return sym_len(fi, e.func.value, depth - 1)
        if d == "sort_and_trim" and len(e.args) == 2:
            inner = sym_len(fi, e.args[0], depth - 1)
            k = lin(fi, e.args[1])
            return inner if inner is not None and inner == k else None
        if d == "self._generate_agents" and len(e.args) == 1:
            return lin(fi, e.args[0])
        return None
    if isinstance(e, ast.Subscript) and isinstance(e.slice, ast.Slice) and e.slice.step is None:
        base = sym_len(fi, e.value, depth - 1)
        if base is None:
            return None
        lo, hi = e.slice.lower, e.slice.upper
        if lo is None and hi is None:
            return base
        if lo is None:
            return lin(fi, hi)
        if hi is None:
            return _lin_add(base, lin(fi, lo), -1)
        return _lin_add(lin(fi, hi), lin(fi, lo), -1)
    if isinstance(e, ast.ListComp) and len(e.generators) == 1 and not e.generators[0].ifs:
        it = e.generators[0].iter
        if pop_iter(it) in ("direct", "enumerate"):
            return {"N": 1}
        if isinstance(it, ast.Call) and isinstance(it.func, ast.Name) and it.func.id == "range":
            if len(it.args) == 1:
                return lin(fi, it.args[0])
            if len(it.args) == 2:
                return _lin_add(lin(fi, it.args[1]), lin(fi, it.args[0]), -1)
            return None
        return sym_len(fi, it, depth - 1)
    if isinstance(e, ast.BinOp) and isinstance(e.op, ast.Add):
        a, b = sym_len(fi, e.left, depth - 1), sym_len(fi, e.right, depth - 1)
        if a is None or b is None:
            return None
        return _lin_add(a, b)
    if isinstance(e, (ast.List, ast.Tuple)) and not any(isinstance(x, ast.Starred) for x in e.elts):
        return {"1": len(e.elts)} if e.elts else {}
    return None


def len_class(prog: Program, ctx: ClassInfo, w: PopWrite, shaped: set) -> tuple:
    """-> (class, why)   class in SAME | N | GROW | SHRINK | UNKNOWN"""
    if w.kind == "slot":
        return "SAME", "slot store"
    if w.kind == "helper":
        if w.helper == "_extend_and_trim_population":
            return "SAME", "extend + trim to population_size (N stays N)"
        if w.helper == "_greedy_select_population":
            return "SAME", "one result per incumbent"
        return "UNKNOWN", "replace + trim: min(len(new), N) needs the length of the argument"
    if w.kind == "mutcall":
        if w.helper in ("sort", "reverse"):
            return "SAME", "in-place reorder"
        if w.helper in ("append", "extend", "insert", "__iadd__"):
            return "GROW", f".{w.helper}() adds agents"
        return "SHRINK", f".{w.helper}() removes agents"
    if w.kind == "aug":
        return "GROW", "`+=` adds agents"
    if w.kind in ("del", "slice-store"):
        return "SHRINK", "deletes / replaces a slice"
    v = w.value
    if w.kind == "multi-assign":
        comp = zip_unpack_comp(v, w.fi.node)
        if comp is not None and len(comp.generators) == 1:
            return _comp_len(w.fi, comp, shaped)
        return "UNKNOWN", "tuple assignment of unknown shape"
    if w.kind == "assign":
        if isinstance(v, ast.ListComp):
            if len(v.generators) != 1:
                return "UNKNOWN", "nested comprehension (regrouping): size follows from arithmetic"
            return _comp_len(w.fi, v, shaped)
        if isinstance(v, ast.Call):
            d = dotted(v.func)
            if d in ("sort_by_cost", "sorted") and v.args and dotted(v.args[0]) == "self._population":
                return "SAME", "reordering of the population"
            if d == "list" and len(v.args) == 1:
                inner = v.args[0]
                if isinstance(inner, ast.Call) and dotted(inner.func) == "map" and len(inner.args) == 2 \
                        and pop_iter(inner.args[1]) is not None:
                    return "SAME", "map over the population"
                if dotted(inner) == "self._population":
                    return "SAME", "copy"
            if d == "sort_and_trim":
                return "UNKNOWN", "sort_and_trim: min(len, k)"
            if d == "self._generate_agents" and v.args and _is_population_size(w.fi, v.args[0]):
                return "N", "population_size fresh agents"
        if isinstance(v, ast.Subscript) and isinstance(v.slice, ast.Slice) and dotted(v.value) == "self._population":
            return "SHRINK", "slice of the population"
        if isinstance(v, ast.BinOp) and isinstance(v.op, ast.Add):
            sl = sym_len(w.fi, v)
            if sl is None:
                return "UNKNOWN", "concatenation of lists whose lengths are not understood"
            if sl == {"N": 1}:
                return "N", "concatenation whose symbolic length is exactly population_size"
            return "MISCOUNT", f"concatenation whose symbolic length is {show_lin(sl)}, not identically population_size"
        return "UNKNOWN", f"`{norm(v, 60)}`"
    return "UNKNOWN", w.kind


def _comp_len(fi: FuncInfo, comp: ast.ListComp, shaped: set) -> tuple:
    g = comp.generators[0]
    k = pop_iter(g.iter)
    if k is not None:
        if g.ifs:
            return "SHRINK", f"filter `if {norm(g.ifs[0], 50)}` in a comprehension over the population"
        if k == "zip":
            others = g.iter.args[1:]
            for o in others:
                d = dotted(o)
                if not (d and d.startswith("self.") and d[5:] in shaped):
                    return "UNKNOWN", f"zip with `{norm(o, 40)}` whose length is not tied to the population"
        return "SAME", "unfiltered comprehension over the population"
    it = g.iter
    if isinstance(it, ast.Call) and isinstance(it.func, ast.Name) and it.func.id == "range" and not g.ifs:
        hi = it.args[-1] if len(it.args) in (1, 2) else None
        lo0 = len(it.args) == 1 or (isinstance(it.args[0], ast.Constant) and it.args[0].value == 0)
        if hi is not None and lo0 and _is_population_size(fi, hi):
            return "N", "one element per index of range(population_size)"
    return "UNKNOWN", f"comprehension over `{norm(it, 50)}`"


# ---------------------------------------------------------------------------------------------
# elitism
# ---------------------------------------------------------------------------------------------

class Keeps:
    """Does an expression, evaluated for population member `m`, yield an agent whose cost is <= m.cost ?"""

    def __init__(self, prog: Program, ctx: ClassInfo):
        self.prog = prog
        self.ctx = ctx
        self.res = Resolver(prog, ctx)
        self._fn_memo: dict = {}

    def expr(self, fi: FuncInfo, e: ast.AST, m: str, idx: Optional[str] = None, depth: int = 8) -> tuple:
        """-> (ok, why-not)"""
        if depth <= 0:
            return False, "too deep"
        if isinstance(e, ast.Name):
            if e.id == m:
                # the member name itself; if it was rebound (two-phase updates `x = greedy(x, new)`), the value
                # reaching this use must in turn keep the previous value of the member
                rd = reaching_def(fi.node, e, e.id)
                if rd is None:
                    sites = store_sites(fi.node, m)
                    if not sites:
                        return True, ""
                    return False, f"`{m}` is rebound on some path in a way the analysis cannot follow"
                if rd[2] in ("param", "for"):
                    return True, ""
                if rd[2] == "assign":
                    return self.expr(fi, rd[1], m, idx, depth - 1)
                return False, f"`{m}` is rebound by `{norm(rd[0], 50)}`"
            # all reaching definitions of the local must keep m
            rd = reaching_def(fi.node, e, e.id)
            if rd is not None and rd[2] == "assign":
                return self.expr(fi, rd[1], m, idx, depth - 1)
            if rd is not None and rd[2] == "unpack":
                return self._unpack(fi, rd[1], e.id, m, idx, depth - 1)
            sites = [s for s in store_sites(fi.node, e.id)]
            if sites and all(k in ("assign", "unpack") for (_s, _v, k) in sites):
                for (_s, v, k) in sites:
                    ok, why = (self.expr(fi, v, m, idx, depth - 1) if k == "assign"
                               else self._unpack(fi, v, e.id, m, idx, depth - 1))
                    if not ok:
                        return False, f"`{e.id}` may be `{norm(v, 50)}`: {why}"
                return True, ""
            return False, f"`{e.id}` is not the member"
        if isinstance(e, ast.IfExp):
            a = self.expr(fi, e.body, m, idx, depth - 1)
            if not a[0]:
                return a
            return self.expr(fi, e.orelse, m, idx, depth - 1)
        if isinstance(e, ast.Tuple) and e.elts:
            return self.expr(fi, e.elts[0], m, idx, depth - 1)
        if isinstance(e, ast.Subscript) and dotted(e.value) == "self._population" and idx is not None \
                and isinstance(e.slice, ast.Name) and e.slice.id == idx:
            return True, ""
        if isinstance(e, ast.Call):
            f = e.func
            if isinstance(f, ast.Attribute) and f.attr == "model_copy" and isinstance(f.value, ast.Name):
                return self.expr(fi, f.value, m, idx, depth - 1)
            if dotted(f) == "self._greedy_select_agent" and len(e.args) == 2 and not e.keywords:
                for a in e.args:
                    ok, _ = self.expr(fi, a, m, idx, depth - 1)
                    if ok:
                        return True, ""
                return False, f"`{norm(e, 70)}`: neither operand of the greedy selection is the member `{m}`"
            # a closure / private method applied to the member
            callee = None
            if isinstance(f, ast.Name):
                r = self.res.lookup_lexical(fi, f.id)
                if isinstance(r, FuncInfo):
                    callee = r
            elif isinstance(f, ast.Attribute) and isinstance(f.value, ast.Name) and f.value.id == "self":
                callee = self.res.lookup_self_method(fi, f.attr)
                if callee is not None and callee.cls is not None and callee.cls.qualname == ABSTRACT:
                    callee = None
            if callee is not None:
                params = callee.params
                off = 1 if (callee.is_method and params and params[0] == "self") else 0
                # which callee parameter receives the enumerate index (so that self._population[<it>] is the member)?
                idx_param = None
                for i, a in enumerate(e.args):
                    if idx is not None and isinstance(a, ast.Name) and a.id == idx and i + off < len(params):
                        idx_param = params[i + off]
                last_why = f"`{norm(e, 60)}` is not applied to the member `{m}`"
                for i, a in enumerate(e.args):
                    if i + off >= len(params) or (isinstance(a, ast.Name) and a.id == idx):
                        continue
                    if isinstance(a, (ast.Constant,)):
                        continue
                    carries, _ = self.expr(fi, a, m, idx, depth - 1) if isinstance(a, (ast.Name, ast.Subscript, ast.Call, ast.IfExp)) else (False, "")
                    if carries:
                        ok, why = self.function(callee, params[i + off], idx_param)
                        if ok:
                            return True, ""
                        last_why = f"{callee.name}(..): {why}"
                for k in e.keywords:
                    if isinstance(k.value, ast.Name) and k.arg in params and self.expr(fi, k.value, m, idx, depth - 1)[0]:
                        return self.function(callee, k.arg, idx_param)
                return False, last_why
            return False, f"`{norm(e, 60)}` is a new agent not compared with the member"
        return False, f"`{norm(e, 60)}`"

    def _unpack(self, fi, st, name, m, idx, depth) -> tuple:
        """``a, b = f(m)`` -> first element of f's tuple return (only position 0 carries the agent)."""
        if isinstance(st, ast.Assign) and isinstance(st.targets[0], ast.Tuple):
            pos = [i for i, t in enumerate(st.targets[0].elts) if isinstance(t, ast.Name) and t.id == name]
            if pos and pos[0] == 0:
                return self.expr(fi, st.value, m, idx, depth)
            if pos and isinstance(st.value, ast.Tuple) and len(st.value.elts) == len(st.targets[0].elts):
                return self.expr(fi, st.value.elts[pos[0]], m, idx, depth)
        return False, "tuple unpacking of unknown shape"

    def function(self, f: FuncInfo, param: str, idx_param: Optional[str] = None) -> tuple:
        key = (f, param, idx_param)
        if key in self._fn_memo:
            return self._fn_memo[key]
        self._fn_memo[key] = (True, "")      # recursion guard (coinductive)
        rets = returns_of(f.node)
        if not rets or not isinstance(f.node.body[-1], (ast.Return, ast.Raise, ast.If)):
            out = (False, f"{f.name} may return nothing")
        else:
            out = (True, "")
            if idx_param is not None and store_sites(f.node, idx_param):
                idx_param = None
            for r in rets:
                if r.value is None:
                    out = (False, f"{f.name} returns None")
                    break
                ok, why = self.expr(f, r.value, param, idx_param)
                if not ok and self._guarded_cheaper(f, r, param):
                    ok = True
                if not ok:
                    out = (False, f"{f.name} returns `{norm(r.value, 60)}` at line {r.lineno}: {why}")
                    break
        self._fn_memo[key] = out
        return out


def _is_cost_of(e: ast.AST, name: str) -> bool:
    return isinstance(e, ast.Attribute) and e.attr == "cost" and isinstance(e.value, ast.Name) and e.value.id == name


def _guarded_cheaper_impl(f: FuncInfo, r: ast.Return, param: str) -> bool:
    """``if X.cost < param.cost: return X`` - the returned agent is cheaper than the member by its guard."""
    from .model import ancestors
    if not isinstance(r.value, ast.Name):
        return False
    x = r.value.id
    for a in ancestors(r):
        if a is f.node:
            break
        if isinstance(a, ast.If) and any(r is n for st in a.body for n in ast.walk(st)):
            t = a.test
            tests = t.values if isinstance(t, ast.BoolOp) and isinstance(t.op, ast.And) else [t]
            for c in tests:
                if isinstance(c, ast.Compare) and len(c.ops) == 1:
                    l, rr, op = c.left, c.comparators[0], c.ops[0]
                    if isinstance(op, (ast.Lt, ast.LtE)) and _is_cost_of(l, x) and _is_cost_of(rr, param):
                        return True
                    if isinstance(op, (ast.Gt, ast.GtE)) and _is_cost_of(l, param) and _is_cost_of(rr, x):
                        return True
    return False


Keeps._guarded_cheaper = lambda self, f, r, param: _guarded_cheaper_impl(f, r, param) and not store_sites(f.node, param)


def keeps_best(prog: Program, ctx: ClassInfo, w: PopWrite, K: Keeps) -> tuple:
    """-> (ok, why-not) : can this write make the population's best cost worse?"""
    if w.kind == "helper":
        if w.helper in ("_extend_and_trim_population", "_greedy_select_population"):
            return True, ""
        return False, "replace + trim discards the old population"
    if w.kind == "mutcall" and w.helper in ("sort", "reverse", "append", "extend", "insert", "__iadd__"):
        return True, ""
    if w.kind == "aug":
        return True, ""
    v = w.value
    comp = None
    if w.kind == "assign" and isinstance(v, ast.ListComp):
        comp = v
    elif w.kind == "multi-assign":
        comp = zip_unpack_comp(v, w.fi.node)
        st = w.stmt
        first = st.targets[0].elts[0] if isinstance(st.targets[0], (ast.Tuple, ast.List)) else None
        if first is None or dotted(first) != "self._population":
            return False, "the population is not the first unpacked target"
    if comp is not None:
        if len(comp.generators) != 1 or comp.generators[0].ifs:
            return False, "filtered / nested comprehension"
        g = comp.generators[0]
        m = member_name(g)
        if m is None:
            return False, f"the new population is built over `{norm(g.iter, 50)}`, not member by member from the old one"
        return K.expr(w.fi, comp.elt, m, index_name(g))
    if w.kind == "assign" and isinstance(v, ast.Call) and dotted(v.func) in ("sort_by_cost", "sorted") and v.args \
            and dotted(v.args[0]) == "self._population":
        return True, ""
    return False, f"`{w.text(70)}` is not a recognised best-preserving update"
