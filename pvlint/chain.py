"""Shape of the correction chain Task.initial_solution -> correct_solution -> Variable.correct and
Task.solve -> correct_solution -> objective_function (shared by C01, C02, C05, C14)."""
from __future__ import annotations

import ast

from .flow import is_call_to, origin, returns_of
from .model import PKG, AnalysisError, Program, construct_key, dotted, norm
from .report import Finding, Result

TASK = f"{PKG}.models.Task"


def _f(prog, res: Result, prop, rule, node, fi, msg):
    res.add(Finding(prop, rule, construct_key(prog, node, fi.module), f"{fi.module.relpath}:{node.lineno}", msg))


def check_solve(prog: Program, res: Result, prop: str) -> None:
    """Task.solve: objective_function is applied to self.correct_solution(<first parameter>)."""
    fi = prog.func(f"{TASK}.solve")
    params = fi.params
    if len(params) < 2:
        raise AnalysisError("Task.solve lost its position parameter")
    x = params[1]
    calls = [n for n in ast.walk(fi.node) if is_call_to(n, "self", "objective_function")]
    res.count("chain.solve.objective-call", len(calls))
    if not calls:
        _f(prog, res, prop, f"{prop}.chain.solve-evaluates", fi.node, fi,
           "Task.solve no longer calls self.objective_function")
        res.ob(False)
        return
    for c in calls:
        ok = len(c.args) == 1 and not c.keywords
        if ok:
            src = origin(fi.node, c.args[0])
            ok = is_call_to(src, "self", "correct_solution") and len(src.args) == 1 and \
                isinstance(origin(fi.node, src.args[0]), ast.Name) and origin(fi.node, src.args[0]).id == x
            if ok:
                from .flow import reaching_def
                rd = reaching_def(fi.node, src.args[0], x)
                ok = rd is not None and rd[2] == "param"
        res.ob(ok, f"{fi.module.relpath}:{c.lineno} {norm(c)} <- {norm(origin(fi.node, c.args[0])) if c.args else '?'}",
               construct_key(prog, c, fi.module))
        if not ok:
            src_ = origin(fi.node, c.args[0]) if c.args else None
            mentions = src_ is not None and any(isinstance(n_, ast.Call) and is_call_to(n_, "self", "correct_solution") for n_ in ast.walk(src_))
            calls_other = src_ is not None and any(isinstance(n_, ast.Call) and not is_call_to(n_, "self", "correct_solution") for n_ in ast.walk(src_))
            if src_ is not None and (not mentions or isinstance(src_, ast.IfExp)) and not (calls_other and not mentions and not isinstance(src_, ast.Name)):
                _f(prog, res, prop, f"{prop}.chain.solve-corrects-first", c, fi,
                   f"the argument of objective_function is `{norm(src_, 70)}`: not self.correct_solution(<the position passed to solve>) "
                   f"on every path")
            elif src_ is not None and not mentions:
                res.errors.append(f"Task.solve: cannot follow `{norm(src_, 60)}` to a call of correct_solution (undecided)")
            else:
                _f(prog, res, prop, f"{prop}.chain.solve-corrects-first", c, fi,
                   "the argument of objective_function is not self.correct_solution applied to the position passed to solve")


def check_solve_returns_objective(prog: Program, res: Result, prop: str) -> None:
    """Task.solve hands the objective's value back unchanged: every return value is (an alias of) the result of the
    objective_function call.  A return of anything else - a constant, a private attribute, a transformed value - means the
    recorded cost is not the objective at the position (C02) and breaks the min/max mirror (C12).  Only positively identified
    other values are reported; an expression that merely cannot be followed is undecided."""
    fi = prog.func(f"{TASK}.solve")
    rets = returns_of(fi.node)
    res.count("chain.solve.returns", len(rets))
    for r in rets:
        v = r.value
        if v is None:
            res.ob(False)
            _f(prog, res, prop, f"{prop}.chain.solve-returns-objective-value", r, fi, "Task.solve returns None on a path")
            continue
        src = origin(fi.node, v) if isinstance(v, ast.Name) else v
        if is_call_to(src, "self", "objective_function"):
            # a Name must have that call as its only definition reaching here
            if isinstance(v, ast.Name):
                from .flow import store_sites
                sites = [s_ for s_ in store_sites(fi.node, v.id)]
                if len(sites) > 1:
                    other = [s_ for s_ in sites if not (s_[1] is not None and is_call_to(s_[1], "self", "objective_function"))]
                    if other:
                        res.ob(False)
                        _f(prog, res, prop, f"{prop}.chain.solve-returns-objective-value", other[0][0], fi,
                           f"Task.solve re-binds `{v.id}` (`{norm(other[0][0], 60)}`) before returning it: the value handed to the "
                           f"optimizer is not always what objective_function returned")
                        continue
            res.ob(True, f"{fi.module.relpath}:{r.lineno} return {norm(v, 50)} is the objective's value", construct_key(prog, r, fi.module))
            continue
        if isinstance(src, (ast.Constant, ast.Attribute, ast.BinOp, ast.UnaryOp)) or (
                isinstance(src, ast.Call) and not any(is_call_to(n_, "self", "objective_function") for n_ in ast.walk(src))
                and (dotted(src.func) or "").split(".")[0] in ("np", "numpy", "float", "int", "abs", "min", "max", "round", "math")):
            res.ob(False)
            _f(prog, res, prop, f"{prop}.chain.solve-returns-objective-value", r, fi,
               f"Task.solve returns `{norm(src, 60)}` on a path: not the value objective_function returned for the corrected position")
            continue
        res.errors.append(f"{fi.module.relpath}:{r.lineno} Task.solve: cannot follow the returned `{norm(v, 50)}` to the "
                          f"objective_function call (undecided)")


def check_correct_solution(prog: Program, res: Result, prop: str) -> None:
    """Task.correct_solution returns one `.correct(c)` per zipped (coordinate, get_variables()) pair."""
    fi = prog.func(f"{TASK}.correct_solution")
    sol = fi.params[1] if len(fi.params) > 1 else None
    rets = returns_of(fi.node)
    res.count("chain.correct_solution.returns", len(rets))
    if not rets:
        _f(prog, res, prop, f"{prop}.chain.correct-solution-shape", fi.node, fi, "correct_solution returns nothing")
        res.ob(False)
        return
    for r in rets:
        ok = False
        why = "return value is not a comprehension over zip(<solution>, self.get_variables())"
        v = origin(fi.node, r.value) if r.value is not None else None
        if isinstance(v, ast.ListComp) and len(v.generators) == 1:
            g = v.generators[0]
            it = g.iter
            if g.ifs:
                why = "the comprehension filters coordinates"
            elif isinstance(it, ast.Call) and isinstance(it.func, ast.Name) and it.func.id == "zip" \
                    and len(it.args) == 2 and isinstance(g.target, ast.Tuple) and len(g.target.elts) == 2 \
                    and all(isinstance(t, ast.Name) for t in g.target.elts):
                roles = {}
                for arg, tgt in zip(it.args, g.target.elts):
                    o = origin(fi.node, arg)
                    if isinstance(o, ast.Name) and o.id == sol:
                        from .flow import reaching_def
                        rd = reaching_def(fi.node, arg if isinstance(arg, ast.Name) else o, sol)
                        if rd is not None and rd[2] == "param":
                            roles["coord"] = tgt.id
                    elif is_call_to(o, "self", "get_variables") and not o.args:
                        roles["var"] = tgt.id
                e = v.elt
                if len(roles) == 2 and is_call_to(e, None, "correct") and isinstance(e.func.value, ast.Name) \
                        and e.func.value.id == roles["var"] and len(e.args) == 1 \
                        and isinstance(e.args[0], ast.Name) and e.args[0].id == roles["coord"]:
                    ok = True
                else:
                    why = "the element is not <variable>.correct(<its own coordinate>) over the uncut solution and self.get_variables()"
        res.ob(ok, f"{fi.module.relpath}:{r.lineno} {norm(r)}", construct_key(prog, r, fi.module))
        if not ok:
            positive = False
            if isinstance(v, ast.ListComp):
                positive = True       # a comprehension we can read: filter, cut operand, wrong pairing, other element
            elif isinstance(v, ast.BinOp) and isinstance(v.op, ast.Add):
                parts = []
                stack = [v]
                while stack:
                    x = stack.pop()
                    if isinstance(x, ast.BinOp) and isinstance(x.op, ast.Add):
                        stack += [x.left, x.right]
                    else:
                        parts.append(x)
                raw = [x for x in parts if not any(isinstance(n_, ast.Call) and isinstance(n_.func, ast.Attribute) and n_.func.attr == "correct"
                                                   for n_ in ast.walk(x))]
                if raw:
                    positive = True
                    why = f"part of the returned solution, `{norm(raw[0], 50)}`, is not passed through any variable's correct()"
            elif v is not None and not any(isinstance(n_, ast.Call) and isinstance(n_.func, ast.Attribute) and n_.func.attr == "correct"
                                           for n_ in ast.walk(v)):
                positive = isinstance(v, (ast.Name, ast.Attribute, ast.Subscript, ast.List, ast.Tuple))
                why = f"correct_solution returns `{norm(v, 60)}` without applying any variable's correct()"
            if positive:
                _f(prog, res, prop, f"{prop}.chain.correct-solution-shape", r, fi, why)
            else:
                res.errors.append(f"Task.correct_solution: return value `{norm(v, 70) if v is not None else None}` has a shape that is not "
                                  f"understood (undecided)")


def check_initial_solution(prog: Program, res: Result, prop: str) -> None:
    """Task.initial_solution returns self.correct_solution(..) on every path."""
    fi = prog.func(f"{TASK}.initial_solution")
    rets = returns_of(fi.node)
    res.count("chain.initial_solution.returns", len(rets))
    ok_all = bool(rets)
    for r in rets:
        v = origin(fi.node, r.value) if r.value is not None else None
        ok = v is not None and is_call_to(v, "self", "correct_solution") and len(v.args) == 1
        res.ob(ok, f"{fi.module.relpath}:{r.lineno} {norm(r)}", construct_key(prog, r, fi.module))
        if not ok:
            ok_all = False
            unknown_call = isinstance(v, ast.Call) and not is_call_to(v, "self", "correct_solution") and not (
                isinstance(v.func, ast.Name) and v.func.id in ("list", "tuple"))
            if unknown_call and isinstance(v.func, ast.Attribute) and dotted(v.func.value) == "self" and v.func.attr not in (
                    "empty_solution", "random_solution"):
                res.errors.append(f"Task.initial_solution: return `{norm(v, 60)}` goes through a helper that is not followed (undecided)")
            else:
                _f(prog, res, prop, f"{prop}.chain.initial-solution-corrects", r, fi,
                   f"initial_solution returns `{norm(v, 60) if v is not None else None}` on some path without going through self.correct_solution")
    # falls off the end?
    last = fi.node.body[-1]
    if not isinstance(last, (ast.Return, ast.Raise)):
        res.ob(False)
        _f(prog, res, prop, f"{prop}.chain.initial-solution-corrects", last, fi,
           "initial_solution can fall off its end without returning a corrected solution")
    if not rets:
        _f(prog, res, prop, f"{prop}.chain.initial-solution-corrects", fi.node, fi, "no return")
    return ok_all


def no_task_subclass_overrides(prog: Program, res: Result, prop: str) -> None:
    """No class inside the package overrides Task's chain methods (user subclasses are outside)."""
    for ci in prog.subclasses(TASK):
        for m in ("solve", "correct_solution", "initial_solution", "get_variables"):
            if m in ci.methods:
                f = ci.methods[m]
                _f(prog, res, prop, f"{prop}.chain.sealed", f.node, f,
                   f"{ci.qualname} overrides Task.{m}; the chain rules analyse the base implementation")


CHAIN_METHODS = ("solve", "correct_solution", "initial_solution", "get_variables", "empty_solution", "get_bounds")


def check_chain_pure(prog: Program, res: Result, prop: str) -> None:
    """The correction chain is a function of the *declared* fields only: none of the Task methods on it (nor the
    Variable protocol methods they call) stores into its own object - a memo of the flattened variables or bounds would
    keep correcting against a search space the task no longer declares."""
    from .alias import MUTATORS
    from .callgraph import Resolver, own_nodes, reachable
    task = prog.cls(TASK)
    roots = [task.methods[m] for m in CHAIN_METHODS if m in task.methods]
    seen = reachable(prog, None, roots, Resolver(prog, None))
    n = 0
    for f in seen:
        if f.cls is None or not (prog.is_subclass(f.cls, TASK) or prog.is_subclass(f.cls, f"{PKG}.models.Variable")
                                 or f.cls.qualname == f"{PKG}.models.LabelEncoder"):
            continue
        if f.name == "__init__":
            continue
        n += 1
        for node in own_nodes(f):
            hit = None
            if isinstance(node, (ast.Attribute, ast.Subscript)) and isinstance(node.ctx, (ast.Store, ast.Del)):
                b = node
                while isinstance(b, (ast.Attribute, ast.Subscript)):
                    b = b.value
                if isinstance(b, ast.Name) and b.id == "self":
                    hit = node
            elif isinstance(node, ast.Call) and isinstance(node.func, ast.Attribute) and node.func.attr in MUTATORS:
                b = node.func.value
                while isinstance(b, (ast.Attribute, ast.Subscript)):
                    b = b.value
                if isinstance(b, ast.Name) and b.id == "self":
                    hit = node
            elif isinstance(node, ast.Call) and isinstance(node.func, ast.Name) and node.func.id in ("setattr", "object.__setattr__"):
                hit = node
            if hit is not None:
                res.ob(False)
                res.add(Finding(prop, f"{prop}.chain.pure", construct_key(prog, hit, f.module), f"{f.module.relpath}:{hit.lineno}",
                                f"{f.qualname} is on the correction chain and stores into its own object "
                                f"(`{norm(hit, 60)}`): positions are then corrected against remembered variables/bounds instead of "
                                f"the ones the task declares now"))
        for node in own_nodes(f):
            # decorators that memoise
            pass
        for d in getattr(f.node, "decorator_list", []):
            if any(k in norm(d) for k in ("cache", "lru_cache", "cached_property")):
                res.ob(False)
                res.add(Finding(prop, f"{prop}.chain.pure", construct_key(prog, f.node, f.module) + "::decorator", f.loc(),
                                f"{f.qualname} is on the correction chain and is memoised with `{norm(d)}`"))
    res.count("chain.pure-functions", n)
    res.ob(True, f"{n} Task/Variable functions on the correction chain store nothing into their own object", "chain.pure")
