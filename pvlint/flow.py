"""Structured def-use helpers on the AST (the package has only structured control flow).

``reaching_def`` answers "which single assignment defines name N at this use?" by dominance in
the block structure: the latest store that is in an enclosing block *before* the use's
statement, provided no other store of N can intervene (a store in a nested block between the
two, or a later store inside a loop that encloses the use).  Anything else is ``None`` (unknown);
callers treat unknown as *not proven*.
"""
from __future__ import annotations

import ast
from typing import Optional

from .callgraph import own_nodes
from .model import ancestors, enclosing_stmt, parent

_BLOCK_FIELDS = ("body", "orelse", "finalbody", "handlers")


def stmt_blocks(st: ast.AST):
    """(field, list) for each statement list of a compound statement."""
    for f in _BLOCK_FIELDS:
        b = getattr(st, f, None)
        if isinstance(b, list) and b and isinstance(b[0], (ast.stmt, ast.ExceptHandler)):
            yield f, b
    if isinstance(st, ast.Match):  # pragma: no cover - not used by the package
        for c in st.cases:
            yield "case", c.body


def store_sites(fnode, name: str) -> list:
    """Every statement in the function's own scope that may bind ``name`` ->
    list of (stmt, value or None, kind)."""
    out = []
    for n in own_nodes(fnode):
        if isinstance(n, ast.Name) and n.id == name and isinstance(n.ctx, (ast.Store, ast.Del)):
            # comprehension variables live in their own scope
            if any(isinstance(a, (ast.ListComp, ast.SetComp, ast.DictComp, ast.GeneratorExp)) and
                   _binds_in_comp(a, n) for a in ancestors(n)):
                continue
            st = enclosing_stmt(n)
            val, kind = None, "other"
            if isinstance(st, ast.Assign) and len(st.targets) == 1 and st.targets[0] is n:
                val, kind = st.value, "assign"
            elif isinstance(st, ast.AnnAssign) and st.target is n and st.value is not None:
                val, kind = st.value, "assign"
            elif isinstance(st, ast.AugAssign) and st.target is n:
                val, kind = st, "aug"
            elif isinstance(st, ast.Assign):
                kind = "unpack"
                val = st
            elif isinstance(st, (ast.For, ast.AsyncFor)):
                kind = "for"
                val = st
            elif isinstance(st, (ast.With, ast.AsyncWith)):
                kind = "with"
                val = st
            out.append((st, val, kind))
        elif isinstance(n, (ast.FunctionDef, ast.AsyncFunctionDef)) and n.name == name:
            out.append((n, n, "def"))
    return out


def _binds_in_comp(comp, name_node) -> bool:
    for g in comp.generators:
        for t in ast.walk(g.target):
            if t is name_node:
                return True
    return False


def _block_chain(fnode, node) -> list:
    """[(block list, index of the statement containing node)] from the function body inward."""
    chain = []
    cur = enclosing_stmt(node) if not isinstance(node, ast.stmt) else node
    while cur is not None and cur is not fnode:
        p = parent(cur)
        if p is None:
            break
        holder = p
        found = None
        for _f, b in stmt_blocks(holder):
            for i, s in enumerate(b):
                if s is cur:
                    found = (b, i, holder)
        if found is None and isinstance(p, ast.ExceptHandler):
            found = (p.body, p.body.index(cur), p)
        if found is not None:
            chain.append(found)
        cur = p if isinstance(p, (ast.stmt, ast.ExceptHandler)) else None
        if cur is fnode:
            break
    return list(reversed(chain))


def _pos(n) -> tuple:
    return (getattr(n, "lineno", 0), getattr(n, "col_offset", 0))


def reaching_def(fnode, use: ast.AST, name: str):
    """(stmt, value, kind) of the unique definition of ``name`` reaching ``use`` or None.
    Parameters count as a definition with kind 'param' (stmt None)."""
    sites = store_sites(fnode, name)
    use_stmt = enclosing_stmt(use) if not isinstance(use, ast.stmt) else use
    chain = _block_chain(fnode, use_stmt)
    # dominating stores: statements earlier in one of the enclosing blocks
    dominating = []

    def always(stmts):
        """statements that are certainly executed when the block is: the block's own statements and,
        recursively, the bodies of `with` statements among them"""
        for s in stmts:
            yield s
            if isinstance(s, (ast.With, ast.AsyncWith)):
                yield from always(s.body)
    for (blk, idx, _holder) in chain:
        for s in always(blk[:idx]):
            for (st, val, kind) in sites:
                if st is s:
                    dominating.append((st, val, kind))
    is_param = name in _params(fnode)
    if not dominating:
        if is_param and not any(_pos(st) < _pos(use_stmt) for (st, _v, _k) in sites):
            # possibly a later store in an enclosing loop
            if _later_store_in_enclosing_loop(fnode, use_stmt, sites):
                return None
            return (None, None, "param")
        return None
    last = max(dominating, key=lambda t: _pos(t[0]))
    # any other store textually between last and use that is not the dominating one -> unknown
    for (st, _v, _k) in sites:
        if st is last[0]:
            continue
        if _pos(last[0]) < _pos(st) < _pos(use_stmt):
            return None
        if st is use_stmt and _k != "assign":
            pass
    if _later_store_in_enclosing_loop(fnode, use_stmt, sites, exclude=last[0]):
        return None
    return last


def _later_store_in_enclosing_loop(fnode, use_stmt, sites, exclude=None) -> bool:
    loops = [a for a in ancestors(use_stmt) if isinstance(a, (ast.For, ast.While, ast.AsyncFor))]
    inner = []
    for a in ancestors(use_stmt):
        if a is fnode:
            break
        inner.append(a)
    loops = [l for l in loops if l in inner]
    if not loops:
        return False
    outer_loop = loops[-1]
    for (st, _v, _k) in sites:
        if st is exclude:
            continue
        if _pos(st) >= _pos(use_stmt) and outer_loop in list(ancestors(st)):
            # the exclude (dominating) def inside the same loop iteration re-kills it: fine only if
            # exclude is inside that loop as well
            if exclude is not None and outer_loop in list(ancestors(exclude)):
                continue
            return True
    return False


def _params(fnode) -> list:
    a = fnode.args
    out = [x.arg for x in a.posonlyargs + a.args + a.kwonlyargs]
    if a.vararg:
        out.append(a.vararg.arg)
    if a.kwarg:
        out.append(a.kwarg.arg)
    return out


def origin(fnode, e: ast.AST, depth: int = 6) -> ast.AST:
    """Follow plain names through their unique reaching ``x = expr`` definitions."""
    cur = e
    for _ in range(depth):
        if not isinstance(cur, ast.Name):
            return cur
        rd = reaching_def(fnode, cur, cur.id)
        if rd is None or rd[2] != "assign":
            return cur
        cur = rd[1]
    return cur


def is_call_to(e: ast.AST, recv: Optional[str], attr: str) -> bool:
    """``recv.attr(...)`` with recv a dotted text such as 'self' / 'self._task' (None = any)."""
    from .model import dotted
    if not (isinstance(e, ast.Call) and isinstance(e.func, ast.Attribute) and e.func.attr == attr):
        return False
    if recv is None:
        return True
    return dotted(e.func.value) == recv


def returns_of(fnode) -> list:
    return [n for n in own_nodes(fnode) if isinstance(n, ast.Return)]


def top_level_stmts(fnode) -> list:
    body = list(fnode.body)
    if body and isinstance(body[0], ast.Expr) and isinstance(body[0].value, ast.Constant) \
            and isinstance(body[0].value.value, str):
        body = body[1:]
    return body


def alias_root(fnode, e: ast.AST, depth: int = 6) -> ast.AST:
    """Follow `x = y` (name to name) definitions only: the first name that is not a plain alias of another name."""
    cur = e
    for _ in range(depth):
        if not isinstance(cur, ast.Name):
            return cur
        rd = reaching_def(fnode, cur, cur.id)
        if rd is None or rd[2] != "assign" or not isinstance(rd[1], ast.Name):
            return cur
        cur = rd[1]
    return cur
