"""Forward substitution over a straight-line function body (value numbering with expression values).

Locals are replaced by the expressions they hold; `X.append(v)` / `X += [v]` on a *tracked* list attribute is recorded, and a
later read of `X[-1]`, `len(X)`, `bool(X)` sees the appended value.  Nothing is executed and no solver is involved: the result
is, per tracked list, the expressions appended to it written over the function's inputs and the lists' values at entry.
Anything that is not an assignment to a plain local, an append to a tracked list, a debug print or the final return makes the
summary *unknown* (the caller answers undecided)."""
from __future__ import annotations

import ast
import copy
from typing import Optional

from .model import dotted, norm


class FwdUnknown(Exception):
    pass


class _Sub(ast.NodeTransformer):
    def __init__(self, env, appended):
        self.env, self.appended = env, appended
        self.bound = []

    def visit_Name(self, n):
        if isinstance(n.ctx, ast.Load) and n.id in self.env and not any(n.id in b for b in self.bound):
            return copy.deepcopy(self.env[n.id])
        return n

    def _comp(self, n):
        b = set()
        for g in n.generators:
            b |= {x.id for x in ast.walk(g.target) if isinstance(x, ast.Name)}
        first = self.visit(n.generators[0].iter)
        self.bound.append(b)
        n = self.generic_visit(n)
        self.bound.pop()
        n.generators[0].iter = first
        return n
    visit_ListComp = visit_GeneratorExp = visit_SetComp = visit_DictComp = _comp

    def visit_Subscript(self, n):
        n = self.generic_visit(n)
        d = dotted(n.value)
        if d in self.appended and self.appended[d] and norm(n.slice) == "-1" and isinstance(n.ctx, ast.Load):
            return copy.deepcopy(self.appended[d][-1])          # the element appended last
        return n

    def visit_Compare(self, n):
        n = self.generic_visit(n)
        # len(X) > 0 / len(X) != 0 / len(X) >= 1 after an append is true
        if len(n.ops) == 1 and isinstance(n.left, ast.Call) and isinstance(n.left.func, ast.Name) and n.left.func.id == "len" \
                and len(n.left.args) == 1 and dotted(n.left.args[0]) in self.appended and self.appended[dotted(n.left.args[0])] \
                and isinstance(n.comparators[0], ast.Constant):
            c = n.comparators[0].value
            op = n.ops[0]
            if (isinstance(op, (ast.Gt, ast.NotEq)) and c == 0) or (isinstance(op, ast.GtE) and c == 1):
                return ast.Constant(value=True)
        return n

    def visit_IfExp(self, n):
        n = self.generic_visit(n)
        if isinstance(n.test, ast.Constant) and isinstance(n.test.value, bool):
            return n.body if n.test.value else n.orelse
        if dotted(n.test) in self.appended and self.appended[dotted(n.test)]:
            return n.body
        return n


def summarise(fnode: ast.FunctionDef, tracked: set, ignore_calls=("print",)) -> dict:
    """-> {'appended': {list: [expr, ..]}, 'returns': expr | None, 'env': {...}}"""
    env: dict = {}
    appended = {t: [] for t in tracked}
    ret = None

    def sub(e):
        return ast.fix_missing_locations(_Sub(env, appended).visit(copy.deepcopy(e)))

    def block(stmts, top: bool):
        nonlocal ret
        for st in stmts:
            if isinstance(st, ast.Expr) and isinstance(st.value, ast.Constant):
                continue
            if isinstance(st, ast.Expr) and isinstance(st.value, ast.Call):
                c = st.value
                if isinstance(c.func, ast.Name) and c.func.id in ignore_calls:
                    continue
                if isinstance(c.func, ast.Attribute) and c.func.attr == "append" and dotted(c.func.value) in tracked \
                        and len(c.args) == 1 and not c.keywords:
                    if not top:
                        raise FwdUnknown(f"conditional append to {dotted(c.func.value)}")
                    appended[dotted(c.func.value)].append(sub(c.args[0]))
                    continue
                if isinstance(c.func, ast.Attribute) and c.func.attr == "extend" and dotted(c.func.value) in tracked \
                        and len(c.args) == 1 and isinstance(c.args[0], (ast.List, ast.Tuple)) and top:
                    for x in c.args[0].elts:
                        appended[dotted(c.func.value)].append(sub(x))
                    continue
                raise FwdUnknown(f"call statement `{norm(st, 50)}`")
            if isinstance(st, ast.AugAssign) and isinstance(st.op, ast.Add) and dotted(st.target) in tracked \
                    and isinstance(st.value, (ast.List, ast.Tuple)) and top:
                for x in st.value.elts:
                    appended[dotted(st.target)].append(sub(x))
                continue
            if isinstance(st, ast.AnnAssign) and st.value is not None and isinstance(st.target, ast.Name):
                env[st.target.id] = sub(st.value)
                continue
            if isinstance(st, ast.Assign) and len(st.targets) == 1 and isinstance(st.targets[0], ast.Name):
                env[st.targets[0].id] = sub(st.value)
                continue
            if isinstance(st, ast.Assign) and len(st.targets) == 1 and isinstance(st.targets[0], (ast.Tuple, ast.List)) \
                    and isinstance(st.value, (ast.Tuple, ast.List)) and len(st.value.elts) == len(st.targets[0].elts) \
                    and all(isinstance(t, ast.Name) for t in st.targets[0].elts):
                vals = [sub(v) for v in st.value.elts]
                for t, v in zip(st.targets[0].elts, vals):
                    env[t.id] = v
                continue
            if isinstance(st, ast.If) and dotted(st.test) == "self._debug" and not st.orelse:
                # debug output only: the body may print, nothing else
                for x in st.body:
                    if not (isinstance(x, ast.Expr) and isinstance(x.value, ast.Call) and isinstance(x.value.func, ast.Name)
                            and x.value.func.id in ignore_calls):
                        raise FwdUnknown("a debug block that does more than print")
                continue
            if isinstance(st, ast.Return):
                if not top:
                    raise FwdUnknown("conditional return")
                ret = sub(st.value) if st.value is not None else None
                return True
            if isinstance(st, ast.Pass):
                continue
            raise FwdUnknown(f"statement `{norm(st, 50)}`")
        return False

    block(fnode.body, True)
    return {"appended": appended, "returns": ret, "env": env}
