"""Program model of /repo/pyvolutionary built from source with the stdlib ``ast`` module.

Nothing here imports or executes the analysed code.  The model gives:

* ``Program``      every parsed module, binding tables, classes, functions
* ``ClassInfo``    bases resolved through the binding tables, MRO, methods, annotated fields
* ``FuncInfo``     a function / method / nested function / lambda with its lexical parent
* name resolution  ``Program.resolve_name(module, name)`` -> Target
* private mangling ``mangle(cls_name, attr)``

Any shape the loader does not understand raises ``AnalysisError`` (exit 2), never a guess.
"""
from __future__ import annotations

import ast
import os
from dataclasses import dataclass, field
from typing import Iterator, Optional


class AnalysisError(Exception):
    """The analysis cannot proceed soundly (vanished anchor, unknown shape)."""


PKG = "pyvolutionary"


def repo_root() -> str:
    return os.environ.get("PVLINT_REPO", "/repo")


# --------------------------------------------------------------------------------------------
# small ast helpers
# --------------------------------------------------------------------------------------------

def set_parents(tree: ast.AST) -> None:
    for node in ast.walk(tree):
        for child in ast.iter_child_nodes(node):
            child._parent = node  # type: ignore[attr-defined]
    tree._parent = None  # type: ignore[attr-defined]


def parent(node: ast.AST) -> Optional[ast.AST]:
    return getattr(node, "_parent", None)


def ancestors(node: ast.AST) -> Iterator[ast.AST]:
    p = parent(node)
    while p is not None:
        yield p
        p = parent(p)


def enclosing(node: ast.AST, kinds) -> Optional[ast.AST]:
    for a in ancestors(node):
        if isinstance(a, kinds):
            return a
    return None


def enclosing_stmt(node: ast.AST) -> ast.AST:
    cur = node
    while cur is not None and not isinstance(cur, ast.stmt):
        cur = parent(cur)
    if cur is None:
        raise AnalysisError("node without enclosing statement")
    return cur


def norm(node: ast.AST, limit: int = 160) -> str:
    """Normalised text of a node: ast.unparse is insensitive to layout and comments."""
    try:
        s = ast.unparse(node)
    except Exception:  # pragma: no cover
        s = type(node).__name__
    s = " ".join(s.split())
    return s if len(s) <= limit else s[: limit - 3] + "..."


def dotted(node: ast.AST) -> Optional[str]:
    """``a.b.c`` for a pure Name/Attribute chain, else None."""
    parts = []
    cur = node
    while isinstance(cur, ast.Attribute):
        parts.append(cur.attr)
        cur = cur.value
    if isinstance(cur, ast.Name):
        parts.append(cur.id)
        return ".".join(reversed(parts))
    return None


def attr_root(node: ast.AST) -> ast.AST:
    """Innermost value of an Attribute/Subscript chain."""
    cur = node
    while isinstance(cur, (ast.Attribute, ast.Subscript, ast.Starred)):
        cur = cur.value
    return cur


def mangle(cls_name: str, attr: str) -> str:
    if attr.startswith("__") and not attr.endswith("__"):
        return "_" + cls_name.lstrip("_") + attr
    return attr


def is_self_attr(node: ast.AST, name: Optional[str] = None) -> bool:
    return (
        isinstance(node, ast.Attribute)
        and isinstance(node.value, ast.Name)
        and node.value.id == "self"
        and (name is None or node.attr == name)
    )


# --------------------------------------------------------------------------------------------
# targets of name resolution
# --------------------------------------------------------------------------------------------

@dataclass(frozen=True)
class Target:
    kind: str           # 'class' | 'func' | 'module' | 'ext' | 'var' | 'unknown'
    ref: str            # qualified name ("pyvolutionary.helpers.sort_by_cost", "numpy.random", ...)

    def __str__(self) -> str:
        return f"{self.kind}:{self.ref}"


UNKNOWN = Target("unknown", "?")


@dataclass
class FuncInfo:
    qualname: str                 # module.Class.method.<nested>
    name: str
    node: ast.AST                 # FunctionDef | Lambda
    module: "Module"
    cls: Optional["ClassInfo"]    # class whose body (lexically) contains it, also for nested
    outer: Optional["FuncInfo"]   # lexically enclosing function
    nested: dict = field(default_factory=dict)   # name -> FuncInfo (direct nested defs)

    @property
    def is_method(self) -> bool:
        return self.cls is not None and self.outer is None

    @property
    def decorators(self) -> list:
        return [dotted(d) or norm(d) for d in getattr(self.node, "decorator_list", [])]

    @property
    def is_static(self) -> bool:
        return "staticmethod" in self.decorators

    @property
    def params(self) -> list:
        a = self.node.args
        return [x.arg for x in a.posonlyargs + a.args] + [x.arg for x in a.kwonlyargs]

    def loc(self) -> str:
        return f"{self.module.relpath}:{getattr(self.node, 'lineno', 0)}"

    def __hash__(self) -> int:
        return id(self.node)

    def __eq__(self, other) -> bool:
        return isinstance(other, FuncInfo) and other.node is self.node


@dataclass
class ClassInfo:
    qualname: str
    name: str
    node: ast.ClassDef
    module: "Module"
    base_exprs: list
    bases: list = field(default_factory=list)      # Target
    methods: dict = field(default_factory=dict)    # name -> FuncInfo
    fields: dict = field(default_factory=dict)     # annotated class-level fields: name -> AnnAssign
    assigns: dict = field(default_factory=dict)    # plain class-level assigns: name -> Assign

    def loc(self) -> str:
        return f"{self.module.relpath}:{self.node.lineno}"

    def __hash__(self) -> int:
        return id(self.node)

    def __eq__(self, other) -> bool:
        return isinstance(other, ClassInfo) and other.node is self.node


@dataclass
class Module:
    name: str            # pyvolutionary.abstract
    path: str
    relpath: str         # pyvolutionary/abstract.py
    source: str
    tree: ast.Module
    is_pkg: bool
    bindings: dict = field(default_factory=dict)    # name -> Target
    star_imports: list = field(default_factory=list)
    classes: dict = field(default_factory=dict)
    functions: dict = field(default_factory=dict)

    def package(self) -> str:
        return self.name if self.is_pkg else self.name.rsplit(".", 1)[0]


# --------------------------------------------------------------------------------------------
# Program
# --------------------------------------------------------------------------------------------

class Program:
    def __init__(self, root: Optional[str] = None, overlay: Optional[dict] = None):
        self.root = root or repo_root()
        self.overlay = overlay or {}     # relpath -> replacement source (variant battery, never on disk)
        self.modules: dict[str, Module] = {}
        self.classes: dict[str, ClassInfo] = {}
        self.functions: dict[str, FuncInfo] = {}
        self.func_by_node: dict[int, FuncInfo] = {}
        self._mro_cache: dict[str, list] = {}
        self._load()
        self._bind()
        self._resolve_bases()

    # ---------------------------------------------------------------- loading
    def _load(self) -> None:
        pkg_dir = os.path.join(self.root, PKG)
        if not os.path.isdir(pkg_dir):
            raise AnalysisError(f"package directory not found: {pkg_dir}")
        # names defined (def) more than once anywhere in the package: a method with such a name may be overridden, the
        # normaliser never splices it into its callers
        import re as _re
        from collections import Counter as _Counter
        from . import normalize as _normalize
        cnt = _Counter()
        imported = set()
        sigs: dict = {}
        for dirpath, dirnames, filenames in os.walk(pkg_dir):
            dirnames[:] = sorted(d for d in dirnames if d != "__pycache__")
            for fn in sorted(filenames):
                if fn.endswith(".py"):
                    path = os.path.join(dirpath, fn)
                    rel = os.path.relpath(path, self.root)
                    txt = self.overlay.get(rel)
                    if txt is None:
                        with open(path, "r", encoding="utf-8") as fh:
                            txt = fh.read()
                    cnt.update(_re.findall(r"^\s*def\s+(\w+)\s*\(", txt, flags=_re.M))
                    try:
                        for fn_ in ast.walk(ast.parse(txt)):
                            if isinstance(fn_, (ast.FunctionDef, ast.AsyncFunctionDef)):
                                a_ = fn_.args
                                ps = [x.arg for x in a_.posonlyargs + a_.args]
                                deco = {getattr(d, "id", getattr(d, "attr", "")) for d in fn_.decorator_list}
                                sigs.setdefault(fn_.name, []).append(
                                    (ps, bool(a_.vararg), bool(a_.posonlyargs), "staticmethod" in deco, "classmethod" in deco))
                    except SyntaxError:
                        pass
                    for line in _re.findall(r"^\s*from\s+\S+\s+import\s+\(?([^#\n]*(?:\n[^)\n]*)*)", txt, flags=_re.M):
                        imported.update(_re.findall(r"\w+", line))
        _normalize.MULTI_DEF = frozenset(n for n, c in cnt.items() if c > 1)
        _normalize.IMPORTED_NAMES = frozenset(imported)
        _normalize.SIGNATURES = {n: v[0] for n, v in sigs.items() if len(v) == 1}
        for dirpath, dirnames, filenames in os.walk(pkg_dir):
            dirnames[:] = sorted(d for d in dirnames if d != "__pycache__")
            for fn in sorted(filenames):
                if not fn.endswith(".py"):
                    continue
                path = os.path.join(dirpath, fn)
                rel = os.path.relpath(path, self.root)
                parts = rel[:-3].split(os.sep)
                is_pkg = parts[-1] == "__init__"
                if is_pkg:
                    parts = parts[:-1]
                name = ".".join(parts)
                src, tree = _parse(path, rel, self.overlay.get(rel))
                mod = Module(name=name, path=path, relpath=rel, source=src, tree=tree, is_pkg=is_pkg)
                self.modules[name] = mod
                self._collect_defs(mod)

    def _collect_defs(self, mod: Module) -> None:
        def visit_body(body, cls: Optional[ClassInfo], outer: Optional[FuncInfo], prefix: str):
            for st in body:
                if isinstance(st, (ast.FunctionDef, ast.AsyncFunctionDef)):
                    fi = self._mk_func(st, st.name, mod, cls, outer, prefix)
                    if outer is not None:
                        outer.nested[st.name] = fi
                    elif cls is not None:
                        cls.methods[st.name] = fi
                    else:
                        mod.functions[st.name] = fi
                elif isinstance(st, ast.ClassDef):
                    if outer is not None:
                        raise AnalysisError(f"{mod.relpath}:{st.lineno}: class nested in a function is not modelled")
                    q = f"{prefix}.{st.name}"
                    ci = ClassInfo(qualname=q, name=st.name, node=st, module=mod, base_exprs=list(st.bases))
                    self.classes[q] = ci
                    if cls is None:
                        mod.classes[st.name] = ci
                    for s2 in st.body:
                        if isinstance(s2, ast.AnnAssign) and isinstance(s2.target, ast.Name):
                            ci.fields[s2.target.id] = s2
                        elif isinstance(s2, ast.Assign):
                            for t in s2.targets:
                                if isinstance(t, ast.Name):
                                    ci.assigns[t.id] = s2
                    visit_body(st.body, ci, None, q)
                elif isinstance(st, (ast.If, ast.Try, ast.With, ast.For, ast.While)) and outer is None:
                    # definitions under module/class-level control flow: not used by the package
                    for sub in ast.walk(st):
                        if isinstance(sub, (ast.FunctionDef, ast.ClassDef)) and sub is not st:
                            raise AnalysisError(
                                f"{mod.relpath}:{sub.lineno}: conditional definition is not modelled")

        visit_body(mod.tree.body, None, None, mod.name)

    def _mk_func(self, node, name, mod, cls, outer, prefix) -> FuncInfo:
        q = f"{prefix}.{name}"
        fi = FuncInfo(qualname=q, name=name, node=node, module=mod, cls=cls, outer=outer)
        self.functions[q] = fi
        self.func_by_node[id(node)] = fi
        # nested defs anywhere inside the body (but not inside deeper defs)
        for sub in self._direct_nested_defs(node):
            nfi = self._mk_func(sub, sub.name, mod, cls, fi, q)
            fi.nested[sub.name] = nfi
        return fi

    @staticmethod
    def _direct_nested_defs(fnode) -> list:
        out = []

        def rec(n):
            for ch in ast.iter_child_nodes(n):
                if isinstance(ch, (ast.FunctionDef, ast.AsyncFunctionDef)):
                    out.append(ch)
                elif isinstance(ch, ast.ClassDef):
                    raise AnalysisError(f"class nested in function at line {ch.lineno} is not modelled")
                elif isinstance(ch, ast.Lambda):
                    continue
                else:
                    rec(ch)
        for st in fnode.body if isinstance(fnode.body, list) else [fnode.body]:
            if isinstance(st, (ast.FunctionDef, ast.AsyncFunctionDef)):
                out.append(st)
            else:
                rec(st)
        return out

    # ---------------------------------------------------------------- bindings
    def _abs_module(self, mod: Module, level: int, name: Optional[str]) -> str:
        if level == 0:
            return name or ""
        base = mod.package().split(".")
        if level > 1:
            base = base[: len(base) - (level - 1)]
        return ".".join(base + ([name] if name else []))

    def _bind(self) -> None:
        # pass 1: local definitions and explicit imports
        for mod in self.modules.values():
            for st in mod.tree.body:
                self._bind_stmt(mod, st)
        # pass 2: star imports (iterate to fixpoint, packages re-export)
        changed = True
        guard = 0
        while changed:
            changed = False
            guard += 1
            if guard > 20:
                raise AnalysisError("star-import resolution does not converge")
            for mod in self.modules.values():
                for src in mod.star_imports:
                    srcmod = self.modules.get(src)
                    if srcmod is None:
                        continue
                    for n, t in self._public_names(srcmod).items():
                        if n not in mod.bindings:
                            mod.bindings[n] = t
                            changed = True

    def _public_names(self, mod: Module) -> dict:
        allnames = None
        for st in mod.tree.body:
            if isinstance(st, ast.Assign) and any(isinstance(t, ast.Name) and t.id == "__all__" for t in st.targets):
                try:
                    allnames = set(ast.literal_eval(st.value))
                except Exception as exc:
                    raise AnalysisError(f"{mod.relpath}: non-literal __all__") from exc
        out = {}
        for n, t in mod.bindings.items():
            if allnames is not None:
                if n in allnames:
                    out[n] = t
            elif not n.startswith("_"):
                out[n] = t
        return out

    def _bind_stmt(self, mod: Module, st: ast.stmt) -> None:
        if isinstance(st, ast.Import):
            for a in st.names:
                if a.asname:
                    mod.bindings[a.asname] = self._module_target(a.name)
                else:
                    top = a.name.split(".")[0]
                    mod.bindings[top] = self._module_target(top)
        elif isinstance(st, ast.ImportFrom):
            src = self._abs_module(mod, st.level, st.module)
            for a in st.names:
                if a.name == "*":
                    mod.star_imports.append(src)
                    continue
                mod.bindings[a.asname or a.name] = Target("import", f"{src}:{a.name}")
        elif isinstance(st, (ast.FunctionDef, ast.AsyncFunctionDef)):
            mod.bindings[st.name] = Target("func", f"{mod.name}.{st.name}")
        elif isinstance(st, ast.ClassDef):
            mod.bindings[st.name] = Target("class", f"{mod.name}.{st.name}")
        elif isinstance(st, (ast.Assign, ast.AnnAssign)):
            targets = st.targets if isinstance(st, ast.Assign) else [st.target]
            for t in targets:
                if isinstance(t, ast.Name):
                    mod.bindings[t.id] = Target("var", f"{mod.name}.{t.id}")
        elif isinstance(st, (ast.If, ast.Try)):
            for sub in ast.walk(st):
                if isinstance(sub, (ast.Import, ast.ImportFrom)):
                    self._bind_stmt(mod, sub)

    def _module_target(self, name: str) -> Target:
        if name in self.modules:
            return Target("module", name)
        return Target("ext", _canon_ext(name))

    def resolve_target(self, t: Target, depth: int = 0) -> Target:
        """Follow 'import' targets to their definition."""
        if depth > 20:
            raise AnalysisError(f"import chain too deep for {t}")
        if t.kind != "import":
            return t
        src, name = t.ref.split(":")
        if src in self.modules:
            m = self.modules[src]
            if name in m.bindings:
                return self.resolve_target(m.bindings[name], depth + 1)
            sub = f"{src}.{name}"
            if sub in self.modules:
                return Target("module", sub)
            return UNKNOWN
        if src.split(".")[0] == PKG:
            return UNKNOWN
        return Target("ext", _canon_ext(f"{src}.{name}"))

    def resolve_name(self, mod: Module, name: str) -> Target:
        t = mod.bindings.get(name)
        if t is None:
            return UNKNOWN
        return self.resolve_target(t)

    def resolve_dotted(self, mod: Module, expr: ast.AST) -> Target:
        """Resolve a Name / Attribute chain rooted at a module-level binding."""
        if isinstance(expr, ast.Name):
            return self.resolve_name(mod, expr.id)
        if isinstance(expr, ast.Attribute):
            base = self.resolve_dotted(mod, expr.value)
            if base.kind == "ext":
                return Target("ext", f"{base.ref}.{expr.attr}")
            if base.kind == "module":
                m = self.modules.get(base.ref)
                if m is not None and expr.attr in m.bindings:
                    return self.resolve_target(m.bindings[expr.attr])
                sub = f"{base.ref}.{expr.attr}"
                if sub in self.modules:
                    return Target("module", sub)
                return UNKNOWN
            if base.kind == "class":
                ci = self.classes.get(base.ref)
                if ci is not None:
                    f = self.lookup_method(ci, expr.attr)
                    if f is not None:
                        return Target("func", f.qualname)
                    return Target("classattr", f"{base.ref}.{expr.attr}")
            return UNKNOWN
        return UNKNOWN

    # ---------------------------------------------------------------- classes
    def _resolve_bases(self) -> None:
        for ci in self.classes.values():
            ci.bases = []
            for b in ci.base_exprs:
                e = b.value if isinstance(b, ast.Subscript) else b   # Generic[T]
                ci.bases.append(self.resolve_dotted(ci.module, e))

    def mro(self, ci: ClassInfo) -> list:
        """Linearised in-package ancestors (left-to-right DFS, duplicates removed keeping the
        last occurrence); the package only uses single inheritance plus ABC/Generic/BaseModel."""
        if ci.qualname in self._mro_cache:
            return self._mro_cache[ci.qualname]
        out = [ci]
        for b in ci.bases:
            if b.kind == "class" and b.ref in self.classes:
                for c in self.mro(self.classes[b.ref]):
                    if c in out:
                        out.remove(c)
                    out.append(c)
        self._mro_cache[ci.qualname] = out
        return out

    def ext_bases(self, ci: ClassInfo) -> set:
        s = set()
        for c in self.mro(ci):
            for b in c.bases:
                if b.kind == "ext":
                    s.add(b.ref)
        return s

    def is_subclass(self, ci: ClassInfo, qualname: str) -> bool:
        return any(c.qualname == qualname for c in self.mro(ci))

    def lookup_method(self, ci: ClassInfo, name: str, after: Optional[ClassInfo] = None) -> Optional[FuncInfo]:
        chain = self.mro(ci)
        if after is not None:
            idx = chain.index(after)
            chain = chain[idx + 1:]
        for c in chain:
            if name in c.methods:
                return c.methods[name]
        return None

    # ---------------------------------------------------------------- well-known sets
    ABSTRACT = f"{PKG}.abstract.OptimizationAbstract"
    AGENT = f"{PKG}.models.Agent"
    VARIABLE = f"{PKG}.models.Variable"
    TASK = f"{PKG}.models.Task"
    BASECONFIG = f"{PKG}.models.BaseOptimizationConfig"

    def cls(self, qualname: str) -> ClassInfo:
        ci = self.classes.get(qualname)
        if ci is None:
            raise AnalysisError(f"anchor class vanished: {qualname}")
        return ci

    def func(self, qualname: str) -> FuncInfo:
        fi = self.functions.get(qualname)
        if fi is None:
            raise AnalysisError(f"anchor function vanished: {qualname}")
        return fi

    def subclasses(self, qualname: str, strict: bool = True) -> list:
        out = []
        for ci in self.classes.values():
            if self.is_subclass(ci, qualname) and (not strict or ci.qualname != qualname):
                out.append(ci)
        return sorted(out, key=lambda c: c.qualname)

    def exported_optimizers(self) -> list:
        top = self.modules.get(PKG)
        if top is None:
            raise AnalysisError("pyvolutionary/__init__.py not found")
        out = {}
        for n, t in top.bindings.items():
            t = self.resolve_target(t)
            if t.kind == "class" and t.ref in self.classes:
                ci = self.classes[t.ref]
                if self.is_subclass(ci, self.ABSTRACT) and ci.qualname != self.ABSTRACT:
                    out[ci.qualname] = ci
        return [out[k] for k in sorted(out)]

    def agent_classes(self) -> list:
        return self.subclasses(self.AGENT, strict=False)

    def variable_classes(self) -> list:
        return self.subclasses(self.VARIABLE)

    def all_functions(self) -> list:
        return list(self.functions.values())

    def func_of_node(self, node: ast.AST) -> Optional[FuncInfo]:
        """Innermost FuncInfo lexically containing node (lambdas are not FuncInfos)."""
        for a in ancestors(node):
            if isinstance(a, (ast.FunctionDef, ast.AsyncFunctionDef)):
                return self.func_by_node.get(id(a))
        return None

    def class_of_node(self, node: ast.AST) -> Optional[ClassInfo]:
        for a in ancestors(node):
            if isinstance(a, ast.ClassDef):
                for ci in self.classes.values():
                    if ci.node is a:
                        return ci
        return None

    def module_of(self, fi_or_ci) -> Module:
        return fi_or_ci.module


_PARSE_CACHE: dict = {}
_CORE = ("abstract", "models", "helpers", "utils", "hypertuner", "multitask")


def _parse(path: str, rel: str, override: Optional[str]):
    """Parse a file (or its overlay text).  Unchanged files are parsed once per process; trees are
    never mutated after ``set_parents`` so sharing them between Program instances is safe."""
    if override is not None:
        src = override
        key = None
    else:
        st = os.stat(path)
        from . import normalize as _nz
        key = (path, st.st_mtime_ns, st.st_size, hash(getattr(_nz, "MULTI_DEF", None)),
               hash(tuple(sorted((k, tuple(v[0])) for k, v in getattr(_nz, "SIGNATURES", {}).items()))))
        hit = _PARSE_CACHE.get(key)
        if hit is not None:
            return hit
        with open(path, "r", encoding="utf-8") as fh:
            src = fh.read()
    try:
        tree = ast.parse(src, filename=rel)
    except SyntaxError as exc:
        raise AnalysisError(f"cannot parse {rel}: {exc}") from exc
    parts = rel.replace(os.sep, "/").split("/")
    if len(parts) == 2 and parts[0] == PKG and parts[1][:-3] in _CORE and not os.environ.get("PVLINT_NO_NORMALIZE"):
        from .normalize import normalize_module
        tree = normalize_module(tree)       # semantics-preserving canonical forms for the anchor modules
    set_parents(tree)
    if key is not None:
        _PARSE_CACHE[key] = (src, tree)
    return src, tree


_EXT_ALIASES = {
    "np": "numpy",
    "pd": "pandas",
}


def _canon_ext(name: str) -> str:
    head, _, rest = name.partition(".")
    head = _EXT_ALIASES.get(head, head)
    return head + ("." + rest if rest else "")


def construct_key(prog: Program, node: ast.AST, mod: Module) -> str:
    """Stable identity of a construct: module::Class.func::normalised statement text."""
    fi = prog.func_of_node(node)
    where = fi.qualname[len(PKG) + 1:] if fi is not None else mod.name[len(PKG) + 1:] if mod.name != PKG else PKG
    if fi is None:
        ci = prog.class_of_node(node)
        if ci is not None:
            where = ci.qualname[len(PKG) + 1:]
    try:
        st = enclosing_stmt(node) if not isinstance(node, ast.stmt) else node
    except AnalysisError:
        st = node
    if isinstance(st, (ast.FunctionDef, ast.ClassDef, ast.AsyncFunctionDef)):
        text = f"def {st.name}"
    elif isinstance(st, (ast.If, ast.While)):
        text = f"{type(st).__name__.lower()} {norm(st.test, 100)}"
    elif isinstance(st, ast.For):
        text = f"for {norm(st.target, 40)} in {norm(st.iter, 80)}"
    elif isinstance(st, ast.With):
        text = "with " + ", ".join(norm(i.context_expr, 60) for i in st.items)
    elif isinstance(st, ast.Try):
        text = "try"
    else:
        text = norm(st, 140)
    return f"{where}::{text}"
