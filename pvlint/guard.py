"""R0 closed-world guard (DESIGN.md 3.5) and generic store enumeration."""
from __future__ import annotations

import ast
from typing import Iterator

from .model import PKG, Program, construct_key, dotted, norm, parent

_FORBIDDEN_CALLS = {"eval", "exec", "__import__", "compile", "globals", "locals", "vars", "delattr"}
_FORBIDDEN_ATTRS = {"__dict__", "__setattr__", "__class__", "model_construct", "construct", "model_validate",
                    "parse_obj", "model_validate_json", "parse_raw", "__setstate__", "__fields_set__",
                    "model_fields_set", "__pydantic_fields_set__"}
# allow-list: (function qualname suffix, what) -- one reason each (DESIGN appendix C)
_ALLOWED = {
    ("hypertuner.HyperTuner.__set_keyword_arguments__", "setattr"): "constructor kwargs stored on the tuner itself",
    ("multitask.Multitask.__set_keyword_arguments__", "setattr"): "constructor kwargs stored on the utility itself",
    ("multitask.Multitask.export_results", "getattr"): "export_to_<fmt> dispatch guarded by ExportType membership",
    ("abstract.OptimizationAbstract.name", "__class__"): "self.__class__.__name__ (read only)",
    ("models.Task.name", "__class__"): "self.__class__.__name__ (read only)",
}


def closed_world(prog: Program, res) -> None:
    """Adds an analysis error for every reflective construct outside the allow-list."""
    seen_allowed = set()
    for mod in prog.modules.values():
        for n in ast.walk(mod.tree):
            what = None
            if isinstance(n, ast.Call) and isinstance(n.func, ast.Name):
                if n.func.id in _FORBIDDEN_CALLS:
                    what = n.func.id
                elif n.func.id in ("setattr", "getattr"):
                    if len(n.args) >= 2 and isinstance(n.args[1], ast.Constant) and isinstance(n.args[1].value, str):
                        continue   # constant name: handled as a plain attribute access by the rules
                    what = n.func.id
            elif isinstance(n, ast.Attribute) and n.attr in _FORBIDDEN_ATTRS:
                what = n.attr
                if n.attr == "__class__" and isinstance(n.ctx, ast.Load):
                    p_ = parent(n)
                    if isinstance(p_, ast.Attribute) and p_.attr in ("__name__", "__qualname__", "__module__") \
                            and isinstance(p_.ctx, ast.Load):
                        seen_allowed.add(("<any>", "__class__.__name__"))
                        continue          # reading the name of the class (messages, the `name` properties): no reflection
            elif isinstance(n, (ast.Import, ast.ImportFrom)):
                names = [a.name for a in n.names] + ([n.module] if isinstance(n, ast.ImportFrom) and n.module else [])
                if any(x and x.split(".")[0] in ("importlib", "ctypes", "gc", "inspect") for x in names):
                    what = "import " + ",".join(x for x in names if x)
            if what is None:
                continue
            fi = prog.func_of_node(n)
            q = fi.qualname[len(PKG) + 1:] if fi is not None else mod.name
            if (q, what) in _ALLOWED:
                seen_allowed.add((q, what))
                continue
            res.errors.append(
                f"closed-world guard R0: reflective construct `{what}` at {mod.relpath}:{n.lineno} "
                f"({construct_key(prog, n, mod)}) - the resolved program would not be the program")
    res.count("R0.allowlisted-reflection", len(seen_allowed))


def attr_stores(prog: Program) -> Iterator[tuple]:
    """Every write through an attribute in the package:
    (module, node, target expr (Attribute or the setattr pseudo target), attr name, kind)
    kind in assign | aug | del | setattr | ann"""
    for mod in prog.modules.values():
        for n in ast.walk(mod.tree):
            if isinstance(n, ast.Attribute) and isinstance(n.ctx, (ast.Store, ast.Del)):
                p = parent(n)
                kind = "assign"
                if isinstance(p, ast.AugAssign) and p.target is n:
                    kind = "aug"
                elif isinstance(n.ctx, ast.Del):
                    kind = "del"
                yield mod, n, n, n.attr, kind
            elif isinstance(n, ast.Call) and isinstance(n.func, ast.Name) and n.func.id == "setattr" \
                    and len(n.args) >= 2 and isinstance(n.args[1], ast.Constant) and isinstance(n.args[1].value, str):
                fake = ast.Attribute(value=n.args[0], attr=n.args[1].value, ctx=ast.Store())
                ast.copy_location(fake, n)
                yield mod, n, fake, n.args[1].value, "setattr"


def base_of_store(target: ast.AST) -> ast.AST:
    """For ``a.b[c].d = ..`` style targets return the full target (Attribute/Subscript chain)."""
    return target


def chain_text(e: ast.AST) -> str:
    return dotted(e) or norm(e, 80)
