"""Reference / call resolution and per-class reachability (DESIGN.md 3.2).

Every *reference* to a function (call, bound method passed to ``submit``/``map``/``partial``,
nested function name) is an edge: sound for who-may-call and effect closure.
"""
from __future__ import annotations

import ast
from typing import Iterator, Optional

from .model import (AnalysisError, ClassInfo, FuncInfo, Module, Program, Target, UNKNOWN, ancestors,
                    dotted, is_self_attr, parent)


def own_nodes(fi_or_node) -> Iterator[ast.AST]:
    """All nodes of a function excluding the bodies of nested ``def``s (lambdas and
    comprehensions belong to the function)."""
    fnode = fi_or_node.node if isinstance(fi_or_node, FuncInfo) else fi_or_node
    stack = list(ast.iter_child_nodes(fnode))
    while stack:
        n = stack.pop()
        if isinstance(n, (ast.FunctionDef, ast.AsyncFunctionDef)):
            # decorators/defaults of a nested def are evaluated in the enclosing function
            for d in n.decorator_list:
                stack.append(d)
            for d in n.args.defaults + [x for x in n.args.kw_defaults if x is not None]:
                stack.append(d)
            yield n
            continue
        yield n
        stack.extend(ast.iter_child_nodes(n))


def local_names(fnode) -> set:
    """Names bound in a function's own scope (parameters, assignment / for / with / comprehension
    targets, nested defs, imports)."""
    out = set()
    a = fnode.args
    for x in a.posonlyargs + a.args + a.kwonlyargs:
        out.add(x.arg)
    if a.vararg:
        out.add(a.vararg.arg)
    if a.kwarg:
        out.add(a.kwarg.arg)
    for n in own_nodes(fnode):
        if isinstance(n, ast.Name) and isinstance(n.ctx, (ast.Store, ast.Del)):
            out.add(n.id)
        elif isinstance(n, (ast.FunctionDef, ast.AsyncFunctionDef)):
            out.add(n.name)
        elif isinstance(n, (ast.Import, ast.ImportFrom)):
            for al in n.names:
                out.add((al.asname or al.name).split(".")[0])
        elif isinstance(n, ast.ExceptHandler) and n.name:
            out.add(n.name)
    return out


class Resolver:
    """Resolves references inside functions for one concrete ``self`` class context."""

    def __init__(self, prog: Program, ctx: Optional[ClassInfo] = None):
        self.prog = prog
        self.ctx = ctx
        self._locals: dict = {}
        self._byname_methods: Optional[dict] = None
        self._byname_props: Optional[dict] = None

    # -- caches
    def locals_of(self, fi: FuncInfo) -> set:
        k = id(fi.node)
        if k not in self._locals:
            self._locals[k] = local_names(fi.node)
        return self._locals[k]

    def _index(self) -> None:
        if self._byname_methods is not None:
            return
        self._byname_methods, self._byname_props = {}, {}
        for ci in self.prog.classes.values():
            for name, f in ci.methods.items():
                if "property" in f.decorators:
                    self._byname_props.setdefault(name, []).append(f)
                else:
                    self._byname_methods.setdefault(name, []).append(f)

    # -- scopes
    def lookup_lexical(self, fi: FuncInfo, name: str):
        """A bare name used inside ``fi``: nested def of fi or of an enclosing function, a local
        variable (-> None), or a module-level binding (-> Target)."""
        cur = fi
        while cur is not None:
            if name in cur.nested:
                return cur.nested[name]
            if name in self.locals_of(cur):
                return None              # plain local variable / parameter
            cur = cur.outer
        return self.prog.resolve_name(fi.module, name)

    def self_class(self, fi: FuncInfo) -> Optional[ClassInfo]:
        """The class ``self`` denotes inside fi: the context class if fi's lexical class is one of
        its ancestors, else the lexical class (helper classes)."""
        lex = fi.cls
        if lex is None:
            return None
        if self.ctx is not None and lex in self.prog.mro(self.ctx):
            return self.ctx
        return lex

    def lookup_self_method(self, fi: FuncInfo, name: str) -> Optional[FuncInfo]:
        lex = fi.cls
        if lex is None:
            return None
        if name.startswith("__") and not name.endswith("__"):
            return lex.methods.get(name)
        sc = self.self_class(fi)
        return self.prog.lookup_method(sc, name)

    def lookup_super_method(self, fi: FuncInfo, name: str) -> Optional[FuncInfo]:
        lex = fi.cls
        sc = self.self_class(fi)
        if lex is None or sc is None:
            return None
        return self.prog.lookup_method(sc, name, after=lex)

    # -- references
    def callee(self, fi: FuncInfo, call: ast.Call) -> list:
        """Resolved targets of a call: list of FuncInfo | ClassInfo | Target."""
        return self.ref_targets(fi, call.func, is_call=True)

    def ref_targets(self, fi: FuncInfo, e: ast.AST, is_call: bool = False) -> list:
        prog = self.prog
        if isinstance(e, ast.Name):
            r = self.lookup_lexical(fi, e.id)
            if r is None:
                return []
            if isinstance(r, FuncInfo):
                return [r]
            return self._from_target(r)
        if isinstance(e, ast.Attribute):
            v = e.value
            # self.m
            if isinstance(v, ast.Name) and v.id == "self" and fi.cls is not None and self._self_is_self(fi):
                m = self.lookup_self_method(fi, e.attr)
                return [m] if m is not None else []
            # super().m
            if (isinstance(v, ast.Call) and isinstance(v.func, ast.Name) and v.func.id == "super"):
                m = self.lookup_super_method(fi, e.attr)
                return [m] if m is not None else []
            # dotted module / class path
            d = dotted(e)
            if d is not None:
                root = d.split(".")[0]
                if self.lookup_lexical(fi, root) is not None and not isinstance(self.lookup_lexical(fi, root), FuncInfo):
                    t = prog.resolve_dotted(fi.module, e)
                    if t.kind != "unknown":
                        return self._from_target(t)
            # receiver of unknown type: class-hierarchy-by-name over package classes
            self._index()
            out = list(self._byname_methods.get(e.attr, [])) if is_call else []
            if not is_call:
                out = list(self._byname_props.get(e.attr, []))
            return out
        return []

    def _self_is_self(self, fi: FuncInfo) -> bool:
        """``self`` is the instance unless some enclosing scope rebinds it (never in the package)."""
        cur = fi
        while cur is not None:
            if cur.outer is None:
                ps = cur.params
                return bool(ps) and ps[0] == "self" and not cur.is_static
            if "self" in cur.params:
                return False
            cur = cur.outer
        return False

    def _from_target(self, t: Target) -> list:
        prog = self.prog
        if t.kind == "func" and t.ref in prog.functions:
            return [prog.functions[t.ref]]
        if t.kind == "class" and t.ref in prog.classes:
            return [prog.classes[t.ref]]
        if t.kind in ("ext", "module", "var", "classattr"):
            return [t]
        return []

    def ext_name(self, fi: FuncInfo, e: ast.AST) -> Optional[str]:
        """Canonical dotted name if ``e`` denotes an external (non-package) object."""
        d = dotted(e)
        if d is None:
            return None
        root = d.split(".")[0]
        r = self.lookup_lexical(fi, root)
        if r is None or isinstance(r, FuncInfo):
            return None
        t = self.prog.resolve_dotted(fi.module, e)
        if t.kind == "ext":
            return t.ref
        return None

    # -- edges
    def edges(self, fi: FuncInfo) -> list:
        """(node, FuncInfo) for every function referenced from fi's own nodes."""
        out = []
        prog = self.prog
        for n in own_nodes(fi):
            targets = []
            if isinstance(n, ast.Call):
                targets = self.callee(fi, n)
                # constructor: edge to __init__ and validators
                exp = []
                for t in targets:
                    if isinstance(t, ClassInfo):
                        for c in prog.mro(t):
                            for mname, m in c.methods.items():
                                if mname == "__init__" or any(
                                        d.endswith("validator") for d in m.decorators if isinstance(d, str)) \
                                        or any(isinstance(dd, ast.Call) and (dotted(dd.func) or "").endswith("validator")
                                               for dd in getattr(m.node, "decorator_list", [])):
                                    exp.append(m)
                    elif isinstance(t, FuncInfo):
                        exp.append(t)
                targets = exp
            elif isinstance(n, ast.Attribute) and isinstance(n.ctx, ast.Load):
                p = parent(n)
                if isinstance(p, ast.Call) and p.func is n:
                    continue
                targets = [t for t in self.ref_targets(fi, n, is_call=False) if isinstance(t, FuncInfo)]
            elif isinstance(n, ast.Name) and isinstance(n.ctx, ast.Load):
                p = parent(n)
                if isinstance(p, ast.Call) and p.func is n:
                    continue
                r = self.lookup_lexical(fi, n.id)
                if isinstance(r, FuncInfo):
                    targets = [r]
                elif isinstance(r, Target):
                    targets = [t for t in self._from_target(r) if isinstance(t, FuncInfo)]
            for t in targets:
                if isinstance(t, FuncInfo):
                    out.append((n, t))
        return out


def reachable(prog: Program, ctx: Optional[ClassInfo], roots: list, resolver: Optional[Resolver] = None) -> dict:
    """FuncInfo -> (caller FuncInfo | None, referencing node | None), breadth first."""
    res = resolver or Resolver(prog, ctx)
    seen = {}
    queue = []
    for r in roots:
        if r is not None and r not in seen:
            seen[r] = (None, None)
            queue.append(r)
    while queue:
        f = queue.pop(0)
        for node, t in res.edges(f):
            if t not in seen:
                seen[t] = (f, node)
                queue.append(t)
    return seen


def call_path(seen: dict, f: FuncInfo) -> list:
    """Human-readable path root -> ... -> f."""
    chain = []
    cur = f
    guard = 0
    while cur is not None and guard < 200:
        guard += 1
        prev, node = seen.get(cur, (None, None))
        chain.append(f"{cur.qualname} ({cur.module.relpath}:{getattr(node, 'lineno', getattr(cur.node, 'lineno', 0))})")
        cur = prev
    return list(reversed(chain))


def run_roots(prog: Program, ctx: ClassInfo) -> list:
    opt = prog.lookup_method(ctx, "optimize")
    if opt is None:
        raise AnalysisError(f"{ctx.qualname}: no optimize() in MRO")
    return [opt]
