"""CLI: ./check <Cxx|all> [--tier quick|thorough]; ./check explain <replay.json>."""
from __future__ import annotations

import argparse
import importlib
import json
import os
import sys
import time
import traceback

from .model import AnalysisError, Program
from .report import Result, finish

PROPS = [f"C{i:02d}" for i in range(1, 21)]


def run_one(prop: str, tier: str, seed: int, prog=None, evidence_dir=None, quiet=False) -> int:
    t0 = time.time()
    res = Result(prop=prop)
    mod = None
    try:
        mod = importlib.import_module(f".rules.{prop.lower()}", package="pvlint")
        prog = prog or Program()
        res.prog = prog
        res.units = len(prog.modules)
        res.functions = len(prog.functions)
        mod.run(prog, res)
        if hasattr(mod, "selftest") and not os.environ.get("PVLINT_NO_SELFTEST"):
            mod.selftest(res, tier, seed)
    except AnalysisError as exc:
        res.errors.append(str(exc))
    except Exception as exc:  # checker bug: never disguised as a violation
        res.errors.append(f"checker raised {type(exc).__name__}: {exc}")
        if not quiet:
            traceback.print_exc()
    return finish(
        res, tier, seed, t0,
        explanation=getattr(mod, "EXPLANATION", "static analysis"),
        assumptions=getattr(mod, "ASSUMPTIONS", []),
        trusted=getattr(mod, "TRUSTED", []),
        evidence_dir=evidence_dir, quiet=quiet,
    )


def main(argv=None) -> int:
    ap = argparse.ArgumentParser(prog="check")
    ap.add_argument("what")
    ap.add_argument("path", nargs="?")
    ap.add_argument("--tier", default=os.environ.get("VERIF_TIER", "quick"), choices=["quick", "thorough"])
    ap.add_argument("--repo", default=None)
    args = ap.parse_args(argv)
    if args.repo:
        os.environ["PVLINT_REPO"] = args.repo
    try:
        seed = int(os.environ.get("VERIF_SEED", "0"))
    except ValueError:
        seed = 0
    if args.what == "explain":
        with open(args.path, "r", encoding="utf-8") as fh:
            f = json.load(fh)
        print(f"property : {f['property']}\nrule     : {f['rule']}\nlocation : {f['loc']}\nconstruct: {f['construct']}")
        print(f"message  : {f['message']}")
        for p in f.get("path", []):
            print(f"   via {p}")
        print("re-run   : ./check %s   (re-evaluates the rule on the current tree)" % f["property"])
        return 0
    if args.what == "all":
        worst = 0
        try:
            prog = Program()
        except AnalysisError as exc:
            print(f"ANALYSIS-ERROR {exc}")
            return 2
        for p in PROPS:
            if os.path.exists(os.path.join(os.path.dirname(__file__), "rules", f"{p.lower()}.py")):
                worst = max(worst, run_one(p, args.tier, seed, prog=prog))
        return worst
    prop = args.what.upper()
    if prop not in PROPS:
        print(f"unknown property {prop}")
        return 2
    return run_one(prop, args.tier, seed)


if __name__ == "__main__":
    try:
        code = main()
    except SystemExit:
        raise
    except BaseException as exc:  # noqa
        traceback.print_exc()
        print(f"ANALYSIS-ERROR checker crashed: {type(exc).__name__}: {exc}")
        code = 2
    sys.stdout.flush()
    sys.exit(code)
