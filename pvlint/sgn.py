"""SGN: partial evaluation of small direction-dependent functions under tt in {MIN, MAX}.

``eval_function(prog, fi, tt_name)`` walks the structured body of ``fi`` deciding every test that is
a comparison of a direction expression with ``TaskType.MIN`` / ``TaskType.MAX`` (other tests make
the result unknown) and returns the list of reachable ``return`` expressions.  ``sign_of`` then
classifies a returned expression as (+1 | -1, core expression text) or None.
"""
from __future__ import annotations

import ast
import copy
from typing import Optional

from .model import FuncInfo, Program, dotted, norm

MIN, MAX = "MIN", "MAX"


def _tt_const(e: ast.AST) -> Optional[str]:
    d = dotted(e)
    if d in ("TaskType.MIN", "enums.TaskType.MIN"):
        return MIN
    if d in ("TaskType.MAX", "enums.TaskType.MAX"):
        return MAX
    if isinstance(e, ast.Constant) and e.value in ("min", "max"):
        return MIN if e.value == "min" else MAX
    return None


def eval_test(test: ast.AST, direction_exprs: set, tt: str) -> Optional[bool]:
    """Truth of a test under direction tt; None if it is not a pure direction test."""
    if isinstance(test, ast.Compare) and len(test.ops) == 1:
        l, r = test.left, test.comparators[0]
        lc, rc = _tt_const(l), _tt_const(r)
        ld, rd = norm(l) in direction_exprs, norm(r) in direction_exprs
        const = expr = None
        if lc and rd:
            const = lc
        elif rc and ld:
            const = rc
        if const is None:
            return None
        eq = const == tt
        if isinstance(test.ops[0], (ast.Eq, ast.Is)):
            return eq
        if isinstance(test.ops[0], (ast.NotEq, ast.IsNot)):
            return not eq
        return None
    if isinstance(test, ast.UnaryOp) and isinstance(test.op, ast.Not):
        v = eval_test(test.operand, direction_exprs, tt)
        return None if v is None else not v
    return None


class Unknown(Exception):
    pass


def _resolve_inside(e: ast.AST, direction_exprs: set, tt: str) -> ast.AST:
    """a copy of e with every conditional expression on a direction test resolved, wherever it sits"""
    class T(ast.NodeTransformer):
        def visit_IfExp(self, n):
            v = eval_test(n.test, direction_exprs, tt)
            if v is not None:
                return self.visit(n.body if v else n.orelse)
            return self.generic_visit(n)
    return ast.fix_missing_locations(T().visit(copy.deepcopy(e)))


def eval_expr(e: ast.AST, direction_exprs: set, tt: str) -> ast.AST:
    """Resolve conditional expressions on direction tests (the nodes of e itself are returned wherever possible: callers
    compare them by identity).  A direction conditional inside the *test* of a data conditional -
    `(v if MIN else -v) >= 0` - is resolved in a copy of that test; a test that still mentions the direction is Unknown."""
    if isinstance(e, ast.IfExp):
        v = eval_test(e.test, direction_exprs, tt)
        if v is None:
            test = e.test
            if any(isinstance(x, ast.IfExp) for x in ast.walk(e.test)):
                test = _resolve_inside(e.test, direction_exprs, tt)
                v = eval_test(test, direction_exprs, tt)
                if v is not None:
                    return eval_expr(e.body if v else e.orelse, direction_exprs, tt)
            # not a direction test (e.g. isinstance(value, list)): keep the conditional, resolve inside the branches
            if any(norm(n) in direction_exprs for n in ast.walk(test)):
                raise Unknown(f"test `{norm(e.test)}` mixes the direction with other conditions")
            return ast.IfExp(test=test, body=eval_expr(e.body, direction_exprs, tt),
                             orelse=eval_expr(e.orelse, direction_exprs, tt))
        return eval_expr(e.body if v else e.orelse, direction_exprs, tt)
    return e


class _Subst(ast.NodeTransformer):
    """replace loaded local names by their symbolic values (names bound by an enclosing comprehension are left alone)"""

    def __init__(self, env: dict):
        self.env = env
        self.bound = []

    def visit_Name(self, n):
        if isinstance(n.ctx, ast.Load) and n.id in self.env and not any(n.id in b for b in self.bound):
            return copy.deepcopy(self.env[n.id])
        return n

    def _comp(self, n):
        b = set()
        for g in n.generators:
            b |= {x.id for x in ast.walk(g.target) if isinstance(x, ast.Name)}
        # the first iterable is evaluated outside the comprehension scope
        first = self.visit(n.generators[0].iter)
        self.bound.append(b)
        n = self.generic_visit(n)
        self.bound.pop()
        n.generators[0].iter = first
        return n

    visit_ListComp = visit_GeneratorExp = visit_SetComp = visit_DictComp = _comp

    def visit_Lambda(self, n):
        self.bound.append({a.arg for a in n.args.args + n.args.kwonlyargs + n.args.posonlyargs})
        n = self.generic_visit(n)
        self.bound.pop()
        return n


def _subst(e, env):
    if e is None or not env:
        return e
    return ast.fix_missing_locations(_Subst(env).visit(copy.deepcopy(e)))


def eval_function(fi_node, direction_exprs: set, tt: str) -> list:
    """Return expressions reachable under direction tt, with the straight-line assignments to plain local names
    substituted in (structured walk with a symbolic store; raises Unknown).  Two branches of a data test that leave
    different values in a name are merged into a conditional expression on that test."""
    out = []

    def assign(env, name, value):
        v = eval_expr(_subst(value, env), direction_exprs, tt)
        # self-referential values are fine: the old value was substituted in
        env[name] = v

    def block(stmts, env) -> bool:
        """returns True if the block definitely returns"""
        for st in stmts:
            if isinstance(st, ast.Return):
                out.append(eval_expr(_subst(st.value, env), direction_exprs, tt) if st.value is not None else None)
                return True
            if isinstance(st, ast.If):
                ptest = _subst(st.test, env)
                if any(isinstance(x_, ast.IfExp) for x_ in ast.walk(ptest)):
                    ptest = _resolve_inside(ptest, direction_exprs, tt)          # direction conditionals inside the test
                v = eval_test(ptest, direction_exprs, tt)
                if v is None:
                    test = ptest
                    if any(norm(n) in direction_exprs for n in ast.walk(test)):
                        raise Unknown(f"test `{norm(st.test)}` mixes the direction with other conditions")
                    # a data test (e.g. isinstance(value, list)): both branches are possible, every reachable return counts
                    ea, eb = dict(env), dict(env)
                    a = block(st.body, ea)
                    b = block(st.orelse, eb) if st.orelse else False
                    if a and b:
                        return True
                    if a:
                        env.clear(); env.update(eb)
                    elif b:
                        env.clear(); env.update(ea)
                    else:
                        for k in set(ea) | set(eb):
                            va, vb = ea.get(k), eb.get(k)
                            if va is None or vb is None:
                                env.pop(k, None)      # defined on one path only: leave the name symbolic
                            elif ast.dump(va) == ast.dump(vb):
                                env[k] = va
                            else:
                                env[k] = ast.IfExp(test=test, body=va, orelse=vb)
                    continue
                if block(st.body if v else st.orelse, env):
                    return True
                continue
            if isinstance(st, ast.Expr) and isinstance(st.value, ast.Constant):
                continue
            if isinstance(st, ast.Assign) and len(st.targets) == 1 and isinstance(st.targets[0], ast.Name):
                assign(env, st.targets[0].id, st.value)
                continue
            if isinstance(st, ast.AnnAssign) and isinstance(st.target, ast.Name) and st.value is not None:
                assign(env, st.target.id, st.value)
                continue
            if isinstance(st, (ast.Assign, ast.AnnAssign, ast.AugAssign)):
                # stores into something else than a plain local: forget every local the target mentions
                for n in ast.walk(st):
                    if isinstance(n, ast.Name) and isinstance(n.ctx, ast.Store):
                        env.pop(n.id, None)
                if isinstance(st, ast.AugAssign) and isinstance(st.target, ast.Name):
                    env.pop(st.target.id, None)
                continue
            if isinstance(st, (ast.Expr, ast.Pass)):
                continue      # straight-line statements are looked at by the caller if it needs to
            raise Unknown(f"statement `{norm(st, 60)}` not understood by the sign evaluator")
        return False

    block(fi_node.body, {})
    return out


def expand_simple_calls(prog, module, e, direction_exprs, tt, depth: int = 2):
    """Replace calls of package functions whose body is a single return (after an optional docstring) by that return
    expression with the arguments substituted for the parameters (evaluated under direction tt)."""
    if e is None or depth <= 0:
        return e

    class X(ast.NodeTransformer):
        def visit_Call(self, c):
            c = self.generic_visit(c)
            if not isinstance(c.func, ast.Name):
                return c
            t = prog.resolve_name(module, c.func.id)
            if t.kind == "import":
                t2 = prog.resolve_target(t) if hasattr(prog, "resolve_target") else t
                t = t2
            f = prog.functions.get(t.ref) if t.kind == "func" else None
            if f is None:
                return c
            body = [st for st in f.node.body if not (isinstance(st, ast.Expr) and isinstance(st.value, ast.Constant))]
            if any(isinstance(a, ast.Starred) for a in c.args) or any(k.arg is None for k in c.keywords):
                return c
            params = f.params
            env = {}
            for p_, a_ in zip(params, c.args):
                env[p_] = a_
            for k in c.keywords:
                env[k.arg] = k.value
            if set(env) != set(params) and not all(p_ in env for p_ in params[:len(c.args)]):
                return c
            if len(env) != len(params):
                return c
            try:
                rets = eval_function(ast.FunctionDef(name=f.name, args=f.node.args, body=body, decorator_list=[], lineno=0,
                                                     col_offset=0), direction_exprs, tt)
            except Unknown:
                return c
            if len(rets) != 1 or rets[0] is None:
                return c
            out = _subst(rets[0], env)
            return expand_simple_calls(prog, f.module, out, direction_exprs, tt, depth - 1)
    return ast.fix_missing_locations(X().visit(copy.deepcopy(e)))


def sign_of(e: ast.AST, core_pred) -> Optional[int]:
    """+1 / -1 if e is (+/-) an expression accepted by core_pred, else None.  A conditional on something
    other than the direction (e.g. ``isinstance(v, list)``) must have the same sign on both branches; an
    element-wise comprehension ``[-v for v in X]`` carries the sign of its element applied to X."""
    if core_pred(e):
        return +1
    if isinstance(e, ast.IfExp):
        a, b = sign_of(e.body, core_pred), sign_of(e.orelse, core_pred)
        if a is None or b is None:
            return None
        return a if a == b else 0        # 0: both branches understood, and they disagree (a data test picks the sign)
    if isinstance(e, (ast.ListComp, ast.GeneratorExp)) and len(e.generators) == 1 and not e.generators[0].ifs \
            and isinstance(e.generators[0].target, ast.Name) and core_pred(e.generators[0].iter):
        v = e.generators[0].target.id
        return sign_of(e.elt, lambda z: isinstance(z, ast.Name) and z.id == v)
    if isinstance(e, ast.Call) and isinstance(e.func, ast.Name) and e.func.id in ("list", "tuple") and len(e.args) == 1:
        return sign_of(e.args[0], core_pred)
    if isinstance(e, ast.Call) and isinstance(e.func, ast.Name) and e.func.id == "abs" and len(e.args) == 1 and not e.keywords \
            and sign_of(e.args[0], core_pred) is not None:
        return 0        # |x| is +x for some values and -x for others: understood, and neither sign
    if isinstance(e, ast.Call) and dotted(e.func) in ("np.abs", "numpy.abs", "np.absolute", "math.fabs") and len(e.args) == 1 \
            and sign_of(e.args[0], core_pred) is not None:
        return 0
    if isinstance(e, ast.UnaryOp) and isinstance(e.op, ast.USub):
        s = sign_of(e.operand, core_pred)
        return None if s is None else -s
    if isinstance(e, ast.UnaryOp) and isinstance(e.op, ast.UAdd):
        return sign_of(e.operand, core_pred)
    if isinstance(e, ast.BinOp) and isinstance(e.op, ast.Mult):
        for a, b in ((e.left, e.right), (e.right, e.left)):
            c = _const_num(a)
            if c in (1, -1):
                s = sign_of(b, core_pred)
                return None if s is None else s * c
    if isinstance(e, ast.Call) and dotted(e.func) in ("np.negative", "numpy.negative", "neg", "operator.neg") and len(e.args) == 1 \
            and not e.keywords:
        s = sign_of(e.args[0], core_pred)
        return None if s is None else -s
    return None


def _const_num(e: ast.AST):
    if isinstance(e, ast.Constant) and isinstance(e.value, (int, float)):
        return e.value
    if isinstance(e, ast.UnaryOp) and isinstance(e.op, ast.USub) and isinstance(e.operand, ast.Constant) \
            and isinstance(e.operand.value, (int, float)):
        return -e.operand.value
    return None


# ---------------------------------------------------------------------------------------------
# the three direction-handling sites of the package
# ---------------------------------------------------------------------------------------------

def fcn_signs(prog: Program) -> dict:
    """{MIN: s, MAX: s} for OptimizationAbstract._fcn (s = +1/-1/None) and a reason when None."""
    from .model import PKG
    fi = prog.func(f"{PKG}.abstract.OptimizationAbstract._fcn")
    x = fi.params[1] if len(fi.params) > 1 else None

    from .flow import origin

    def core(e):
        e = origin(fi.node, e) if isinstance(e, ast.Name) else e
        # the sign analysis only cares about +/- of the objective value; whether it is reached through solve()
        # (i.e. corrected first) is C05's rule
        return (isinstance(e, ast.Call) and dotted(e.func) in ("self._task.solve", "self._task.objective_function")
                and len(e.args) == 1 and isinstance(e.args[0], ast.Name) and e.args[0].id == x and not e.keywords)
    out, why = {}, {}
    for tt in (MIN, MAX):
        try:
            rets = eval_function(fi.node, {"self._task.minmax"}, tt)
            rets = [expand_simple_calls(prog, fi.module, r, {"self._task.minmax"}, tt) if r is not None else None for r in rets]
        except Unknown as exc:
            out[tt], why[tt] = None, str(exc)
            continue
        signs = {sign_of(r, core) if r is not None else None for r in rets}
        if None in signs:
            bad_r = [r for r in rets if r is None or sign_of(r, core) is None]
            out[tt] = None
            why[tt] = f"return value `{norm(bad_r[0]) if bad_r and bad_r[0] is not None else None}` is not recognised as +/- self._task.solve({x})"
        elif len(signs) == 1 and 0 not in signs:
            out[tt] = signs.pop()
            why[tt] = ""
        else:
            # every return value is understood, and they do not agree: something other than the task direction picks the sign
            out[tt], why[tt] = 0, "returns of both signs are reachable under this direction"
    return {"signs": out, "why": why, "func": fi}


def refine_signs(prog: Program, owner_qual: str, nested: str) -> dict:
    """Signs of the cost restoration closure ``nested`` inside ``owner_qual.__init__``:
    +1 = agent returned unchanged, -1 = copy with cost negated (by model_copy(update={'cost': -a.cost}))."""
    init = prog.func(f"{owner_qual}.__init__")
    fi = init.nested.get(nested)
    if fi is None:
        from .model import AnalysisError
        raise AnalysisError(f"{owner_qual}.__init__.{nested} vanished")
    a, tt_param = (fi.params + [None, None])[:2]

    def classify(e):
        if isinstance(e, ast.Name) and e.id == a:
            return +1, False
        if isinstance(e, ast.Call) and isinstance(e.func, ast.Attribute) and e.func.attr == "model_copy" \
                and isinstance(e.func.value, ast.Name) and e.func.value.id == a and not e.args \
                and len(e.keywords) == 1 and e.keywords[0].arg == "update" and isinstance(e.keywords[0].value, ast.Dict):
            d = e.keywords[0].value
            keys = [k.value if isinstance(k, ast.Constant) else None for k in d.keys]
            if keys == ["cost"]:
                s = sign_of(d.values[0], lambda z: dotted(z) == f"{a}.cost")
                return s, False
            return None, False
        return None, True
    out, why, inplace = {}, {}, False
    for tt in (MIN, MAX):
        try:
            rets = eval_function(fi.node, {tt_param}, tt)
        except Unknown as exc:
            out[tt], why[tt] = None, str(exc)
            continue
        vals = set()
        for r in rets:
            s, _ = classify(r) if r is not None else (None, False)
            vals.add(s)
        out[tt] = vals.pop() if len(vals) == 1 else None
        why[tt] = "" if out[tt] is not None else f"return `{norm(rets[0]) if rets and rets[0] is not None else None}` is neither the agent nor a copy with cost negated"
    # the closure may not mutate its argument
    for n in ast.walk(fi.node):
        if isinstance(n, (ast.Attribute, ast.Subscript)) and isinstance(n.ctx, (ast.Store, ast.Del)):
            inplace = True
    return {"signs": out, "why": why, "func": fi, "inplace": inplace, "tt_param": tt_param, "init": init}


# ---------------------------------------------------------------------------------------------
# sign of an agent transformation, following helper functions (nested closure, module function, inlined)
# ---------------------------------------------------------------------------------------------

def _copy_with_cost(e: ast.AST, is_agent) -> Optional[int]:
    """``X.model_copy(update={'cost': (+/-) X.cost})`` with X an agent expression -> sign of the copied cost, else None."""
    if isinstance(e, ast.Call) and isinstance(e.func, ast.Attribute) and e.func.attr == "model_copy" and is_agent(e.func.value) \
            and not e.args and len(e.keywords) == 1 and e.keywords[0].arg == "update" and isinstance(e.keywords[0].value, ast.Dict):
        d = e.keywords[0].value
        keys = [k.value if isinstance(k, ast.Constant) else None for k in d.keys]
        if keys == ["cost"]:
            base = norm(e.func.value)
            return sign_of(d.values[0], lambda z: isinstance(z, ast.Attribute) and z.attr == "cost" and norm(z.value) == base)
    return None


def agent_value_sign(prog: Program, fi_node, module, e: ast.AST, is_agent, dir_names: set, tt: str, depth: int = 4):
    """Sign (+1 | -1) of the cost of the agent denoted by ``e`` relative to the agent(s) accepted by ``is_agent``, under
    direction tt; ``by_copy`` tells whether a negated agent is a new object.  -> (sign | None, by_copy, why)"""
    from .flow import origin
    if depth <= 0:
        return None, False, "too deep"
    try:
        e = eval_expr(origin(fi_node, e) if isinstance(e, ast.Name) else e, dir_names, tt)
    except Unknown as exc:
        return None, False, str(exc)
    if isinstance(e, ast.Name):
        e2 = origin(fi_node, e)
        if e2 is not e:
            return agent_value_sign(prog, fi_node, module, e2, is_agent, dir_names, tt, depth - 1)
    if is_agent(e):
        return +1, True, ""
    if isinstance(e, ast.IfExp):
        a = agent_value_sign(prog, fi_node, module, e.body, is_agent, dir_names, tt, depth - 1)
        b = agent_value_sign(prog, fi_node, module, e.orelse, is_agent, dir_names, tt, depth - 1)
        if a[0] is not None and a[0] == b[0]:
            return a[0], a[1] and b[1], ""
        if a[0] is not None and b[0] is not None:
            return 0, False, f"`{norm(e.test)}` (not the direction) decides the sign"
        return None, False, a[2] or b[2] or f"`{norm(e.test)}` decides the sign"
    c = _copy_with_cost(e, is_agent)
    if c is not None:
        return c, True, ""
    if isinstance(e, ast.Call) and isinstance(e.func, ast.Name):
        # helper: nested closure of the enclosing function or a module-level function
        callee = None
        for n in ast.walk(fi_node):
            if isinstance(n, ast.FunctionDef) and n.name == e.func.id and n is not fi_node:
                callee = n
        if callee is None:
            t = prog.resolve_name(module, e.func.id)
            if t.kind == "func" and t.ref in prog.functions:
                callee = prog.functions[t.ref].node
        if callee is not None:
            params = [a.arg for a in callee.args.args]
            if len(e.args) != len(params) or e.keywords:
                return None, False, f"call `{norm(e, 50)}` does not bind the helper's parameters positionally"
            agent_params = {p for p, a in zip(params, e.args) if is_agent(a)}
            dir_params = {p for p, a in zip(params, e.args) if isinstance(a, ast.Name) and a.id in dir_names}
            if len(agent_params) != 1:
                return None, False, f"`{norm(e, 50)}` is not applied to the agent"
            ap = next(iter(agent_params))
            try:
                rets = eval_function(callee, dir_params, tt)
            except Unknown as exc:
                return None, False, f"{callee.name}: {exc}"
            inplace = any(isinstance(n, (ast.Attribute, ast.Subscript)) and isinstance(n.ctx, (ast.Store, ast.Del)) for n in ast.walk(callee))
            signs = set()
            for r in rets:
                if r is None:
                    signs.add(None)
                    continue
                s_, _bc, _w = agent_value_sign(prog, callee, module, r, lambda z: isinstance(z, ast.Name) and z.id == ap, dir_params, tt, depth - 1)
                signs.add(s_)
            if len(signs) == 1 and None not in signs:
                return signs.pop(), not inplace, ("" if not inplace else f"{callee.name} mutates the agent it is given")
            if None not in signs:
                return 0, not inplace, f"{callee.name} returns agents of both signs under {tt}"
            return None, not inplace, f"{callee.name} returns a value of unknown sign under {tt}"
    return None, False, f"`{norm(e, 60)}` is neither the agent nor a copy with (+/-) its cost"
