"""pvlint - repository-specific static analysis of pyvolutionary (see /verif/DESIGN.md)."""
