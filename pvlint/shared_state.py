"""Class-level mutable defaults that instances mutate in place: one object shared by every instance (C08 / C19 / C20)."""
from __future__ import annotations

import ast

from .model import PKG, ClassInfo, Program, dotted

_MUTATORS = {"append", "extend", "insert", "update", "add", "pop", "clear", "remove", "setdefault", "popitem", "sort", "reverse",
             "discard", "appendleft", "extendleft"}
_FACTORIES = {"list", "dict", "set", "defaultdict", "collections.defaultdict", "deque", "collections.deque", "OrderedDict",
              "collections.OrderedDict", "Counter", "collections.Counter", "bytearray"}


def _mutable_value(v) -> bool:
    if isinstance(v, (ast.List, ast.Dict, ast.Set, ast.ListComp, ast.DictComp, ast.SetComp)):
        return True
    return isinstance(v, ast.Call) and (dotted(v.func) or "") in _FACTORIES


def class_level_shared(prog: Program, ci: ClassInfo) -> list:
    """[(attr, class-level node, mutation node, method)] for class-body attributes bound to a mutable object that a method
    mutates in place through self (or the class) while no method of the class ever re-binds `self.<attr>` in __init__.
    pydantic models are skipped (BaseModel copies field defaults per instance)."""
    if prog.is_subclass(ci, "pydantic.BaseModel") or prog.is_subclass(ci, "pydantic.main.BaseModel"):
        return []
    out = []
    cands = {}
    for st in ci.node.body:
        if isinstance(st, ast.Assign) and len(st.targets) == 1 and isinstance(st.targets[0], ast.Name) and _mutable_value(st.value):
            cands[st.targets[0].id] = st
        elif isinstance(st, ast.AnnAssign) and isinstance(st.target, ast.Name) and st.value is not None and _mutable_value(st.value):
            cands[st.target.id] = st
    if not cands:
        return out
    init = ci.methods.get("__init__")
    rebound = set()
    if init is not None:
        for n in ast.walk(init.node):
            if isinstance(n, ast.Attribute) and isinstance(n.ctx, ast.Store) and isinstance(n.value, ast.Name) and n.value.id == "self":
                rebound.add(n.attr)
    for name, node in cands.items():
        if name in rebound:
            continue
        for m in ci.methods.values():
            for n in ast.walk(m.node):
                hit = None
                if isinstance(n, ast.Call) and isinstance(n.func, ast.Attribute) and n.func.attr in _MUTATORS \
                        and isinstance(n.func.value, ast.Attribute) and n.func.value.attr == name \
                        and isinstance(n.func.value.value, ast.Name) and n.func.value.value.id in ("self", "cls", ci.name):
                    hit = n
                elif isinstance(n, ast.Subscript) and isinstance(n.ctx, (ast.Store, ast.Del)) and isinstance(n.value, ast.Attribute) \
                        and n.value.attr == name and isinstance(n.value.value, ast.Name) and n.value.value.id in ("self", "cls", ci.name):
                    hit = n
                elif isinstance(n, ast.AugAssign) and isinstance(n.target, ast.Attribute) and n.target.attr == name \
                        and isinstance(n.target.value, ast.Name) and n.target.value.id in ("self", "cls", ci.name):
                    hit = n
                if hit is not None:
                    out.append((name, node, hit, m))
                    break
            else:
                continue
            break
    return out
