"""Small semantic helpers shared by the matchers: argument binding by signature, callee identity, path conditions."""
from __future__ import annotations

import ast
from typing import Optional

from .callgraph import Resolver
from .flow import origin
from .frm import equivalent, f_and, f_not, to_formula
from .model import PKG, ClassInfo, FuncInfo, Program, dotted, norm, parent


class Sem:
    def __init__(self, prog: Program, ctx: Optional[ClassInfo] = None):
        self.prog = prog
        self.res = Resolver(prog, ctx)

    def callee(self, fi: FuncInfo, call: ast.Call) -> Optional[FuncInfo]:
        ts = [t for t in self.res.callee(fi, call) if isinstance(t, FuncInfo)]
        return ts[0] if len(ts) == 1 else None

    def is_call_to(self, fi: FuncInfo, e: ast.AST, qualname: str) -> bool:
        """e is a call of the package function/method with that qualified name (however it was imported)."""
        if not isinstance(e, ast.Call):
            return False
        c = self.callee(fi, e)
        return c is not None and c.qualname == qualname

    def args(self, fi: FuncInfo, call: ast.Call) -> dict:
        """parameter name -> argument expression (positional and keyword), using the callee's signature; for
        unresolved callees only keywords are returned plus '#0', '#1', .. for positionals."""
        out = {f"#{i}": a for i, a in enumerate(call.args)}
        c = self.callee(fi, call)
        if c is not None:
            params = c.params
            off = 1 if (c.is_method and not c.is_static and params and params[0] in ("self", "cls")) else 0
            for i, a in enumerate(call.args):
                if i + off < len(params):
                    out[params[i + off]] = a
        for k in call.keywords:
            if k.arg is not None:
                out[k.arg] = k.value
        return out

    def arg(self, fi: FuncInfo, call: ast.Call, name: str, pos: Optional[int] = None) -> Optional[ast.AST]:
        a = self.args(fi, call)
        if name in a:
            return a[name]
        if pos is not None and f"#{pos}" in a:
            return a[f"#{pos}"]
        return None


def path_conditions(fnode, node: ast.AST) -> list:
    """[(test, polarity)] of the enclosing if / conditional expressions of `node` inside fnode, plus the negated tests of
    earlier sibling `if`s whose body always leaves the block (return / raise / break / continue)."""
    conds = []
    cur = node
    while cur is not None and cur is not fnode:
        p = parent(cur)
        if isinstance(p, ast.If):
            conds.append((p.test, any(cur is x for x in p.body)))
        elif isinstance(p, ast.IfExp) and cur is not p.test:
            conds.append((p.test, cur is p.body))
        if p is not None:
            for fld in ("body", "orelse", "finalbody"):
                blk = getattr(p, fld, None)
                if isinstance(blk, list) and cur in blk:
                    for prev in blk[:blk.index(cur)]:
                        if isinstance(prev, ast.If) and prev.body and not prev.orelse \
                                and isinstance(prev.body[-1], (ast.Return, ast.Raise, ast.Break, ast.Continue)):
                            conds.append((prev.test, False))
        cur = p
    return conds


def implies(conds: list, goal: ast.AST, env: dict) -> bool:
    """Does the conjunction of the path conditions imply `goal` (propositionally, over canonical atoms)?"""
    f = ("true",)
    for (t, pol) in conds:
        g = to_formula(t, env, {})
        f = f_and(f, g if pol else f_not(g))
    goal_f = to_formula(goal, env, {})
    ok, _ = equivalent(f_and(f, goal_f), f)
    return ok
