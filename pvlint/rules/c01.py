"""C01 - reported positions lie in the search space: routing clause (ORG + chain shape)."""
from __future__ import annotations

from .. import agents, chain
from ..guard import closed_world
from ..model import Program, construct_key, norm
from ..report import Finding, Result

EXPLANATION = (
    "Inductive invariant over the generators of Agent objects, decided for every construction site of the package: "
    "(1) the only constructor call that supplies position/cost/fitness explicitly is the root in "
    "OptimizationAbstract._init_agent, whose position is the result of Task.initial_solution (-> correct_solution -> "
    "Variable.correct); (2) every other construction is the copy idiom Sub(**<x>.model_dump(), non-core extras) and every "
    "model_copy updates non-core keys only; (3) no store/setattr targets a core field and Agent subclasses do not "
    "redeclare or validate one; (4) no position list is mutated in place through any alias; (5) every _init_agent "
    "override is built from super()._init_agent; (6) initial_solution / correct_solution have the corrected shape. "
    "Hence every agent that can reach the population, best_solution or a result carries a corrected position."
)
ASSUMPTIONS = ["pydantic: unknown kwargs are ignored, list fields are copied on validation, model_dump builds new containers",
               "Variable.correct maps into the domain (C13)", "closed-world guard R0"]
TRUSTED = ["python ast", "pydantic v2 model semantics (DESIGN 3.6)"]

RULE_TEXT = {
    "second-root": "R1-root-unique", "construct-positional": "R2-copy-discipline", "construct-shape": "R2-copy-discipline",
    "model-copy-shape": "R2-copy-discipline", "model-copy-core": "R2-copy-discipline", "core-store": "R3-no-core-store",
    "agent-class": "R3-no-core-store", "position-mutated": "R4-position-immutable", "override-shape": "R5-override-discipline",
}


def apply_agent_facts(prog: Program, res: Result, P: str, facts, only=None, skip_from_agent=False, rule_map=None) -> None:
    for d in facts.deviants:
        if only is not None and d.rule not in only:
            continue
        if skip_from_agent and d.rule == "second-root" and d.position_from_agent:
            res.note(f"{d.mod.relpath}:{d.node.lineno}: second constructor with explicit core fields whose position= is an "
                     f"existing agent's own (immutable, corrected) position - membership preserved; pairing is C02's concern")
            res.ob(True, None, construct_key(prog, d.node, d.mod))
            continue
        rule = f"{P}.{(rule_map or RULE_TEXT)[d.rule]}"
        key = construct_key(prog, d.node, d.mod)
        res.ob(False, None, key)
        res.add(Finding(P, rule, key, f"{d.mod.relpath}:{getattr(d.node, 'lineno', 0)}", d.msg))


def run(prog: Program, res: Result) -> None:
    P = "C01"
    res.rules = ["R1 root uniqueness + corrected root position", "R2 copy discipline", "R3 no core-field store",
                 "R4 position immutability (alias tracking)", "R5 _init_agent override discipline", "R6 chain shape"]
    res.undecided = ["finiteness: np.clip propagates NaN and some optimizers produce NaN candidates (numeric)",
                     "exact dimension: zip truncation depends on runtime lengths",
                     "nested encoding of permutation coordinates (C13 finding)"]
    closed_world(prog, res)
    facts = agents.scan(prog)
    res.count("agent-constructions", facts.constructions)
    res.count("copy-idiom-constructions", facts.copy_idiom)
    res.count("model_copy-sites", facts.model_copies)
    res.count("init_agent-overrides", facts.init_agent_overrides)
    res.count("position-alias-sites", facts.position_alias_sites)
    res.floor("agent-constructions", 100)
    res.floor("copy-idiom-constructions", 100)
    res.floor("model_copy-sites", 10)
    res.floor("init_agent-overrides", 15)
    for s in facts.samples:
        res.samples.append(s)
    n_ok = facts.copy_idiom + facts.model_copies + facts.core_store_sites_examined + facts.position_alias_sites
    res.obligations += n_ok
    res.discharged += n_ok
    res.constructs.update({f"site{i}" for i in range(n_ok)})
    apply_agent_facts(prog, res, P, facts, skip_from_agent=True)
    res.note(f"position-carrying attributes (computed): {facts.position_view_attrs}")
    for (rule, node, msg) in agents.check_root(prog, facts):
        if rule in ("root-unique", "root-shape", "root-position-corrected"):
            fi = prog.func(agents.ROOT_FUNC)
            res.ob(False)
            res.add(Finding(P, f"C01.R1-{rule}", construct_key(prog, node, fi.module), f"{fi.module.relpath}:{node.lineno}", msg))
    res.ob(True, "root: Agent(position=<initial_solution(position)>, cost=.., fitness=..) in _init_agent", "root")
    chain.check_initial_solution(prog, res, P)
    chain.check_correct_solution(prog, res, P)
    chain.no_task_subclass_overrides(prog, res, P)
    chain.check_chain_pure(prog, res, P)
    _variable_domain_obligations(prog, res, P)



def _variable_domain_obligations(prog: Program, res: Result, P: str) -> None:
    """Membership is *delivered* by Variable.correct / get_bounds / delegation: those obligations are decided by C13's rule
    module and are re-evaluated here because this property fails with them (idempotence findings stay C13/C02's)."""
    from . import c13
    sub = Result(prop="C13")
    c13.run(prog, sub)
    res.errors.extend(e for e in sub.errors if e not in res.errors and "closed-world" not in e)
    n = 0
    for f in sub.findings:
        if f.rule.startswith(("C13.R2", "C13.R4")):
            n += 1
            res.ob(False)
            res.add(Finding(P, f"{P}.domain.{f.rule[4:]}", f.key, f.loc, f"{f.msg} - corrected positions can leave the declared domain"))
    res.ob(n == 0, f"Variable.correct / bounds / delegation obligations of C13 re-evaluated: {sub.discharged} discharged", "domain-obligations")

# ---------------------------------------------------------------------------------------------
from ..selftest import V, run_battery  # noqa: E402

_W = "pyvolutionary/whales/whales_optimization.py"
_A = "pyvolutionary/abstract.py"
_M = "pyvolutionary/models.py"
_B = "pyvolutionary/bee_colony/bee_colony_optimization.py"
_PSO = "pyvolutionary/particle_swarm/particle_swarm_optimization.py"
_IC = "pyvolutionary/imperialist_competitive/imperialist_competitive_optimization.py"
_AGENT = "            agent = Whale(**self._init_agent(position).model_dump())\n"
_ANCHOR = "        leader_position = np.array(self._best_agent.position)\n"
VARIANTS = [
    V("direct-triple-construction", _W, _AGENT,
      "            agent = Whale(position=position.tolist(), cost=self._init_agent(position).cost, fitness=0.0)\n", "C01.R1"),
    V("root-drops-initial-solution", _A, "        position = self._task.initial_solution(position)\n",
      "        position = position if position is not None else self._task.initial_solution(position)\n", "C01.R1"),
    V("model-copy-updates-position", _W, _AGENT,
      _AGENT + "            agent = agent.model_copy(update={\"position\": position.tolist()})\n", "C01.R2"),
    V("alias-element-store", _W, _ANCHOR,
      _ANCHOR + "        p0 = self._population[0].position\n        p0[0] = p0[0] * 1.0001\n", "C01.R4"),
    V("override-skips-super", _B,
      "        agent = super()._init_agent(position)\n        return Bee(**agent.model_dump())",
      "        agent = self._population[0] if position is None and self._population else super()._init_agent(position)\n        return Bee(**agent.model_dump())", "C01.R5"),
    V("core-store-on-member", _W, _ANCHOR, _ANCHOR + "        self._population[0].position = leader_position.tolist()\n", "C01.R3"),
    V("dump-edited-before-construct", _W, _AGENT,
      "            d = self._init_agent(position).model_dump()\n            d[\"position\"] = position.tolist()\n            agent = Whale(**d)\n", "C01.R2"),
    V("aug-on-position-alias", _W, _ANCHOR,
      _ANCHOR + "        pp = self._best_agent.position\n        pp += [0.0]\n", "C01.R4"),
    V("initial-solution-skips-correction-for-given", _M,
      "        return self.correct_solution(solution if solution is not None else self.empty_solution())",
      "        if solution is not None and self.is_valid_solution(solution):\n            return list(solution)\n        return self.correct_solution(solution if solution is not None else self.empty_solution())",
      "C01.chain.initial-solution"),
    V("revolution-in-place-again", _IC, "                    new_colony_representation = list(colony_representation)\n",
      "                    new_colony_representation = colony_representation\n", "C01.R4"),
    V("setattr-cost", _W, _ANCHOR, _ANCHOR + "        setattr(self._population[0], \"cost\", 0.0)\n", "C01.R3"),
    V("shuffle-position-in-place", _W, _ANCHOR, _ANCHOR + "        np.random.shuffle(self._population[-1].position)\n", "C01.R4"),
    # twins
    V("twin-dump-through-local", _W, _AGENT, "            d = self._init_agent(position).model_dump()\n            agent = Whale(**d)\n", None),
    V("twin-copy-then-mutate", _W, _ANCHOR, _ANCHOR + "        q = list(self._best_agent.position)\n        q[0] = 0.0\n        r = np.array(self._best_agent.position)\n        r += 1\n", None),
    V("twin-noncore-model-copy", _B, "agent.model_copy(update={\"trials\": agent.trials + 1})", "agent.model_copy(update={\"trials\": agent.trials + 2})", None),
]


def selftest(res: Result, tier: str, seed: int) -> None:
    run_battery(__name__, VARIANTS, res, tier, seed)
