"""C04 - termination exactly at the first stop criterion: loop-control structure + stop formula (FRM)."""
from __future__ import annotations

import ast

from ..callgraph import own_nodes
from ..flow import origin
from ..frm import FrmUnknown, absorb, canon_expr, dnf, equivalent, formula_of, from_dnf_spec
from ..guard import closed_world
from ..model import PKG, Program, construct_key, dotted, norm, parent
from ..report import Finding, Result

EXPLANATION = (
    "(1) Path structure of optimize(): one snapshot precedes the loop; every iteration of the single `while True` executes, "
    "in order, optimization_step(), one snapshot append, exactly one __error_check__() whose third result is tested, `break` "
    "iff it is true, then `self._current_cycle += 1`; no other break/continue/return; __error_check__ appends exactly one rate "
    "abs(1 - average_fitness(self._population)) and one difference (against the previous rate, 0 for the first) per call and "
    "returns __should_stop__ of that same rate. (2) Who-may-write: _current_cycle/_errors/_error_diffs are stored only in "
    "abstract.py; the counter is set to the constant 1 per run and otherwise only incremented by 1. (3) FRM: "
    "__should_stop__ is executed symbolically into a boolean formula whose disjunctive normal form must equal "
    "{cycle >= max_cycles} | {early_stopping is not None & all(d < 0 and |d| < min_delta for d in diffs[-patience:])} | "
    "{fitness_error is not None & current_error <= fitness_error}, modulo commutativity, mirrored comparisons and local "
    "naming; EarlyStopping rejects patience < 1. Monotone counter + disjunct 1 gives `at most max_cycles`; the exact "
    "formula gives `never earlier, never later`."
)
ASSUMPTIONS = ["optimization_step itself terminates (inner while loops of algorithms are not decided)",
               "numeric values of the rates are not decided", "closed-world guard R0"]
TRUSTED = ["python ast", "FRM normal form"]
ABSTRACT = f"{PKG}.abstract.OptimizationAbstract"
BOOK = ("_current_cycle", "_errors", "_error_diffs")

SPEC_DISJUNCTS = [
    ["self._current_cycle >= self._config.max_cycles"],
    ["self._config.early_stopping is not None",
     "all([d < 0 and abs(d) < self._config.early_stopping.min_delta for d in "
     "self._error_diffs[-self._config.early_stopping.patience:]])"],
    ["self._config.fitness_error is not None", "current_error <= self._config.fitness_error"],
]


def spec_formula(param: str):
    return from_dnf_spec([[canon_expr(ast.parse(a.replace("current_error", param), mode="eval").body) for a in d]
                          for d in SPEC_DISJUNCTS])


def run(prog: Program, res: Result) -> None:
    P = "C04"
    res.rules = ["R1 loop-control path structure", "R2 who-may-write the bookkeeping fields", "R3 stop formula == spec (FRM)",
                 "R4 rate bookkeeping in __error_check__", "R5 EarlyStopping.patience >= 1"]
    res.undecided = ["termination of while loops inside optimizer steps", "numeric values of the rates"]
    closed_world(prog, res)
    opt = prog.func(f"{ABSTRACT}.optimize")
    M = opt.module

    def bad(rule, node, msg):
        res.ob(False)
        res.add(Finding(P, f"C04.{rule}", construct_key(prog, node, M), f"{M.relpath}:{getattr(node, 'lineno', 0)}", msg))

    # ------------------------------------------------------------------ R1 (roles by data flow: optmodel)
    from ..optmodel import extract, snapshot_of, is_step_call
    m = extract(prog)
    loop = m.loop
    pre = m.pre
    kinds = [e.kind for e in m.events]
    pos = {k: [i for i, e in enumerate(m.events) if e.kind == k] for k in ("step", "snapshot", "check", "exit-if", "inc")}
    desc = ", ".join(f"{k}@{v}" for k, v in pos.items())
    if m.loop_kind not in ("while-true", "while-not-stop") or loop.orelse:
        bad("R1-loop-structure", loop, f"the main loop is `{m.loop_kind}`: neither `while True` with a break on the stop decision nor "
                                       f"`while not <stop decision>`")
    need = ("step", "snapshot", "check", "inc") + (("exit-if",) if m.loop_kind == "while-true" else ())
    order_ok = all(len(pos[k]) == 1 for k in need) and pos["step"][0] < pos["snapshot"][0] < pos["check"][0] < pos["inc"][0] \
        and (m.loop_kind != "while-true" or pos["check"][0] < pos["exit-if"][0] < pos["inc"][0]) \
        and (m.loop_kind == "while-true" or not pos["exit-if"])
    res.ob(order_ok, f"{M.relpath}:{loop.lineno} loop ({m.loop_kind}): {desc}", construct_key(prog, loop, M))
    if not order_ok:
        bad("R1-loop-order", loop,
            "an iteration is not step -> snapshot -> __error_check__ -> leave iff stop -> `_current_cycle += 1`: " + desc)
    n_checks = [n for n in own_nodes(opt) if isinstance(n, ast.Call) and dotted(n.func) == "self.__error_check__"]
    if len(n_checks) != 1:
        bad("R1-one-error-check", loop, f"__error_check__ is called {len(n_checks)} times per iteration/run; each call appends a rate")
    if m.loop_kind == "while-true" and pos["exit-if"]:
        br = m.events[pos["exit-if"][0]].stmt
        okb = isinstance(br.test, ast.Name) and br.test.id == m.stop_var
        res.ob(okb, f"{M.relpath}:{br.lineno} {norm(br.test)} -> break", construct_key(prog, br, M))
        if not okb:
            bad("R1-break-iff-stop", br, f"`break` is taken on `{norm(br.test)}`, not on the stop decision returned by __error_check__")
    if m.loop_kind == "while-not-stop":
        # the flag starts False so that at least one cycle runs
        inits = [v for (nm, v, st) in __import__("pvlint.optmodel", fromlist=["simple_assigns"]).simple_assigns(opt.node)
                 if nm == m.stop_var and st in pre]
        oki = len(inits) == 1 and isinstance(inits[0], ast.Constant) and inits[0].value is False
        res.ob(oki, f"{M.relpath}: stop flag `{m.stop_var}` initialised False before the loop", "stop-flag-init")
        if not oki:
            bad("R1-break-iff-stop", loop, f"the loop runs `while not {m.stop_var}` but `{m.stop_var}` is not initialised to False before it")
    if pos["inc"]:
        ev = m.events[pos["inc"][0]]
        inc = ev.stmt
        oki = isinstance(inc.op, ast.Add) and isinstance(inc.value, ast.Constant) and inc.value.value == 1
        g = ev.detail.get("guard")
        if g is not None and not (isinstance(g, ast.UnaryOp) and isinstance(g.op, ast.Not) and isinstance(g.operand, ast.Name)
                                  and g.operand.id == m.stop_var):
            oki = False
        res.ob(oki, f"{M.relpath}:{inc.lineno} {norm(inc)}" + (f" under `{norm(g)}`" if g is not None else ""), construct_key(prog, inc, M))
        if not oki:
            bad("R1-counter-increment", inc, f"the cycle counter is updated by `{norm(inc)}`" + (f" under `{norm(g)}`" if g is not None else "")
                + ", not by `+= 1` whenever the loop continues")
    # other exits / jumps inside the loop
    own_break = m.events[pos["exit-if"][0]].stmt.body[0] if (m.loop_kind == "while-true" and pos["exit-if"]) else None
    for n in ast.walk(loop):
        if isinstance(n, (ast.Continue, ast.Return)) or (isinstance(n, ast.Break) and n is not own_break):
            bad("R1-no-other-exit", n, f"`{norm(n)}` inside the main loop: an iteration may skip its snapshot, rate or counter update")
    has_stop_var = m.stop_var
    for e in m.events:
        st = e.stmt
        if e.kind not in ("other", "debug", "best"):
            continue
        if has_stop_var and any(isinstance(n, ast.Name) and n.id == has_stop_var and isinstance(n.ctx, ast.Store) for n in ast.walk(st)):
            bad("R1-break-iff-stop", st, f"`{norm(st, 70)}` rebinds the stop decision between __error_check__ and the exit test")
        elif any(isinstance(n, ast.Call) and dotted(n.func) in ("self.optimization_step", "self.__error_check__") for n in ast.walk(st)):
            bad("R1-loop-order", st, f"`{norm(st, 70)}` runs a second step / error check inside one iteration")
    # one snapshot before the loop, after _init_population
    pre_snap = m.pre_snapshots
    pre_init = [i for i, st in enumerate(pre) if isinstance(st, ast.Expr) and isinstance(st.value, ast.Call)
                and dotted(st.value.func) == "self._init_population"]
    oks = len(pre_snap) == 1 and len(pre_init) == 1 and pre.index(pre_snap[0]) > pre_init[0]
    res.ob(oks, f"{M.relpath}: initial snapshot after _init_population", "pre-snapshot")
    if not oks:
        bad("R1-initial-snapshot", loop, "the initial generation is not recorded exactly once after _init_population()")
    # per-run reset of counter and rates before the loop
    resets = {}
    for st in pre:
        if isinstance(st, ast.Assign) and len(st.targets) == 1 and dotted(st.targets[0]) in {f"self.{b}" for b in BOOK}:
            resets[dotted(st.targets[0])[5:]] = st
    for b in BOOK:
        st = resets.get(b)
        okr = st is not None and ((b == "_current_cycle" and isinstance(st.value, ast.Constant) and st.value.value == 1)
                                  or (b != "_current_cycle" and isinstance(st.value, ast.List) and not st.value.elts))
        res.ob(okr, f"{M.relpath}:{st.lineno if st is not None else 0} {norm(st) if st is not None else b + ' not reset'}", f"reset:{b}")
        if not okr:
            bad("R2-per-run-reset", st if st is not None else opt.node,
                f"self.{b} is not re-initialised ({'1' if b == '_current_cycle' else '[]'}) before the loop: a reused optimizer "
                f"would stop early / return rates of earlier runs")

    # ------------------------------------------------------------------ R2 who may write
    n_w = 0
    for mod in prog.modules.values():
        for n in ast.walk(mod.tree):
            hit = None
            if isinstance(n, ast.Attribute) and n.attr in BOOK and isinstance(n.ctx, (ast.Store, ast.Del)):
                hit = n
            elif isinstance(n, ast.Call) and isinstance(n.func, ast.Attribute) and isinstance(n.func.value, ast.Attribute) \
                    and n.func.value.attr in BOOK and n.func.attr in ("append", "extend", "insert", "pop", "remove", "clear", "sort", "reverse"):
                hit = n
            elif isinstance(n, ast.Subscript) and isinstance(n.ctx, (ast.Store, ast.Del)) and isinstance(n.value, ast.Attribute) \
                    and n.value.attr in BOOK:
                hit = n
            if hit is None:
                continue
            n_w += 1
            fi = prog.func_of_node(hit)
            q = fi.qualname if fi else mod.name
            allowed = q in (f"{ABSTRACT}.__init__", f"{ABSTRACT}.optimize", f"{ABSTRACT}.__error_check__")
            if allowed and isinstance(hit, ast.Attribute) and hit.attr == "_current_cycle":
                p = parent(hit)
                allowed = (isinstance(p, ast.Assign) and isinstance(p.value, ast.Constant) and p.value.value == 1) or \
                          (isinstance(p, ast.AugAssign) and q == f"{ABSTRACT}.optimize")
            if allowed and isinstance(hit, ast.Call) and hit.func.attr != "append":
                allowed = False
            res.ob(allowed, None, construct_key(prog, hit, mod))
            if not allowed:
                res.add(Finding(P, "C04.R2-bookkeeping-writer", construct_key(prog, hit, mod), f"{mod.relpath}:{hit.lineno}",
                                f"{q} writes the loop bookkeeping (`{norm(parent(hit) if isinstance(hit, ast.Attribute) else hit, 70)}`): "
                                f"cycle counter / rate history are owned by optimize() and __error_check__"))
    res.count("bookkeeping-write-sites", n_w)
    res.floor("bookkeeping-write-sites", 6)

    # ------------------------------------------------------------------ R4 __error_check__
    ec = prog.func(f"{ABSTRACT}.__error_check__")
    appends = {"_errors": [], "_error_diffs": []}
    for n in own_nodes(ec):
        if isinstance(n, ast.Call) and isinstance(n.func, ast.Attribute) and n.func.attr == "append" \
                and dotted(n.func.value) in ("self._errors", "self._error_diffs"):
            appends[dotted(n.func.value)[5:]].append(n)
        elif isinstance(n, ast.AugAssign) and isinstance(n.op, ast.Add) and dotted(n.target) in ("self._errors", "self._error_diffs") \
                and isinstance(n.value, (ast.List, ast.Tuple)) and len(n.value.elts) == 1:
            appends[dotted(n.target)[5:]].append(n)          # `X += [v]` on a list is X.append(v)
    for fld, calls in appends.items():
        okc = len(calls) == 1 and (parent(parent(calls[0])) is ec.node or (isinstance(calls[0], ast.AugAssign) and parent(calls[0]) is ec.node))
        res.ob(okc, f"{M.relpath}: {fld}.append x{len(calls)}", f"append:{fld}")
        if not okc:
            bad("R4-one-rate-per-cycle", calls[0] if calls else ec.node,
                f"__error_check__ appends to self.{fld} {len(calls)} times / conditionally: rates and cycles go out of step")
    if all(len(v) == 1 for v in appends.values()):
        e_app, d_app = appends["_errors"][0], appends["_error_diffs"][0]
        _error_check_values(prog, res, ec, e_app, d_app, bad, M)
    # average_fitness = mean of all fitness values
    af = prog.func(f"{PKG}.helpers.average_fitness")
    rv = [n for n in own_nodes(af) if isinstance(n, ast.Return)]
    oka = False
    if len(rv) == 1 and isinstance(rv[0].value, ast.Call) and dotted(rv[0].value.func) in ("np.average", "np.mean", "numpy.mean", "numpy.average") \
            and len(rv[0].value.args) == 1 and not rv[0].value.keywords:
        a0 = rv[0].value.args[0]
        a0 = origin(af.node, a0) if isinstance(a0, ast.Name) else a0
        if isinstance(a0, (ast.ListComp, ast.GeneratorExp)) and len(a0.generators) == 1 and not a0.generators[0].ifs \
                and isinstance(a0.elt, ast.Attribute) and a0.elt.attr == "fitness" and dotted(a0.generators[0].iter) == af.params[0]:
            oka = True
    res.ob(oka, f"{af.loc()} average_fitness = mean of every agent's fitness", "average_fitness")
    if not oka:
        res.add(Finding(P, "C04.R4-rate-value", "helpers.average_fitness::mean", af.loc(),
                        "average_fitness is not the unweighted mean of the fitness of every agent of the population"))

    # ------------------------------------------------------------------ R3 stop formula
    ss = prog.func(f"{ABSTRACT}.__should_stop__")
    param = ss.params[1] if len(ss.params) > 1 else "current_error"
    try:
        f = formula_of(ss.node)
        from ..frm import require_plain_atoms
        require_plain_atoms(f)
        got = absorb(dnf(f))
        want = spec_formula(param)
        ok, cex = equivalent(f, want)
    except FrmUnknown as exc:
        res.errors.append(f"{ss.loc()} __should_stop__: the stop formula is undecided - cannot evaluate {exc}")
        got = None
    if got is not None:
        res.ob(ok, "stop formula DNF: " + " | ".join("{" + " & ".join(sorted(d)) + "}" for d in sorted(got, key=sorted)),
               "stop-formula")
        if not ok:
            true_atoms = sorted(k for k, v in cex.items() if v)
            res.add(Finding(P, "C04.R3-stop-formula", "abstract.OptimizationAbstract.__should_stop__::formula", ss.loc(),
                            f"stop formula is not equivalent to the specification; it is "
                            f"{' | '.join('{' + ' & '.join(sorted(d)) + '}' for d in sorted(got, key=sorted))}; the two differ when "
                            f"exactly these hold: {true_atoms}"))
    # ------------------------------------------------------------------ R5 patience validator
    es = prog.cls(f"{PKG}.models.EarlyStopping")
    okp = False
    undecided_p = None
    from ..frm import canon_expr as _canon, equivalent as _equiv, f_and as _fand, f_or as _for, raise_formula
    for m in es.methods.values():
        decs = [norm(d) for d in m.node.decorator_list]
        if any("field_validator" in d and "patience" in d for d in decs):
            v = m.params[1] if len(m.params) > 1 else None
            try:
                rv, ro = raise_formula(prog, m)
                rej = _for(rv, ro)
                for txt in (f"{v} < 1", f"{v} <= 0"):
                    from ..frm import to_formula as _tof
                    atom = _tof(ast.parse(f"{v} is not None and {txt}", mode="eval").body, {}, {})
                    imp, _ = _equiv(_fand(atom, rej), atom)
                    if imp:
                        okp = True
            except FrmUnknown as exc:
                undecided_p = str(exc)
    if not okp and undecided_p:
        res.errors.append(f"EarlyStopping patience validator has a shape that is not understood ({undecided_p})")
        okp = True
    res.ob(okp, f"{es.loc()} EarlyStopping rejects patience < 1", "patience-validator")
    if not okp:
        res.add(Finding(P, "C04.R5-patience-validated", "models.EarlyStopping::patience", es.loc(),
                        "EarlyStopping no longer rejects patience < 1: an empty window makes all([]) true and stops at once"))


def _to_f(test):
    from ..frm import to_formula
    return to_formula(test, {}, {})


def _error_check_values(prog, res, ec, e_app, d_app, bad, M) -> None:
    """What __error_check__ records, by forward substitution (fwd.py): the appended rate, the appended difference and the
    stop decision, each written over the function's inputs.  Verdicts: the specified form -> discharged; a positively
    different value (rate of a part of the population, previous rate read after the append, reversed difference, the stop
    decision taken on another value) -> violation; anything else -> undecided."""
    from ..fwd import FwdUnknown, summarise
    try:
        sm = summarise(ec.node, {"self._errors", "self._error_diffs"})
    except FwdUnknown as exc:
        res.errors.append(f"{ec.loc()} __error_check__: {exc} - not a straight-line body (undecided)")
        return
    rates, diffs = sm["appended"]["self._errors"], sm["appended"]["self._error_diffs"]
    if len(rates) != 1 or len(diffs) != 1:
        return      # reported by R4-one-rate-per-cycle
    R, D = rates[0], diffs[0]

    def is_rate(e):
        """abs(1 - average_fitness(X)) / abs(average_fitness(X) - 1) -> X"""
        if isinstance(e, ast.Call) and isinstance(e.func, ast.Name) and e.func.id == "abs" and len(e.args) == 1 \
                and isinstance(e.args[0], ast.BinOp) and isinstance(e.args[0].op, ast.Sub):
            for a, b in ((e.args[0].left, e.args[0].right), (e.args[0].right, e.args[0].left)):
                if isinstance(a, ast.Constant) and a.value == 1 and isinstance(b, ast.Call) and dotted(b.func) == "average_fitness" \
                        and len(b.args) + len(b.keywords) == 1:
                    return (b.args + [k.value for k in b.keywords])[0]
        return None
    X = is_rate(R)
    if X is not None and dotted(X) == "self._population":
        res.ob(True, f"{M.relpath}:{e_app.lineno} rate = {norm(R, 70)}", "rate-value")
    elif X is not None:
        bad("R4-rate-value", e_app, f"the appended rate is `{norm(R, 70)}`: the average fitness of `{norm(X, 40)}`, not of the whole population")
    elif isinstance(R, ast.BinOp) and isinstance(R.op, ast.Sub) and any(
            isinstance(z, ast.Call) and dotted(z.func) == "average_fitness" for z in (R.left, R.right)):
        bad("R4-rate-value", e_app, f"the appended rate is `{norm(R, 70)}`: signed, not abs(1 - average fitness)")
    else:
        res.errors.append(f"{M.relpath}:{e_app.lineno} __error_check__: the appended rate `{norm(R, 70)}` is not recognised (undecided)")

    wrong_first = []

    def is_prev(e):
        """the rate of the previous cycle, 0 for the first: E[-1] if <E non-empty> else 0 (a few spellings)"""
        if isinstance(e, ast.IfExp):
            t = canon_expr(e.test)
            pos = t in ("0 < len(self._errors)", "self._errors", "1 <= len(self._errors)", "len(self._errors) != 0", "len(self._errors)")
            neg = t in ("len(self._errors) == 0", "not self._errors", "len(self._errors) < 1", "not len(self._errors)")
            last, zero = (e.body, e.orelse) if pos else (e.orelse, e.body) if neg else (None, None)
            if last is not None and norm(last) == "self._errors[-1]" and not (isinstance(zero, ast.Constant) and zero.value == 0):
                wrong_first.append(zero)         # the right shape, but the first cycle is not measured against 0
                return False
            return last is not None and norm(last) == "self._errors[-1]" and isinstance(zero, ast.Constant) and zero.value == 0
        if norm(e) in ("(self._errors or [0])[-1]", "next(reversed(self._errors), 0)", "(self._errors[-1:] or [0])[0]"):
            return True
        return False
    if isinstance(D, ast.BinOp) and isinstance(D.op, ast.Sub):
        lr, rr = norm(D.left, 400) == norm(R, 400), norm(D.right, 400) == norm(R, 400)
        if lr and is_prev(D.right):
            res.ob(True, f"{M.relpath}:{d_app.lineno} diff = rate - previous rate (0 at the first cycle)", "diff-value")
        elif lr and rr:
            bad("R4-diff-value", d_app, "the appended difference is (current rate - current rate): the previous rate is read after "
                                        "the current one was appended, so every difference is 0")
        elif rr and is_prev(D.left):
            bad("R4-diff-value", d_app, "the appended difference is (previous rate - current rate): the sign is reversed, a slow "
                                        "improvement reads as a deterioration")
        elif lr and wrong_first:
            bad("R4-diff-value", d_app, f"the first cycle's difference is measured against `{norm(wrong_first[0], 50)}` instead of 0: it "
                                        f"can be a small decrease, so early stopping can fire before `patience` cycles have run")
        else:
            res.errors.append(f"{M.relpath}:{d_app.lineno} __error_check__: the appended difference `{norm(D, 90)}` is not recognised (undecided)")
    else:
        res.errors.append(f"{M.relpath}:{d_app.lineno} __error_check__: the appended difference `{norm(D, 90)}` is not recognised (undecided)")
    # the stop decision is taken on the rate just recorded
    ret = sm["returns"]
    stop = ret.elts[2] if isinstance(ret, ast.Tuple) and len(ret.elts) == 3 else None
    if isinstance(stop, ast.Call) and dotted(stop.func) == "self.__should_stop__" and len(stop.args) + len(stop.keywords) == 1:
        a = (stop.args + [k.value for k in stop.keywords])[0]
        if norm(a, 400) == norm(R, 400):
            res.ob(True, f"{M.relpath}: __error_check__ returns __should_stop__(the rate just recorded)", "check-return")
        else:
            bad("R4-stop-on-current-rate", stop, f"__should_stop__ is called with `{norm(a, 60)}`, not with the rate just appended")
    else:
        res.errors.append(f"{ec.loc()} __error_check__: the returned stop decision `{norm(stop, 60) if stop is not None else None}` is not recognised (undecided)")


# ---------------------------------------------------------------------------------------------
from ..selftest import V, run_battery  # noqa: E402

_A = "pyvolutionary/abstract.py"
_M = "pyvolutionary/models.py"
_W = "pyvolutionary/whales/whales_optimization.py"
_ANCHOR = "        leader_position = np.array(self._best_agent.position)\n"
VARIANTS = [
    V("cycle-bound-gt", _A, "        has_to_stop = cycle >= max_cycles", "        has_to_stop = cycle > max_cycles", "C04.R3"),
    V("fitness-error-strict", _A, "has_to_stop |= current_error <= fitness_error", "has_to_stop |= current_error < fitness_error", "C04.R3"),
    V("patience-window-dropped", _A, "for diff in self._error_diffs[-patience:]])", "for diff in self._error_diffs])", "C04.R3"),
    V("and-instead-of-or", _A, "            has_to_stop |= current_error <= fitness_error", "            has_to_stop &= current_error <= fitness_error", "C04.R3"),
    V("early-stop-any", _A, "has_to_stop |= all([diff < 0", "has_to_stop |= any([diff < 0", "C04.R3"),
    V("increment-skipped-on-path", _A, "            self._current_cycle += 1\n",
      "            if error > 0:\n                self._current_cycle += 1\n", "C04.R1"),
    V("check-before-snapshot", _A,
      "            evolution.append(Population(agents=self._population, task_type=task.minmax))\n\n            (self._best_agent, ), (self._worst_agent, ) = special_agents(self._population, n_best=1, n_worst=1)\n\n            # stop when the error is below the error criteria or when the maximum number of cycles is reached\n            error, fitness, has_to_stop = self.__error_check__()\n",
      "            error, fitness, has_to_stop = self.__error_check__()\n            evolution.append(Population(agents=self._population, task_type=task.minmax))\n\n            (self._best_agent, ), (self._worst_agent, ) = special_agents(self._population, n_best=1, n_worst=1)\n",
      "C04.R1"),
    V("subclass-resets-counter", _W, _ANCHOR, _ANCHOR + "        self._current_cycle = max(1, self._current_cycle - 1)\n", "C04.R2"),
    V("min-delta-sign-dropped", _A, "[diff < 0 and abs(diff) < min_delta for diff", "[abs(diff) < min_delta for diff", "C04.R3"),
    V("rate-from-best-only", _A, "        avg_fit = average_fitness(self._population)\n", "        avg_fit = average_fitness(self._population[:1])\n", "C04.R4"),
    V("diff-against-current", _A, "        self._errors.append(current_error)\n\n        # Append the difference",
      "        self._errors.append(current_error)\n        previous_error = self._errors[-1]\n\n        # Append the difference", "C04.R4"),
    V("patience-validator-zero-ok", _M, "        if v is not None and v < 1:", "        if v is not None and v < 0:", "C04.R5"),
    V("break-on-error-zero", _A, "            if has_to_stop:\n                break\n", "            if has_to_stop or error == 0:\n                break\n", "C04.R1"),
    V("double-step", _A, "            self.optimization_step()\n", "            self.optimization_step()\n            self.optimization_step()\n", "C04.R1"),
    V("twin-extra-bookkeeping-statement", _A, "            self._current_cycle += 1\n", "            self._n_evaluated = len(self._population)\n            self._current_cycle += 1\n", None),
    V("counter-starts-at-zero", _A, "        evolution: list[Population] = []\n        self._current_cycle = 1\n", "        evolution: list[Population] = []\n        self._current_cycle = 0\n", "C04.R2"),
    # twins
    V("twin-early-return-style", _A,
      "        # Stop when the maximum number of cycles is reached\n        has_to_stop = cycle >= max_cycles\n",
      "        # Stop when the maximum number of cycles is reached\n        if max_cycles <= cycle:\n            return True\n        has_to_stop = False\n", None),
    V("twin-or-assign", _A, "            has_to_stop |= current_error <= fitness_error", "            has_to_stop = has_to_stop or fitness_error >= current_error", None),
    V("twin-renamed-locals", _A, "        cycle = self._current_cycle\n\n        # Stop when the maximum number of cycles is reached\n        has_to_stop = cycle >= max_cycles",
      "        k = self._current_cycle\n\n        has_to_stop = k >= max_cycles", None),
]


def selftest(res: Result, tier: str, seed: int) -> None:
    run_battery(__name__, VARIANTS, res, tier, seed)
