"""C13 - variable types obey their domain laws: primitive-level obligations per Variable kind."""
from __future__ import annotations

import ast

from .. import variables as V_
from ..callgraph import own_nodes
from ..flow import origin, reaching_def, returns_of
from ..frm import FrmUnknown, dnf, to_formula
from ..guard import closed_world
from ..model import PKG, AnalysisError, ClassInfo, FuncInfo, Program, construct_key, dotted, norm
from ..report import Finding, Result

EXPLANATION = (
    "Each law is reduced to obligations on primitives, read from the source of the seven Variable kinds: randomize samples with "
    "the variable's own domain fields in the right order (uniform(lower, upper); choice/randint over range(0, len(choices)); "
    "permutation(range(0, len(items)))); correct clamps with the variable's own bounds in (low, high) order, the discrete upper "
    "bound is len(choices) - 1 and decode indexes `choices` with the corrected integer; idempotence follows by composition of "
    "primitives (clip/float/int/delegation idempotent, argsort not); decode may re-apply correct only if idempotent; the four "
    "multi kinds delegate randomize/correct/decode element-wise to `_children`, each child applied to its own coordinate, and "
    "`_children` is built from the same sequence that size() measures; validators reject upper <= lower, length mismatch and "
    "n_vars <= 0 with ValueError (sibling classes must agree)."
)
ASSUMPTIONS = ["numpy primitives by summary: np.clip clamps finite inputs into [a, b] for a <= b and is the identity inside; "
               "np.random.uniform(a, b) in [a, b); choice(range(n)) in 0..n-1; permutation(range(n)) is a permutation",
               "behaviour on huge / +-inf / NaN / numpy-scalar inputs is not decided", "closed-world guard R0"]
TRUSTED = ["python ast", "numpy primitive summaries (DESIGN 3.6)"]

M = f"{PKG}.models"
SCALAR_KINDS = ("ContinuousVariable", "DiscreteVariable", "PermutationVariable")
MULTI_KINDS = ("ContinuousMultiVariable", "MultiObjectiveVariable", "DiscreteMultiVariable", "BinaryVariable")


def _field(e, name):
    return dotted(e) == f"self.{name}"


def _len_of(e, fieldname):
    return isinstance(e, ast.Call) and isinstance(e.func, ast.Name) and e.func.id == "len" and len(e.args) == 1 \
        and _field(e.args[0], fieldname)


def _range0(e, upper_pred):
    """range(0, N) or range(N) with N accepted by upper_pred."""
    if isinstance(e, ast.Call) and isinstance(e.func, ast.Name) and e.func.id == "range" and not e.keywords:
        if len(e.args) == 1:
            return upper_pred(e.args[0])
        if len(e.args) == 2:
            return isinstance(e.args[0], ast.Constant) and e.args[0].value == 0 and upper_pred(e.args[1])
    return False


def _len_minus_one(e, fieldname):
    return isinstance(e, ast.BinOp) and isinstance(e.op, ast.Sub) and _len_of(e.left, fieldname) \
        and isinstance(e.right, ast.Constant) and e.right.value == 1


def _ret(fi: FuncInfo):
    rv = V_.single_return(fi)
    return origin(fi.node, rv) if rv is not None else None


def _validator_atoms(ci: ClassInfo, kind: str) -> list:
    """[(method, set of atoms of disjuncts leading to `raise ValueError`)] for validators of a class."""
    out = []
    for m in ci.methods.values():
        decs = [norm(d) for d in m.node.decorator_list]
        if not any("validator" in d for d in decs):
            continue
        for n in ast.walk(m.node):
            if isinstance(n, ast.If) and any(isinstance(x, ast.Raise) for x in n.body):
                r = [x for x in n.body if isinstance(x, ast.Raise)][0]
                exc = dotted(r.exc.func) if isinstance(r.exc, ast.Call) else dotted(r.exc) if r.exc is not None else None
                out.append((m, n.test, exc))
    return out


def run(prog: Program, res: Result) -> None:
    P = "C13"
    res.rules = ["R1 randomize samples the declared domain", "R2 correct clamps with own bounds; discrete upper = len(choices)-1; decode indexes choices",
                 "R3 correct idempotent by primitives; decode does not re-apply a non-idempotent correct",
                 "R4 multi kinds delegate element-wise to children built from the measured sequence", "R5 validators"]
    res.undecided = ["numpy behaviour on huge / +-inf / NaN / numpy-scalar inputs, int(nan)", "ties in argsort"]
    closed_world(prog, res)
    vfs = V_.collect(prog)
    res.count("variable-kinds", len(vfs))
    res.floor("variable-kinds", 7)
    mod = prog.modules[M]

    def bad(rule, fi_or_node, cls, msg, key_extra=""):
        node = fi_or_node.node if isinstance(fi_or_node, FuncInfo) else fi_or_node
        res.ob(False)
        res.add(Finding(P, f"C13.{rule}", f"models.{cls}::{key_extra or norm(node, 60)}", f"{mod.relpath}:{getattr(node, 'lineno', 0)}", msg))

    def good(sample, key):
        res.ob(True, sample, key)

    for name in SCALAR_KINDS + MULTI_KINDS:
        if name not in vfs:
            raise AnalysisError(f"Variable kind {name} vanished")

    # ------------------------------------------------------------------ ContinuousVariable
    cv = vfs["ContinuousVariable"]
    r = _ret(cv.methods["randomize"])
    ok = isinstance(r, ast.Call) and dotted(r.func) in ("np.random.uniform", "numpy.random.uniform") and len(r.args) == 2 \
        and _field(r.args[0], "lower_bound") and _field(r.args[1], "upper_bound") and not r.keywords
    if isinstance(r, ast.Call) and dotted(r.func) in ("np.random.uniform", "numpy.random.uniform") and r.keywords:
        kw = {k.arg: k.value for k in r.keywords}
        ok = len(r.args) == 0 and _field(kw.get("low"), "lower_bound") and _field(kw.get("high"), "upper_bound")
    good(f"ContinuousVariable.randomize = {norm(r)}", "CV.randomize") if ok else bad(
        "R1-randomize-domain", cv.methods["randomize"], "ContinuousVariable", f"randomize is `{norm(r) if r is not None else None}`, not uniform(self.lower_bound, self.upper_bound)", "randomize")
    kind, detail, clip = V_.analyse_correct(prog, cv.cls, cv.methods["correct"])
    ok = kind == "clip-float" and clip is not None and _field(clip[0], "lower_bound") and _field(clip[1], "upper_bound")
    good(f"ContinuousVariable.correct = {detail}", "CV.correct") if ok else bad(
        "R2-correct-own-bounds", cv.methods["correct"], "ContinuousVariable", f"correct is `{detail}`, not float(np.clip(value, self.lower_bound, self.upper_bound))", "correct")
    r = _ret(cv.methods["decode"])
    ok = isinstance(r, ast.Name) and r.id == cv.methods["decode"].params[1]
    good("ContinuousVariable.decode = identity", "CV.decode") if ok else bad(
        "R2-decode", cv.methods["decode"], "ContinuousVariable", f"decode returns `{norm(r) if r is not None else None}` instead of the value", "decode")
    r = _ret(cv.methods["get_bounds"])
    ok = isinstance(r, ast.Tuple) and len(r.elts) == 2 and _field(r.elts[0], "lower_bound") and _field(r.elts[1], "upper_bound")
    good("ContinuousVariable.get_bounds = (lower, upper)", "CV.get_bounds") if ok else bad(
        "R2-bounds", cv.methods["get_bounds"], "ContinuousVariable", f"get_bounds returns `{norm(r) if r is not None else None}`", "get_bounds")

    # ------------------------------------------------------------------ DiscreteVariable
    dv = vfs["DiscreteVariable"]
    r = _ret(dv.methods["randomize"])
    ok = False
    if isinstance(r, ast.Call) and dotted(r.func) in ("np.random.choice", "numpy.random.choice") and len(r.args) == 1 and not r.keywords:
        ok = _range0(r.args[0], lambda e: _len_of(e, "choices"))
    if isinstance(r, ast.Call) and dotted(r.func) in ("np.random.randint", "numpy.random.randint") and len(r.args) == 2:
        ok = isinstance(r.args[0], ast.Constant) and r.args[0].value == 0 and _len_of(r.args[1], "choices")
    good(f"DiscreteVariable.randomize = {norm(r)}", "DV.randomize") if ok else bad(
        "R1-randomize-domain", dv.methods["randomize"], "DiscreteVariable", f"randomize is `{norm(r) if r is not None else None}`, not a draw from range(0, len(self.choices))", "randomize")
    gb = _ret(dv.methods["get_bounds"])
    okb = isinstance(gb, ast.Tuple) and len(gb.elts) == 2 and isinstance(gb.elts[0], ast.Constant) and gb.elts[0].value == 0 \
        and _len_minus_one(gb.elts[1], "choices")
    good("DiscreteVariable.get_bounds = (0, len(choices) - 1)", "DV.get_bounds") if okb else bad(
        "R2-discrete-upper-index", dv.methods["get_bounds"], "DiscreteVariable",
        f"get_bounds returns `{norm(gb) if gb is not None else None}`; the index range of `choices` is (0, len(self.choices) - 1)", "get_bounds")
    kind, detail, clip = V_.analyse_correct(prog, dv.cls, dv.methods["correct"])
    okc = False
    if kind == "clip-int" and clip is not None:
        lo, hi = clip
        cf = dv.methods["correct"]
        # lb, ub = self.get_bounds()
        def from_bounds(e, idx):
            if isinstance(e, ast.Name):
                rd = reaching_def(cf.node, e, e.id)
                if rd is not None and rd[2] == "unpack" and isinstance(rd[1], ast.Assign) and isinstance(rd[1].value, ast.Call) \
                        and dotted(rd[1].value.func) == "self.get_bounds" and isinstance(rd[1].targets[0], ast.Tuple) \
                        and len(rd[1].targets[0].elts) == 2 and isinstance(rd[1].targets[0].elts[idx], ast.Name) \
                        and rd[1].targets[0].elts[idx].id == e.id:
                    return True
            return False
        direct = isinstance(lo, ast.Constant) and lo.value == 0 and _len_minus_one(hi, "choices")
        okc = direct or (from_bounds(lo, 0) and from_bounds(hi, 1) and okb)
    good(f"DiscreteVariable.correct = {detail} with (lb, ub) = get_bounds()", "DV.correct") if okc else bad(
        "R2-correct-own-bounds", dv.methods["correct"], "DiscreteVariable",
        f"correct is `{detail}`; expected int(np.clip(value, 0, len(self.choices) - 1)) (bounds in (low, high) order)", "correct")
    r = _ret(dv.methods["decode"])
    if isinstance(r, ast.Subscript) and isinstance(r.slice, ast.Name):
        so = origin(dv.methods["decode"].node, r.slice)
        if so is not r.slice:
            r = ast.copy_location(ast.Subscript(value=r.value, slice=so, ctx=ast.Load()), r)
    okd = isinstance(r, ast.Subscript) and _field(r.value, "choices") and isinstance(r.slice, ast.Call) and isinstance(r.slice.func, ast.Name) \
        and r.slice.func.id == "int" and len(r.slice.args) == 1 and isinstance(r.slice.args[0], ast.Name) \
        and r.slice.args[0].id == dv.methods["decode"].params[1]
    if isinstance(r, ast.Subscript) and _field(r.value, "choices") and isinstance(r.slice, ast.Name) and r.slice.id == dv.methods["decode"].params[1]:
        okd = True
    good("DiscreteVariable.decode = self.choices[int(value)]", "DV.decode") if okd else bad(
        "R2-decode", dv.methods["decode"], "DiscreteVariable", f"decode is `{norm(r) if r is not None else None}`, not self.choices[int(value)]", "decode")

    # ------------------------------------------------------------------ PermutationVariable
    pv = vfs["PermutationVariable"]
    r = _ret(pv.methods["randomize"])
    inner, casts = V_.strip_cast(r, pv.methods["randomize"].node) if r is not None else (None, [])
    ok = isinstance(inner, ast.Call) and dotted(inner.func) in ("np.random.permutation", "numpy.random.permutation") and len(inner.args) == 1 \
        and (_range0(inner.args[0], lambda e: _len_of(e, "items")) or _len_of(inner.args[0], "items"))
    good(f"PermutationVariable.randomize = {norm(r)}", "PV.randomize") if ok else bad(
        "R1-randomize-domain", pv.methods["randomize"], "PermutationVariable", f"randomize is `{norm(r) if r is not None else None}`, not a permutation of range(0, len(self.items))", "randomize")
    # label encoder fitted on the items in __init__
    init = pv.cls.methods.get("__init__")
    okf = init is not None and any(isinstance(n, ast.Call) and isinstance(n.func, ast.Attribute) and n.func.attr == "fit"
                                   and len(n.args) == 1 and _field(n.args[0], "items") for n in ast.walk(init.node))
    good("PermutationVariable.__init__ fits the label encoder on self.items", "PV.init") if okf else bad(
        "R2-decode", init or pv.cls.node, "PermutationVariable", "the label encoder is not fitted on self.items", "__init__")

    # ------------------------------------------------------------------ R3 idempotence + decode
    for name, vf in sorted(vfs.items()):
        f = vf.methods["correct"]
        if vf.correct_kind in ("unknown",):
            res.errors.append(f"{name}.correct has a shape the primitive table does not cover: {vf.correct_detail}")
            continue
        if vf.correct_kind == "bad-delegate":
            continue    # reported under R4
        ok = vf.idempotent is True
        if ok:
            good(f"{name}.correct ({vf.correct_kind}) idempotent", f"{name}.idempotent")
        elif vf.idempotent is None:
            res.errors.append(f"{name}.correct ({vf.correct_kind}): idempotence undecided - the child kind's correct has a shape "
                              f"the primitive table does not cover")
        else:
            res.ob(False)
            res.add(Finding(P, "C13.R3-correct-idempotent", f"models.{name}.correct::{vf.correct_kind}", f.loc(),
                            f"{name}.correct ({vf.correct_detail}) is not idempotent: correct(correct(p)) != correct(p) "
                            f"(for argsort it is the inverse permutation)"))
        d = vf.methods["decode"]
        rec = [n for n in ast.walk(d.node) if isinstance(n, ast.Call) and dotted(n.func) == "self.correct"]
        if rec and not ok:
            res.ob(False)
            res.add(Finding(P, "C13.R3-decode-recorrects", f"models.{name}.decode::self.correct", d.loc(),
                            f"{name}.decode applies the non-idempotent correct() to an already corrected value: the decoded "
                            f"arrangement is not the corrected index order"))

    # ------------------------------------------------------------------ R4 the composite's bounds are its children's bounds
    dm = vfs["DiscreteMultiVariable"]
    gbm = dm.methods["get_bounds"]
    rv = _ret(gbm)
    verdict, why_b = "undecided", ""
    if isinstance(rv, ast.Tuple) and len(rv.elts) == 2:
        lo_e, hi_e = [origin(gbm.node, x) if isinstance(x, ast.Name) else x for x in rv.elts]

        def from_children(e, which):
            """[lb for lb, _ in bounds] with bounds = [v.get_bounds() for v in self._children]"""
            if not (isinstance(e, ast.ListComp) and len(e.generators) == 1 and not e.generators[0].ifs):
                return False
            g = e.generators[0]
            src = origin(gbm.node, g.iter) if isinstance(g.iter, ast.Name) else g.iter
            if isinstance(src, ast.ListComp) and len(src.generators) == 1 and dotted(src.generators[0].iter) == "self._children" \
                    and isinstance(src.elt, ast.Call) and isinstance(src.elt.func, ast.Attribute) and src.elt.func.attr == "get_bounds" \
                    and isinstance(g.target, ast.Tuple) and len(g.target.elts) == 2 and isinstance(e.elt, ast.Name):
                return isinstance(g.target.elts[which], ast.Name) and g.target.elts[which].id == e.elt.id
            if dotted(g.iter) == "self._children" and isinstance(e.elt, ast.Subscript) and isinstance(e.elt.value, ast.Call) \
                    and isinstance(e.elt.value.func, ast.Attribute) and e.elt.value.func.attr == "get_bounds" \
                    and isinstance(e.elt.slice, ast.Constant) and e.elt.slice.value == which:
                return True
            return False
        if from_children(lo_e, 0) and from_children(hi_e, 1):
            verdict = "ok"
        elif isinstance(hi_e, ast.ListComp) and len(hi_e.generators) == 1 and dotted(hi_e.generators[0].iter) == "self.choices" \
                and isinstance(hi_e.generators[0].target, ast.Name):
            c_ = hi_e.generators[0].target.id
            if norm(hi_e.elt) == f"len({c_}) - 1":
                verdict = "ok"
            elif norm(hi_e.elt).startswith(f"len({c_})"):
                verdict, why_b = "bad", (f"the upper bound of child k is `{norm(hi_e.elt)}`; the child (a DiscreteVariable over choices[k]) "
                                         f"reports len(choices[k]) - 1: the composite's upper corner lies outside its own children's domain")
    if verdict == "ok":
        good("DiscreteMultiVariable.get_bounds = its children's bounds", "DMV.get_bounds")
    elif verdict == "bad":
        bad("R4-bounds-of-children", gbm, "DiscreteMultiVariable", f"DiscreteMultiVariable.get_bounds: {why_b}", "get_bounds")
    else:
        # a positive-only rule: it reports the recognised wrong form and claims nothing about forms it does not know
        res.note(f"{gbm.loc()} DiscreteMultiVariable.get_bounds: `{norm(rv, 70) if rv is not None else None}` is not recognised as the "
                 f"children's bounds (R4-bounds-of-children makes no claim)")

    # ------------------------------------------------------------------ R4 multi kinds
    spec_children = {
        "ContinuousMultiVariable": ("ContinuousVariable", "lower_bounds"),
        "MultiObjectiveVariable": ("ContinuousVariable", "lower_bounds"),
        "DiscreteMultiVariable": ("DiscreteVariable", "choices"),
        "BinaryVariable": ("DiscreteVariable", "n_vars"),
    }
    for name in MULTI_KINDS:
        vf = vfs[name]
        for meth, takes in (("randomize", False), ("correct", True), ("decode", True)):
            d = V_.delegation_of(vf.methods[meth], meth, takes)
            if d.ok:
                good(f"{name}.{meth} delegates element-wise to _children", f"{name}.{meth}")
            elif d.unknown:
                res.errors.append(f"{vf.methods[meth].loc()} {name}.{meth}: the delegation to the children has a shape that is not "
                                  f"understood ({d.why}) (undecided)")
            else:
                bad("R4-delegation", vf.methods[meth], name, f"{name}.{meth} does not delegate to `.{meth}` of each child on its own coordinate: {d.why}", meth)
        g = _ret(vf.methods["get"])
        if dotted(g) == "self._children":
            good(f"{name}.get = self._children", f"{name}.get")
        else:
            bad("R4-delegation", vf.methods["get"], name, f"{name}.get returns `{norm(g) if g is not None else None}`, not self._children", "get")
        if vf.has_children is not True:
            bad("R4-delegation", vf.methods["has_children"], name, f"{name}.has_children() is not True", "has_children")
        # children built from the measured sequence
        child_cls, measured = spec_children[name]
        got_child = V_.children_class(prog, vf.cls)
        size = _ret(vf.methods["size"])
        init = vf.cls.methods.get("__init__")
        comp = None
        if init is not None:
            for n in own_nodes(init):
                if isinstance(n, ast.Assign) and any(dotted(t) == "self._children" for t in n.targets):
                    vv = origin(init.node, n.value) if isinstance(n.value, ast.Name) else n.value
                    if isinstance(vv, ast.ListComp):
                        comp = vv
        ok = comp is not None and got_child == child_cls and len(comp.generators) == 1 and not comp.generators[0].ifs
        why = f"children are `{got_child}` built by `{norm(comp, 80) if comp is not None else None}`"
        if ok:
            it = comp.generators[0].iter
            kws = {k.arg: k.value for k in comp.elt.keywords}
            if name in ("ContinuousMultiVariable", "MultiObjectiveVariable"):
                # enumerate(zip(lower_bounds, upper_bounds)) with lower/upper = self.get_bounds() = (self.lower_bounds, self.upper_bounds)
                z = it.args[0] if isinstance(it, ast.Call) and isinstance(it.func, ast.Name) and it.func.id == "enumerate" and it.args else it
                okz = isinstance(z, ast.Call) and isinstance(z.func, ast.Name) and z.func.id == "zip" and len(z.args) == 2
                srcs = []
                if okz:
                    for a in z.args:
                        if dotted(a) in ("self.lower_bounds", "self.upper_bounds"):
                            srcs.append(dotted(a)[5:])
                        elif isinstance(a, ast.Name):
                            rd = reaching_def(init.node, a, a.id)
                            gbv = _ret(vf.methods["get_bounds"])
                            if rd is not None and rd[2] == "unpack" and isinstance(rd[1].value, ast.Call) and dotted(rd[1].value.func) == "self.get_bounds" \
                                    and isinstance(gbv, ast.Tuple) and len(gbv.elts) == 2:
                                pos = [i for i, t in enumerate(rd[1].targets[0].elts) if isinstance(t, ast.Name) and t.id == a.id]
                                if pos and dotted(gbv.elts[pos[0]]) in ("self.lower_bounds", "self.upper_bounds"):
                                    srcs.append(dotted(gbv.elts[pos[0]])[5:])
                tg = comp.generators[0].target
                pair = tg.elts[1] if isinstance(tg, ast.Tuple) and len(tg.elts) == 2 and isinstance(tg.elts[1], ast.Tuple) else tg
                names = [e.id for e in pair.elts] if isinstance(pair, ast.Tuple) and all(isinstance(e, ast.Name) for e in pair.elts) else []
                ok = okz and srcs == ["lower_bounds", "upper_bounds"] and len(names) == 2 \
                    and isinstance(kws.get("lower_bound"), ast.Name) and kws["lower_bound"].id == names[0] \
                    and isinstance(kws.get("upper_bound"), ast.Name) and kws["upper_bound"].id == names[1]
                oksz = _len_of(size, "lower_bounds") or _len_of(size, "upper_bounds")
                why = "children are not ContinuousVariable(lower_bound=lb, upper_bound=ub) over zip(lower_bounds, upper_bounds)"
            elif name == "DiscreteMultiVariable":
                ok = _range0(it, lambda e: _len_of(e, "choices")) and isinstance(kws.get("choices"), ast.Subscript) \
                    and _field(kws["choices"].value, "choices") and isinstance(kws["choices"].slice, ast.Name) \
                    and isinstance(comp.generators[0].target, ast.Name) and kws["choices"].slice.id == comp.generators[0].target.id
                if isinstance(it, ast.Attribute) and _field(it, "choices") and isinstance(kws.get("choices"), ast.Name) \
                        and isinstance(comp.generators[0].target, ast.Name) and kws["choices"].id == comp.generators[0].target.id:
                    ok = True
                tg_ = comp.generators[0].target
                if isinstance(it, ast.Call) and isinstance(it.func, ast.Name) and it.func.id == "enumerate" and len(it.args) == 1 \
                        and _field(it.args[0], "choices") and isinstance(tg_, ast.Tuple) and len(tg_.elts) == 2 \
                        and isinstance(kws.get("choices"), ast.Name) and isinstance(tg_.elts[1], ast.Name) \
                        and kws["choices"].id == tg_.elts[1].id:
                    ok = True
                oksz = _len_of(size, "choices")
                why = "children are not DiscreteVariable(choices=self.choices[i]) for every i in range(len(self.choices))"
            else:
                ok = _range0(it, lambda e: _field(e, "n_vars")) and isinstance(kws.get("choices"), ast.List) \
                    and [getattr(e, "value", None) for e in kws["choices"].elts] == [0, 1]
                oksz = _field(size, "n_vars")
                why = "children are not n_vars DiscreteVariable(choices=[0, 1])"
            if ok and not oksz:
                ok, why = False, f"size() returns `{norm(size) if size is not None else None}` which does not measure the sequence the children are built from"
        if ok:
            good(f"{name}: {child_cls} children built from the sequence size() measures", f"{name}.children")
        else:
            bad("R4-children-built-from-measured-sequence", init or vf.cls.node, name, f"{name}: {why}", "children")

    # ------------------------------------------------------------------ R6 the permutation's label table keeps the declared items
    # PermutationVariable.decode goes through LabelEncoder: the labels it hands back must be the declared items themselves.
    # Building the table through a numpy array coerces them (a mixed str/int list becomes all-str, tuples are flattened).
    le = prog.classes.get(f"{PKG}.models.LabelEncoder")
    if le is None or "fit" not in le.methods:
        res.errors.append("models.LabelEncoder.fit vanished")
    else:
        fit = le.methods["fit"]
        stores = [n for n in own_nodes(fit) if isinstance(n, ast.Assign) and any(
            isinstance(t, ast.Attribute) and "unique_labels" in t.attr for t in n.targets)]
        ITEM_KEEPING = {"sorted", "set", "list", "tuple", "frozenset", "reversed", "dict.fromkeys", "isinstance", "len", "enumerate", "zip",
                        "range", "iter", "next", "type", "id", "hash"}
        COERCING = ("np.", "numpy.", "pd.", "pandas.", "str", "repr", "float", "int", "map")
        for st in stores:
            seen_calls = []
            work = [st.value]
            visited = set()
            while work:
                e = work.pop()
                for x in ast.walk(e):
                    if isinstance(x, ast.Call):
                        seen_calls.append(x)
                    if isinstance(x, ast.Name) and isinstance(x.ctx, ast.Load) and x.id not in visited and x.id not in fit.params:
                        visited.add(x.id)
                        from ..flow import store_sites
                        for (_s, v_, k_) in store_sites(fit.node, x.id):
                            if k_ == "assign" and v_ is not None:
                                work.append(v_)
            coercing = [c for c in seen_calls if (dotted(c.func) or "").startswith(COERCING[:4]) or
                        (isinstance(c.func, ast.Name) and c.func.id in COERCING[4:] and not _inside_key_lambda(c))]
            unknown = [c for c in seen_calls if c not in coercing and (dotted(c.func) or "?") not in ITEM_KEEPING
                       and not _inside_key_lambda(c)]
            key = construct_key(prog, st, fit.module)
            if coercing:
                res.ob(False)
                res.add(Finding(P, "C13.R6-label-table-keeps-items", key, f"{fit.module.relpath}:{st.lineno}",
                                f"LabelEncoder.fit builds its label table through `{norm(coercing[0], 50)}`: the declared items are "
                                f"converted (numpy turns a mixed str/number list into strings and flattens tuples), so "
                                f"PermutationVariable.decode returns values that are not the declared items"))
            elif unknown:
                res.errors.append(f"{fit.module.relpath}:{st.lineno} LabelEncoder.fit: label table built through "
                                  f"`{norm(unknown[0], 50)}`, not known to keep the items as they are (undecided)")
            else:
                res.ob(True, f"{fit.module.relpath}:{st.lineno} label table = {norm(st.value, 60)} (items kept as declared)", key)
        inv = le.methods.get("inverse_transform")
        if inv is not None:
            for c_ in own_nodes(inv):
                if isinstance(c_, ast.Compare) and len(c_.ops) == 1 and isinstance(c_.ops[0], (ast.In, ast.NotIn)) \
                        and isinstance(c_.comparators[0], ast.Attribute) and "label_to_index" in c_.comparators[0].attr:
                    res.ob(False)
                    res.add(Finding(P, "C13.R6-label-table-keeps-items", construct_key(prog, c_, inv.module), f"{inv.module.relpath}:{c_.lineno}",
                                    f"LabelEncoder.inverse_transform tests an *index* for membership among the labels (`{norm(c_, 60)}`: "
                                    f"`in <dict>` looks at the keys): for items other than 0..n-1 every decoded entry becomes \"unknown\""))
        res.count("label-table-stores", len(stores))
        res.floor("label-table-stores", 1)

    # ------------------------------------------------------------------ R5 validators (rejection formulas)
    from ..frm import canon_expr, equivalent, f_and, f_or, raise_formula

    def rejection(ci: ClassInfo):
        rv, ro = ("false",), ("false",)
        for m in ci.methods.values():
            decs = [norm(d) for d in m.node.decorator_list]
            if any("validator" in d for d in decs):
                a_, b_ = raise_formula(prog, m)
                rv, ro = f_or(rv, a_), f_or(ro, b_)
        return rv, ro

    def must_reject(ci: ClassInfo, alternatives: list, what: str):
        """Some alternative atom (spec written for a parameter name the validator may choose) must imply the rejection."""
        try:
            rv, ro = rejection(ci)
        except FrmUnknown as exc:
            res.errors.append(f"{ci.name}: validator shape not understood ({exc})")
            return
        ok = False
        for txt in alternatives:
            atom = ("atom", canon_expr(ast.parse(txt, mode="eval").body))
            try:
                imp, _ = equivalent(f_and(atom, rv), atom)
                imp_other, _ = equivalent(f_and(atom, ro), atom) if ro != ("false",) else (False, None)
            except FrmUnknown:
                continue
            if imp:
                ok = True
            if imp_other and not imp:
                bad("R5-validator", ci.node, ci.name, f"{ci.name} rejects {what} with an exception other than ValueError", f"validator:{what}:exc")
                return
        if ok:
            good(f"{ci.name} rejects {what} with ValueError", f"{ci.name}:{what}")
        else:
            bad("R5-validator", ci.node, ci.name,
                f"{ci.name} no longer rejects {what} at construction (a validator raising ValueError whenever `{alternatives[0]}`)",
                f"validator:{what}")
    must_reject(vfs["ContinuousVariable"].cls, ["self.upper_bound <= self.lower_bound"], "upper <= lower")
    for nm in ("ContinuousMultiVariable", "MultiObjectiveVariable"):
        must_reject(vfs[nm].cls, ["any(ub <= lb for lb, ub in zip(self.lower_bounds, self.upper_bounds))"], "upper <= lower")
        must_reject(vfs[nm].cls, ["len(self.lower_bounds) != len(self.upper_bounds)"], "length mismatch")
    bv = vfs["BinaryVariable"].cls
    vparams = [m.params[1] for m in bv.methods.values() if any("validator" in norm(d) for d in m.node.decorator_list) and len(m.params) > 1]
    must_reject(bv, [f"{v} <= 0" for v in (vparams or ["v"])], "n_vars <= 0")


def _inside_key_lambda(n) -> bool:
    """a call inside the key= lambda of sorted() orders the items, it does not change them"""
    from ..model import ancestors as _anc
    return any(isinstance(a, ast.Lambda) for a in _anc(n))


# ---------------------------------------------------------------------------------------------
from ..selftest import V, run_battery  # noqa: E402

_M = "pyvolutionary/models.py"
VARIANTS = [
    V("inverse-transform-membership-among-labels", "pyvolutionary/models.py", "if i in self.__label_to_index__.values() else", "if i in self.__label_to_index__ else", "C13.R6"),
    V("label-table-through-numpy", "pyvolutionary/models.py", "        self.__unique_labels__ = sorted(set(y), key=lambda x: (isinstance(x, (int, float)), x))",
      "        self.__unique_labels__ = np.unique(np.asarray(y)).tolist()", "C13.R6"),
    V("twin-label-table-two-steps", "pyvolutionary/models.py", "        self.__unique_labels__ = sorted(set(y), key=lambda x: (isinstance(x, (int, float)), x))",
      "        distinct = set(y)\n        self.__unique_labels__ = sorted(distinct, key=lambda x: (isinstance(x, (int, float)), str(x)))", None),
    V("clip-bounds-swapped", _M, "        return float(np.clip(value, self.lower_bound, self.upper_bound))",
      "        return float(np.clip(value, self.upper_bound, self.lower_bound))", "C13.R2"),
    V("discrete-upper-len", _M, "        return 0, len(self.choices) - 1", "        return 0, len(self.choices)", "C13.R2"),
    V("validator-strict", _M, "        if self.upper_bound <= self.lower_bound:", "        if self.upper_bound < self.lower_bound:", "C13.R5"),
    V("multi-validator-strict", _M,
      "class ContinuousMultiVariable(Variable):", "class ContinuousMultiVariable(Variable):  # variant", "C13.R5",
      more=[(_M, "    @model_validator(mode=\"after\")\n    def validate_bounds(self) -> \"ContinuousMultiVariable\":\n        if len(self.lower_bounds) != len(self.upper_bounds):\n            raise ValueError(\"Lower and upper bounds must have the same length\")\n        if np.any(np.array([ub <= lb for lb, ub in zip(self.lower_bounds, self.upper_bounds)])):",
             "    @model_validator(mode=\"after\")\n    def validate_bounds(self) -> \"ContinuousMultiVariable\":\n        if len(self.lower_bounds) != len(self.upper_bounds):\n            raise ValueError(\"Lower and upper bounds must have the same length\")\n        if np.any(np.array([ub < lb for lb, ub in zip(self.lower_bounds, self.upper_bounds)])):")]),
    V("multi-corrects-with-wrong-child", _M,
      "class DiscreteMultiVariable(Variable):", "class DiscreteMultiVariable(Variable):  # variant", "C13.R4",
      more=[(_M, "        return [lb for lb, _ in bounds], [ub for _, ub in bounds]\n\n    def correct(self, value: list):\n        return [v.correct(value[idx]) for idx, v in enumerate(self._children)]",
             "        return [lb for lb, _ in bounds], [ub for _, ub in bounds]\n\n    def correct(self, value: list):\n        return [self._children[0].correct(value[idx]) for idx, v in enumerate(self._children)]")]),
    V("binary-size-from-children-of-other", _M, "    def size(self) -> int:\n        return self.n_vars", "    def size(self) -> int:\n        return self.n_vars + 1", "C13.R4"),
    V("randomize-uniform-swapped", _M, "        return np.random.uniform(self.lower_bound, self.upper_bound)", "        return np.random.uniform(self.upper_bound, self.lower_bound)", "C13.R1"),
    V("discrete-randomize-off-by-one", _M, "        return np.random.choice(range(0, len(self.choices)))", "        return np.random.choice(range(0, len(self.choices) + 1))", "C13.R1"),
    V("decode-without-int", _M, "        return self.choices[int(value)]", "        return self.choices[int(value) - 1]", "C13.R2"),
    V("n-vars-zero-accepted", _M, "        if v <= 0:\n            raise ValueError(f\"\\\"n_vars\\\"", "        if v < 0:\n            raise ValueError(f\"\\\"n_vars\\\"", "C13.R5"),
    V("length-check-dropped", _M,
      "class MultiObjectiveVariable(Variable):", "class MultiObjectiveVariable(Variable):  # variant", "C13.R5",
      more=[(_M, "    def validate_bounds(self) -> \"MultiObjectiveVariable\":\n        if len(self.lower_bounds) != len(self.upper_bounds):\n            raise ValueError(\"Lower and upper bounds must have the same length\")\n",
             "    def validate_bounds(self) -> \"MultiObjectiveVariable\":\n")]),
    V("validator-raises-typeerror", _M, "        if self.upper_bound <= self.lower_bound:\n            raise ValueError(", "        if self.upper_bound <= self.lower_bound:\n            raise TypeError(", "C13.R5"),
    V("multi-decode-uses-correct", _M,
      "class BinaryVariable(Variable):", "class BinaryVariable(Variable):  # variant", "C13.R4",
      more=[(_M, "    def decode(self, value: list) -> list:\n        return [v.decode(value[idx]) for idx, v in enumerate(self._children)]\n\n    def size(self) -> int:\n        return self.n_vars",
             "    def decode(self, value: list) -> list:\n        return [v.correct(value[idx]) for idx, v in enumerate(self._children)]\n\n    def size(self) -> int:\n        return self.n_vars")]),
    # twins
    V("twin-mirrored-validator", _M, "        if self.upper_bound <= self.lower_bound:", "        if self.lower_bound >= self.upper_bound:", None),
    V("twin-zip-delegation", _M,
      "class BinaryVariable(Variable):", "class BinaryVariable(Variable):  # variant", None,
      more=[(_M, "    def decode(self, value: list) -> list:\n        return [v.decode(value[idx]) for idx, v in enumerate(self._children)]\n\n    def size(self) -> int:\n        return self.n_vars",
             "    def decode(self, value: list) -> list:\n        return [child.decode(c) for c, child in zip(value, self._children)]\n\n    def size(self) -> int:\n        return self.n_vars")]),
]


def selftest(res: Result, tier: str, seed: int) -> None:
    run_battery(__name__, VARIANTS, res, tier, seed)
