"""C05 - the objective is only evaluated inside the search space: who-may-call closure."""
from __future__ import annotations

import ast

from .. import chain
from ..flow import is_call_to, origin, reaching_def
from ..guard import closed_world
from ..model import PKG, Program, construct_key, dotted, norm, parent
from ..report import Finding, Result

EXPLANATION = (
    "Who-may-call closure over every parsed module of pyvolutionary: (1) the only reference to "
    "`objective_function` is the call in Task.solve and its argument's reaching definition is "
    "self.correct_solution(<position>); (2) the only reference to a task's `.solve` is in "
    "OptimizationAbstract._fcn; (3) `_fcn` is referenced only from OptimizationAbstract._init_agent; "
    "(4) Task.correct_solution applies <variable>.correct to every zipped coordinate, unfiltered. "
    "Together these make correction unavoidable before any evaluation, in every mode (workers run package "
    "code that is subject to the same scan). Decides the routing clause, not finiteness of the arguments."
)
ASSUMPTIONS = [
    "user Task subclasses implement only objective_function and do not call it themselves",
    "closed-world guard R0: no reflection in the package outside the allow-list",
    "Variable.correct delivers membership (decided under C13)",
]
TRUSTED = ["python ast", "DESIGN.md 3.6 summaries"]

ABSTRACT = f"{PKG}.abstract.OptimizationAbstract"


def run(prog: Program, res: Result) -> None:
    P = "C05"
    res.rules = ["R1 objective_function referenced only by Task.solve on the corrected position",
                 "R2 .solve referenced only by OptimizationAbstract._fcn",
                 "R3 _fcn referenced only by OptimizationAbstract._init_agent",
                 "R4 correct_solution corrects every coordinate (chain shape)"]
    res.undecided = ["finiteness (NaN/inf) of the coordinates handed to the objective: np.clip propagates NaN; numeric, "
                     "out of reach of a structural rule",
                     "membership delivered by each Variable.correct (C13)"]
    closed_world(prog, res)
    solve_q = f"{PKG}.models.Task.solve"
    fcn_q = f"{ABSTRACT}._fcn"
    init_q = f"{ABSTRACT}._init_agent"
    prog.func(solve_q), prog.func(fcn_q), prog.func(init_q)

    for mod in prog.modules.values():
        for n in ast.walk(mod.tree):
            name = None
            if isinstance(n, ast.Attribute):
                name = n.attr
            elif isinstance(n, ast.Constant) and isinstance(n.value, str) and n.value in ("objective_function", "solve", "_fcn"):
                # getattr(x, "solve") and friends
                p = parent(n)
                if isinstance(p, ast.Call) and isinstance(p.func, ast.Name) and p.func.id in ("getattr", "setattr"):
                    name = n.value
                    n = p
            if name not in ("objective_function", "solve", "_fcn"):
                continue
            fi = prog.func_of_node(n)
            q = fi.qualname if fi is not None else mod.name
            key = construct_key(prog, n, mod)
            loc = f"{mod.relpath}:{n.lineno}"
            p = parent(n)
            is_call = isinstance(p, ast.Call) and p.func is n
            if name == "objective_function":
                res.count("R1.objective_function-refs")
                ok = q == solve_q and is_call and isinstance(n, ast.Attribute) and dotted(n.value) == "self"
                res.ob(ok, f"{loc} {norm(p if is_call else n)} in {q}", key)
                if not ok:
                    res.add(Finding(P, "C05.R1-objective-only-in-solve", key, loc,
                                    f"`objective_function` is referenced outside Task.solve (in {q}): the candidate "
                                    f"reaches the user's objective without passing correct_solution"))
            elif name == "solve":
                res.count("R2.solve-refs")
                ok = q == fcn_q and is_call and isinstance(n, ast.Attribute) and dotted(n.value) == "self._task"
                res.ob(ok, f"{loc} {norm(p if is_call else n)} in {q}", key)
                if not ok:
                    res.add(Finding(P, "C05.R2-solve-only-in-fcn", key, loc,
                                    f"`.solve` is referenced outside OptimizationAbstract._fcn (in {q})"))
            elif name == "_fcn":
                res.count("R3._fcn-refs")
                ok = q == init_q and is_call and isinstance(n, ast.Attribute) and dotted(n.value) == "self"
                res.ob(ok, f"{loc} {norm(p if is_call else n)} in {q}", key)
                if not ok:
                    res.add(Finding(P, "C05.R3-fcn-only-in-init-agent", key, loc,
                                    f"`_fcn` is referenced outside OptimizationAbstract._init_agent (in {q})"))
    res.floor("R1.objective_function-refs", 1)
    res.floor("R2.solve-refs", 1)
    res.floor("R3._fcn-refs", 1)

    # nobody redefines the chain
    for ci in prog.subclasses(ABSTRACT):
        for m in ("_fcn",):
            if m in ci.methods:
                f = ci.methods[m]
                res.add(Finding(P, "C05.R3-fcn-sealed", construct_key(prog, f.node, f.module), f.loc(),
                                f"{ci.qualname} overrides {m}; evaluations would bypass the analysed base implementation"))
    # a second definition of a method called `objective_function`/`solve` inside the package
    for ci in prog.classes.values():
        if ci.qualname == f"{PKG}.models.Task":
            continue
        for m in ("objective_function", "solve"):
            if m in ci.methods:
                f = ci.methods[m]
                res.add(Finding(P, "C05.R1-objective-only-in-solve", construct_key(prog, f.node, f.module), f.loc(),
                                f"{ci.qualname} defines {m}: a second evaluation route inside the package"))

    chain.check_solve(prog, res, P)
    chain.check_correct_solution(prog, res, P)
    chain.no_task_subclass_overrides(prog, res, P)
    chain.check_chain_pure(prog, res, P)
    _variable_domain_obligations(prog, res, P)



def _variable_domain_obligations(prog: Program, res: Result, P: str) -> None:
    """Membership is *delivered* by Variable.correct / get_bounds / delegation: those obligations are decided by C13's rule
    module and are re-evaluated here because this property fails with them (idempotence findings stay C13/C02's)."""
    from . import c13
    sub = Result(prop="C13")
    c13.run(prog, sub)
    res.errors.extend(e for e in sub.errors if e not in res.errors and "closed-world" not in e)
    n = 0
    for f in sub.findings:
        if f.rule.startswith(("C13.R2", "C13.R4")):
            n += 1
            res.ob(False)
            res.add(Finding(P, f"{P}.domain.{f.rule[4:]}", f.key, f.loc, f"{f.msg} - corrected positions can leave the declared domain"))
    res.ob(n == 0, f"Variable.correct / bounds / delegation obligations of C13 re-evaluated: {sub.discharged} discharged", "domain-obligations")

# ---------------------------------------------------------------------------------------------
from ..selftest import V, run_battery  # noqa: E402

_W = "pyvolutionary/whales/whales_optimization.py"
_M = "pyvolutionary/models.py"
_A = "pyvolutionary/abstract.py"
VARIANTS = [
    V("optimizer-precheck-calls-objective", _W,
      "            agent = Whale(**self._init_agent(position).model_dump())\n",
      "            if self._task.objective_function(position.tolist()) > 1e9:\n                return whale\n"
      "            agent = Whale(**self._init_agent(position).model_dump())\n", "C05.R1"),
    V("solve-on-raw-candidate", _M,
      "        solution = self.correct_solution(x)\n        return self.objective_function(solution)",
      "        solution = self.correct_solution(x)\n        return self.objective_function(x)", "C05.chain.solve"),
    V("bound-method-cached", _A,
      "        self._task = task\n",
      "        self._task = task\n        self._f = task.objective_function\n", "C05.R1"),
    V("optimizer-calls-solve", _W,
      "        leader_position = np.array(self._best_agent.position)\n",
      "        leader_position = np.array(self._best_agent.position)\n        probe = self._task.solve(leader_position * 2)\n",
      "C05.R2"),
    V("correct-solution-skips-last", _M,
      "        return [v.correct(c) for c, v in zip(solution, variables)]",
      "        return [v.correct(c) for c, v in zip(solution[:-1], variables)] + [solution[-1]]",
      "C05.chain.correct-solution-shape"),
    V("correct-only-when-invalid", _M,
      "        solution = self.correct_solution(x)\n        return self.objective_function(solution)",
      "        solution = x if self.is_valid_solution(x) else self.correct_solution(x)\n        return self.objective_function(solution)",
      "C05.chain.solve"),
    V("fcn-from-optimizer", _W,
      "            agent = Whale(**self._init_agent(position).model_dump())\n",
      "            raw = self._fcn(position)\n            agent = Whale(**self._init_agent(position).model_dump())\n", "C05.R3"),
    # benign twins
    V("twin-inline-solve", _M,
      "        solution = self.correct_solution(x)\n        return self.objective_function(solution)",
      "        return self.objective_function(self.correct_solution(x))", None),
    V("twin-renamed-locals", _M,
      "        variables = self.get_variables()\n        return [v.correct(c) for c, v in zip(solution, variables)]",
      "        vs = self.get_variables()\n        return [var.correct(coord) for coord, var in zip(solution, vs)]", None),
]


def selftest(res: Result, tier: str, seed: int) -> None:
    run_battery(__name__, VARIANTS, res, tier, seed)
