"""C05 - the objective is only evaluated inside the search space: who-may-call closure."""
from __future__ import annotations

import ast

from .. import chain
from ..flow import is_call_to, origin, reaching_def
from ..guard import closed_world
from ..model import PKG, Program, construct_key, dotted, norm, parent
from ..callgraph import own_nodes
from ..report import Finding, Result

EXPLANATION = (
    "Who-may-call closure over every parsed module of pyvolutionary: (1) the only reference to "
    "`objective_function` is the call in Task.solve and its argument's reaching definition is "
    "self.correct_solution(<position>); (2) the only reference to a task's `.solve` is in "
    "OptimizationAbstract._fcn; (3) `_fcn` is referenced only from OptimizationAbstract._init_agent; "
    "(4) Task.correct_solution applies <variable>.correct to every zipped coordinate, unfiltered. "
    "Together these make correction unavoidable before any evaluation, in every mode (workers run package "
    "code that is subject to the same scan). Decides the routing clause, not finiteness of the arguments."
)
ASSUMPTIONS = [
    "user Task subclasses implement only objective_function and do not call it themselves",
    "closed-world guard R0: no reflection in the package outside the allow-list",
    "Variable.correct delivers membership (decided under C13)",
]
TRUSTED = ["python ast", "DESIGN.md 3.6 summaries"]

ABSTRACT = f"{PKG}.abstract.OptimizationAbstract"


def run(prog: Program, res: Result) -> None:
    P = "C05"
    res.rules = ["R1 objective_function referenced only by Task.solve on the corrected position",
                 "R2 .solve referenced only by OptimizationAbstract._fcn",
                 "R3 _fcn referenced only by OptimizationAbstract._init_agent",
                 "R4 correct_solution corrects every coordinate (chain shape)",
                 "R5 an unguarded quotient by a spread of costs (0/0 = NaN on a plateau) does not flow into an evaluated position"]
    res.undecided = ["finiteness (NaN/inf) of the coordinates handed to the objective: np.clip propagates NaN; numeric, "
                     "out of reach of a structural rule except the unguarded cost-spread quotients of R5",
                     "membership delivered by each Variable.correct (C13)"]
    closed_world(prog, res)
    solve_q = f"{PKG}.models.Task.solve"
    fcn_q = f"{ABSTRACT}._fcn"
    init_q = f"{ABSTRACT}._init_agent"
    prog.func(solve_q), prog.func(fcn_q), prog.func(init_q)

    for mod in prog.modules.values():
        for n in ast.walk(mod.tree):
            name = None
            if isinstance(n, ast.Attribute):
                name = n.attr
            elif isinstance(n, ast.Constant) and isinstance(n.value, str) and n.value in ("objective_function", "solve", "_fcn"):
                # getattr(x, "solve") and friends
                p = parent(n)
                if isinstance(p, ast.Call) and isinstance(p.func, ast.Name) and p.func.id in ("getattr", "setattr"):
                    name = n.value
                    n = p
            if name not in ("objective_function", "solve", "_fcn"):
                continue
            fi = prog.func_of_node(n)
            q = fi.qualname if fi is not None else mod.name
            key = construct_key(prog, n, mod)
            loc = f"{mod.relpath}:{n.lineno}"
            p = parent(n)
            is_call = isinstance(p, ast.Call) and p.func is n
            if name == "objective_function":
                res.count("R1.objective_function-refs")
                ok = q == solve_q and is_call and isinstance(n, ast.Attribute) and dotted(n.value) == "self"
                res.ob(ok, f"{loc} {norm(p if is_call else n)} in {q}", key)
                if not ok:
                    res.add(Finding(P, "C05.R1-objective-only-in-solve", key, loc,
                                    f"`objective_function` is referenced outside Task.solve (in {q}): the candidate "
                                    f"reaches the user's objective without passing correct_solution"))
            elif name == "solve":
                res.count("R2.solve-refs")
                ok = q == fcn_q and is_call and isinstance(n, ast.Attribute) and dotted(n.value) == "self._task"
                res.ob(ok, f"{loc} {norm(p if is_call else n)} in {q}", key)
                if not ok:
                    res.add(Finding(P, "C05.R2-solve-only-in-fcn", key, loc,
                                    f"`.solve` is referenced outside OptimizationAbstract._fcn (in {q})"))
            elif name == "_fcn":
                res.count("R3._fcn-refs")
                ok = q == init_q and is_call and isinstance(n, ast.Attribute) and dotted(n.value) == "self"
                res.ob(ok, f"{loc} {norm(p if is_call else n)} in {q}", key)
                if not ok:
                    res.add(Finding(P, "C05.R3-fcn-only-in-init-agent", key, loc,
                                    f"`_fcn` is referenced outside OptimizationAbstract._init_agent (in {q})"))
    res.floor("R1.objective_function-refs", 1)
    res.floor("R2.solve-refs", 1)
    res.floor("R3._fcn-refs", 1)

    # nobody redefines the chain
    for ci in prog.subclasses(ABSTRACT):
        for m in ("_fcn",):
            if m in ci.methods:
                f = ci.methods[m]
                res.add(Finding(P, "C05.R3-fcn-sealed", construct_key(prog, f.node, f.module), f.loc(),
                                f"{ci.qualname} overrides {m}; evaluations would bypass the analysed base implementation"))
    # a second definition of a method called `objective_function`/`solve` inside the package
    for ci in prog.classes.values():
        if ci.qualname == f"{PKG}.models.Task":
            continue
        for m in ("objective_function", "solve"):
            if m in ci.methods:
                f = ci.methods[m]
                res.add(Finding(P, "C05.R1-objective-only-in-solve", construct_key(prog, f.node, f.module), f.loc(),
                                f"{ci.qualname} defines {m}: a second evaluation route inside the package"))

    chain.check_solve(prog, res, P)
    chain.check_correct_solution(prog, res, P)
    chain.no_task_subclass_overrides(prog, res, P)
    chain.check_chain_pure(prog, res, P)
    _variable_domain_obligations(prog, res, P)
    _degenerate_spread(prog, res, P)



def _degenerate_spread(prog: Program, res: Result, P: str) -> None:
    """R5 (the one structural slice of the finiteness clause): a quotient whose denominator is the *spread of costs*
    (`worst - best`, `max(costs) - min(costs)`, ..) with no additive guard (`+ self.EPS`) and no equality test is 0/0 = NaN
    (numpy: a warning, not an exception) as soon as every agent has the same cost - a plateau, an integer-valued objective, a
    converged run.  np.clip keeps NaN, so when that quotient flows into a position handed to `_init_agent`, the objective is
    called with NaN coordinates.  The tree's idiom is `.. / (worst - best + self.EPS)` (5 sites) or an explicit equality
    test (InvasiveWeed); sites whose quotient never reaches a position (GerminalCenter's life signal) are not reported."""
    from ..sem import path_conditions
    from ..flow import store_sites
    n_spread = n_guarded = 0
    for fi in prog.all_functions():
        if fi.cls is None or not prog.is_subclass(fi.cls, ABSTRACT) or fi.outer is not None:
            continue
        scopes = [fi]
        i = 0
        while i < len(scopes):
            scopes.extend(scopes[i].nested.values())
            i += 1

        def single_def(name):
            vals = []
            for sc in scopes:
                for (_st, v, k) in store_sites(sc.node, name):
                    vals.append((v, k))
            if len(vals) == 1 and vals[0][1] == "assign":
                return vals[0][0]
            return None

        def costy(e, d=3) -> bool:
            if d <= 0 or e is None:
                return False
            for x in ast.walk(e):
                if isinstance(x, ast.Attribute) and x.attr == "cost":
                    return True
                if isinstance(x, ast.Name) and isinstance(x.ctx, ast.Load):
                    v = single_def(x.id)
                    if v is not None and v is not e and costy(v, d - 1):
                        return True
            return False

        quotients = []
        for sc in scopes:
            for n in own_nodes(sc):
                if not (isinstance(n, ast.BinOp) and isinstance(n.op, ast.Div)):
                    continue
                den = n.right
                if isinstance(den, ast.Name):
                    v = single_def(den.id)
                    den = v if v is not None else den
                if not (isinstance(den, ast.BinOp) and isinstance(den.op, ast.Sub) and costy(den.left) and costy(den.right)):
                    continue
                n_spread += 1
                guarded = False
                lt, rt = norm(den.left), norm(den.right)
                for (t, pol) in path_conditions(sc.node, n):
                    tt = norm(t)
                    if lt in tt and rt in tt and (("==" in tt and not pol) or ("!=" in tt and pol)):
                        guarded = True
                if guarded:
                    n_guarded += 1
                    continue
                quotients.append((sc, n, den))
        if not quotients:
            continue
        # taint: locals (of the method and its closures) computed from an unguarded spread quotient
        for (sc0, q, den) in quotients:
            tainted = set()

            def carries(e) -> bool:
                return any(x is q or (isinstance(x, ast.Name) and isinstance(x.ctx, ast.Load) and x.id in tainted)
                           for x in ast.walk(e))
            changed = True
            while changed:
                changed = False
                for sc in scopes:
                    for n in own_nodes(sc):
                        tgt = val = None
                        if isinstance(n, ast.Assign) and len(n.targets) == 1:
                            tgt, val = n.targets[0], n.value
                        elif isinstance(n, ast.AugAssign):
                            tgt, val = n.target, n.value
                        if tgt is None or not carries(val):
                            continue
                        base = tgt
                        while isinstance(base, ast.Subscript):       # x[i] = ..: the array x; a field store taints nothing else
                            base = base.value
                        names = [base.id] if isinstance(base, ast.Name) else \
                            [x.id for x in ast.walk(tgt) if isinstance(x, ast.Name)] if isinstance(tgt, (ast.Tuple, ast.List)) else []
                        for nm in names:
                            if nm not in tainted and nm != "self":
                                tainted.add(nm)
                                changed = True
            if __import__('os').environ.get('PVLINT_DEBUG_TAINT'):
                print('TAINTED', sorted(tainted), norm(q, 60))
            sink = None
            for sc in scopes:
                for n in own_nodes(sc):
                    if isinstance(n, ast.Call) and dotted(n.func) in ("self._init_agent", "self._task.correct_solution", "self._fcn"):
                        pos_args = list(n.args[:1]) + [k.value for k in n.keywords if k.arg in ("position", "solution", "x")]
                        if any(carries(a) for a in pos_args):
                            sink = n
                            break
                if sink is not None:
                    break
            key = construct_key(prog, q, sc0.module)
            res.ob(sink is None, f"{sc0.module.relpath}:{q.lineno} spread quotient `{norm(q, 50)}` does not reach a position" if sink is None else None, key)
            if sink is not None:
                res.add(Finding(P, "C05.R5-degenerate-spread-reaches-objective", key, f"{sc0.module.relpath}:{q.lineno}",
                                f"`{norm(q, 70)}` in {fi.qualname}: the denominator `{norm(den, 40)}` is a spread of costs without the "
                                f"`+ self.EPS` guard (or an equality test) used elsewhere in the package; when all agents have the same "
                                f"cost it is 0/0 = NaN, the value flows into `{norm(sink, 60)}` and np.clip keeps NaN, so the "
                                f"objective is evaluated at NaN coordinates"))
    res.count("cost-spread-quotients", n_spread)
    res.count("cost-spread-quotients-guarded-by-test", n_guarded)


def _variable_domain_obligations(prog: Program, res: Result, P: str) -> None:
    """Membership is *delivered* by Variable.correct / get_bounds / delegation: those obligations are decided by C13's rule
    module and are re-evaluated here because this property fails with them (idempotence findings stay C13/C02's)."""
    from . import c13
    sub = Result(prop="C13")
    c13.run(prog, sub)
    res.errors.extend(e for e in sub.errors if e not in res.errors and "closed-world" not in e)
    n = 0
    for f in sub.findings:
        if f.rule.startswith(("C13.R2", "C13.R4")):
            n += 1
            res.ob(False)
            res.add(Finding(P, f"{P}.domain.{f.rule[4:]}", f.key, f.loc, f"{f.msg} - corrected positions can leave the declared domain"))
    res.ob(n == 0, f"Variable.correct / bounds / delegation obligations of C13 re-evaluated: {sub.discharged} discharged", "domain-obligations")

# ---------------------------------------------------------------------------------------------
from ..selftest import V, run_battery  # noqa: E402

_W = "pyvolutionary/whales/whales_optimization.py"
_M = "pyvolutionary/models.py"
_A = "pyvolutionary/abstract.py"
_EV = "pyvolutionary/energy_valley/energy_valley_optimization.py"
VARIANTS = [
    V("spread-guard-dropped-energy-valley", _EV, "            sl = (cost_list[idx] - best_cost) / (worst_cost - best_cost + self.EPS)",
      "            sl = (cost_list[idx] - best_cost) / (worst_cost - best_cost)", "C05.R5"),
    V("twin-spread-guard-by-test", _EV, "            sl = (cost_list[idx] - best_cost) / (worst_cost - best_cost + self.EPS)",
      "            sl = 0.5 if worst_cost == best_cost else (cost_list[idx] - best_cost) / (worst_cost - best_cost)", None),
    V("optimizer-precheck-calls-objective", _W,
      "            agent = Whale(**self._init_agent(position).model_dump())\n",
      "            if self._task.objective_function(position.tolist()) > 1e9:\n                return whale\n"
      "            agent = Whale(**self._init_agent(position).model_dump())\n", "C05.R1"),
    V("solve-on-raw-candidate", _M,
      "        solution = self.correct_solution(x)\n        return self.objective_function(solution)",
      "        solution = self.correct_solution(x)\n        return self.objective_function(x)", "C05.chain.solve"),
    V("bound-method-cached", _A,
      "        self._task = task\n",
      "        self._task = task\n        self._f = task.objective_function\n", "C05.R1"),
    V("optimizer-calls-solve", _W,
      "        leader_position = np.array(self._best_agent.position)\n",
      "        leader_position = np.array(self._best_agent.position)\n        probe = self._task.solve(leader_position * 2)\n",
      "C05.R2"),
    V("correct-solution-skips-last", _M,
      "        return [v.correct(c) for c, v in zip(solution, variables)]",
      "        return [v.correct(c) for c, v in zip(solution[:-1], variables)] + [solution[-1]]",
      "C05.chain.correct-solution-shape"),
    V("correct-only-when-invalid", _M,
      "        solution = self.correct_solution(x)\n        return self.objective_function(solution)",
      "        solution = x if self.is_valid_solution(x) else self.correct_solution(x)\n        return self.objective_function(solution)",
      "C05.chain.solve"),
    V("fcn-from-optimizer", _W,
      "            agent = Whale(**self._init_agent(position).model_dump())\n",
      "            raw = self._fcn(position)\n            agent = Whale(**self._init_agent(position).model_dump())\n", "C05.R3"),
    # benign twins
    V("twin-inline-solve", _M,
      "        solution = self.correct_solution(x)\n        return self.objective_function(solution)",
      "        return self.objective_function(self.correct_solution(x))", None),
    V("twin-renamed-locals", _M,
      "        variables = self.get_variables()\n        return [v.correct(c) for c, v in zip(solution, variables)]",
      "        vs = self.get_variables()\n        return [var.correct(coord) for coord, var in zip(solution, vs)]", None),
]


def selftest(res: Result, tier: str, seed: int) -> None:
    run_battery(__name__, VARIANTS, res, tier, seed)
