"""C17 - elitist optimizers never lose their best: the checker is the structural-elitism classifier."""
from __future__ import annotations

import ast

from ..guard import closed_world
from ..model import PKG, Program, construct_key, norm
from ..popshape import Keeps, keeps_best, population_writes
from ..report import Finding, Result
from .c16 import check_greedy_agent, check_population_helpers

EXPLANATION = (
    "The property quantifies over optimizers `classified as structurally elitist from their source`; this check is that "
    "classifier. For each exported optimizer every write of self._population reachable from optimization_step is evaluated in "
    "a dominance domain: a write KEEPS the best cost if it is (a) a comprehension / zip-unpack built member by member over the "
    "live population whose element, for member m, provably has cost <= m.cost - self._greedy_select_agent with m as one "
    "operand, m itself or a non-core copy, a closure or private method whose every return keeps its member parameter "
    "(followed through locals, two-phase rebinding, tuple returns, guarded `if x.cost < m.cost: return x`, and "
    "self._population[idx] for the enumerate index), conditionals both of whose branches keep m; (b) one of the base helpers "
    "_extend_and_trim_population / _greedy_select_population (sorted superset trimmed / sorted pairwise greedy); (c) a "
    "reordering or pure extension. The committed reference table (60 classes confirmed by reading, with 8 undecided and 16 "
    "structurally non-elitist) is re-derived on every run; a reference-listed optimizer with a write that no longer keeps the "
    "best is a violation naming the site. The base mechanisms themselves (strict greedy comparison, FIRST(k) of ASC trims, "
    "sorted pairing) are C16's rules and are re-checked here because every classification rests on them."
)
ASSUMPTIONS = ["optimizers whose elitism rests on configuration arithmetic (keep >= 1, n_cut < N, clan size > 1) or on a cache "
               "invariant are undecided", "population_size >= 1 so FIRST(N) of a superset contains its minimum", "NaN costs not decided",
               "closed-world guard R0"]
TRUSTED = ["python ast", "C16's ORD results for the base helpers"]
ABSTRACT = f"{PKG}.abstract.OptimizationAbstract"

ELITIST = """AfricanVulture AntColony AntLion Aquila Archimede Bat BiogeographyBased BrownBear CamelCaravan CatSwarm ChaosGame Coati
Dragonfly EgretSwarm ElectromagneticField EnergyValley FicksLaw Fireworks FlowerPollinationAlgorithm ForensicBasedInvestigation Fox
GainingSharingKnowledge GerminalCenter GiantTrevally GizaPyramidConstruction GoldenJackal Grasshopper GreyWolf HarmonySearch
HungerGamesSearch InvasiveWeed KrillHerd LeviFlightJayaSwarm MarinePredators MothFlame MountainGazelle Multiverse NuclearReaction
Osprey PathfinderAlgorithm Pelican RungeKutta SalpSwarm Seagull Serval SiberianTiger QleSineCosineAlgorithm SineCosineAlgorithm
SpottedHyena SuccessHistoryIntelligent SwarmHillClimbing TasmanianDevil TunaSwarm VirusColonySearch Walrus WarStrategy Whales
WildebeestHerd WindDriven Zebra""".split()
UNDECIDED = {
    "BrainStorm": "cluster centres regrouped; residual members dropped when population_size % clusters != 0",
    "ImprovedBrainStorm": "as BrainStorm",
    "HenryGasSolubility": "groups regrouped; residual members",
    "CuckooSearch": "elitist only if n_cut < population_size",
    "ElephantHerd": "elitist only if clan size >= 2",
    "MonarchButterfly": "elitist only if keep >= 1",
    "HeapBased": "slot store guarded by a comparison with a cached cost",
    "ForestOptimizationAlgorithm": "best tree is kept at age 0 by convention; seeding/ageing arithmetic",
}
NON_ELITIST = {
    "BacterialForaging": "elimination-dispersal replaces cells regardless of cost",
    "BattleRoyale": "overwrites slots of the list it is iterating",
    "BeeColony": "scouts re-initialise abandoned sources; onlookers overwrite slot idx with a bee chosen elsewhere",
    "ChernobylDisaster": "agents move unconditionally",
    "CoralReef": "flag-empty slots are overwritten regardless of cost",
    "CoronavirusHerdImmunity": "re-generation of patients",
    "Coyotes": "pup replaces the oldest coyote",
    "DwarfMongoose": "babysitters are re-initialised",
    "Earthworms": "elite copied from the new population",
    "FireflySwarm": "fireflies move unconditionally",
    "FireHawk": "population replaced by a computed list",
    "FishSchoolSearch": "collective movements are unconditional",
    "GeneticAlgorithm": "children replace parents",
    "ImperialistCompetitive": "empire totals",
    "ParticleSwarm": "the swarm moves unconditionally; only pbest is greedy",
    "WaterCycle": "streams move unconditionally",
}


def short(name: str) -> str:
    return name[:-len("Optimization")] if name.endswith("Optimization") else name


def run(prog: Program, res: Result) -> None:
    P = "C17"
    res.rules = ["R1 every population write of a reference-listed elitist optimizer keeps the best cost",
                 "R2 the mechanisms the classification rests on (greedy strictness, trims, sorted pairing) hold"]
    res.undecided = [f"{k}: {v}" for k, v in sorted(UNDECIDED.items())]
    closed_world(prog, res)
    opts = prog.exported_optimizers()
    res.count("exported-optimizers", len(opts))
    res.floor("exported-optimizers", 84)
    n_el = n_sites = 0
    newly = []
    known_names = set(ELITIST) | set(UNDECIDED) | set(NON_ELITIST)
    for ci in opts:
        sn = short(ci.name)
        K = Keeps(prog, ci)
        ws = population_writes(prog, ci, ("optimization_step",))
        verdicts = [(w,) + keeps_best(prog, ci, w, K) for w in ws]
        all_ok = bool(ws) and all(v[1] for v in verdicts)
        if sn in ELITIST:
            n_el += 1
            if not ws:
                res.ob(False)
                res.add(Finding(P, "C17.R1-elitist-write", f"{ci.qualname[len(PKG) + 1:]}::no-population-write", ci.loc(),
                                f"{ci.name} (reference: structurally elitist) no longer updates self._population in optimization_step "
                                f"through a recognised form"))
            for (w, ok, why) in verdicts:
                n_sites += 1
                key = construct_key(prog, w.stmt, w.fi.module)
                res.ob(ok, f"{w.loc()} {ci.name}: keeps best - {w.text(70)}" if (ok and len(res.samples) < 30) else None, key)
                if not ok:
                    res.add(Finding(P, "C17.R1-elitist-write", key, w.loc(),
                                    f"{ci.name} is structurally elitist in the reference table, but `{w.text(80)}` can make the best cost of "
                                    f"the next generation worse: {why}"))
        elif sn in UNDECIDED or sn in NON_ELITIST:
            if all_ok:
                newly.append(ci.name)
        else:
            res.note(f"{ci.name} is not in any reference table: classified {'elitist' if all_ok else 'not elitist'} (informational)")
    res.count("reference-elitist-optimizers", n_el)
    res.count("elitist-write-sites", n_sites)
    res.floor("reference-elitist-optimizers", 60)
    res.floor("elitist-write-sites", 60)
    for n in newly:
        res.note(f"{n} now classifies as structurally elitist (informational; reference table says otherwise)")
    # R2
    impls = [prog.func(f"{ABSTRACT}._greedy_select_agent")]
    for ci in prog.subclasses(ABSTRACT):
        if "_greedy_select_agent" in ci.methods:
            impls.append(ci.methods["_greedy_select_agent"])
    for f in impls:
        issues = check_greedy_agent(f)
        res.ob(not issues, f"{f.loc()} {f.qualname}: challenger only if strictly cheaper", f.qualname)
        for (rule, node, msg) in issues:
            res.add(Finding(P, f"C17.R2-{rule}", construct_key(prog, node, f.module), f"{f.module.relpath}:{node.lineno}",
                            f"{f.qualname}: {msg} - every per-slot elitism classification rests on this"))
    g = prog.func(f"{ABSTRACT}._greedy_select_population")
    issues = check_population_helpers(prog)
    for (rule, node, msg) in [i_ for i_ in issues if i_[0] == "UNDECIDED"]:
        res.errors.append(msg + " (undecided)")
    issues = [i_ for i_ in issues if i_[0] != "UNDECIDED"]
    res.ob(not issues, "base trims / sorted pairing as specified", "population-helpers")
    for (rule, node, msg) in issues:
        res.add(Finding(P, f"C17.R2-{rule.split('-', 1)[1]}", construct_key(prog, node, g.module), f"{g.module.relpath}:{node.lineno}", msg))
    from ..ord import L, OrdDeviation, OrdUnknown, evaluate
    from ..sgn import MIN
    try:
        got, _ = evaluate(prog, "sort_and_trim", MIN, ok=lambda g: isinstance(g, L) and g.order == "ASC" and g.window[0] == "FIRST")
        ok = isinstance(got, L) and got.order == "ASC" and got.window[0] == "FIRST"
        res.ob(ok, f"sort_and_trim = {got.show() if isinstance(got, L) else got}", "sort_and_trim")
        if not ok:
            res.add(Finding(P, "C17.R2-trim-keeps-cheapest", "helpers.sort_and_trim::window", prog.func(f"{PKG}.helpers.sort_and_trim").loc(),
                            f"sort_and_trim returns {got.show() if isinstance(got, L) else got}: the merged population no longer keeps its cheapest agents"))
    except OrdDeviation as exc:
        res.ob(False)
        res.add(Finding(P, "C17.R2-trim-keeps-cheapest", "helpers.sort_and_trim::key", prog.func(f"{PKG}.helpers.sort_and_trim").loc(),
                        f"sort_and_trim no longer ranks by cost ({exc}): the trim can drop the cheapest agent"))
    except OrdUnknown as exc:
        res.errors.append(f"ORD cannot evaluate sort_and_trim: {exc}")


# ---------------------------------------------------------------------------------------------
from ..selftest import V, run_battery  # noqa: E402

_A = "pyvolutionary/abstract.py"
_H = "pyvolutionary/helpers.py"
_W = "pyvolutionary/whales/whales_optimization.py"
_GW = "pyvolutionary/grey_wolf/grey_wolf_optimization.py"
_BIO = "pyvolutionary/biogeography_based/biogeography_based_optimization.py"
_OS = "pyvolutionary/osprey/osprey_optimization.py"
_TD = "pyvolutionary/tasmanian_devil/tasmanian_devil_optimization.py"
_VC = "pyvolutionary/virus_colony_search/virus_colony_search_optimization.py"
VARIANTS = [
    V("evolve-returns-candidate", _W, "            return self._greedy_select_agent(whale, agent)", "            return agent", "C17.R1"),
    V("greedy-non-strict", _A, "        return new_agent if new_agent.cost < agent_copy.cost else agent_copy",
      "        return new_agent if new_agent.cost <= agent_copy.cost else agent_copy", "C17.R2"),
    V("greedy-wrong-way-round", _A, "        return new_agent if new_agent.cost < agent_copy.cost else agent_copy",
      "        return agent_copy if new_agent.cost < agent_copy.cost else new_agent", "C17.R2"),
    V("sort-and-trim-takes-tail", _H, "    return sort_by_cost(population)[:population_size]", "    return sort_by_cost(population)[-population_size:]", "C17.R2"),
    V("greedy-against-other-member", _W, "            return self._greedy_select_agent(whale, agent)",
      "            return self._greedy_select_agent(self._population[0], agent)", "C17.R1"),
    V("greedy-only-sometimes", _W, "            return self._greedy_select_agent(whale, agent)",
      "            return self._greedy_select_agent(whale, agent) if np.random.random() < 0.9 else agent", "C17.R1"),
    V("population-replaced-after-greedy", _W, "        self._population = [evolve(whale) for whale in self._population]",
      "        self._population = [evolve(whale) for whale in self._population]\n        self._population = [self._init_agent(np.array(w.position) * 0.999) for w in self._population]", "C17.R1"),
    V("replace-instead-of-extend", "pyvolutionary/harmony_search/harmony_search_optimization.py",
      "self._extend_and_trim_population(pop_new)", "self._replace_and_trim_population(pop_new)", "C17.R1"),
    V("second-phase-drops-greedy", _OS, "            return self._greedy_select_agent(osprey,", "            return self._greedy_select_agent(self._init_agent(),", "C17.R1"),
    V("twin-operands-swapped", _W, "            return self._greedy_select_agent(whale, agent)", "            return self._greedy_select_agent(agent, whale)", None),
    V("twin-local-name", _W, "            return self._greedy_select_agent(whale, agent)",
      "            chosen = self._greedy_select_agent(whale, agent)\n            return chosen", None),
]


def selftest(res: Result, tier: str, seed: int) -> None:
    run_battery(__name__, VARIANTS, res, tier, seed)
