"""C08 - a run does not depend on the instance's history (typestate / effect analysis per class)."""
from __future__ import annotations

import ast

from ..callgraph import own_nodes
from ..guard import closed_world
from ..model import PKG, ClassInfo, Program, construct_key, mangle, norm
from ..report import Finding, Result
from ..runstate import RunWalker, helper_writer_names

EXPLANATION = (
    "Per exported optimizer class (84 contexts) one run of optimize() is walked flow-sensitively with every self./"
    "super()/closure call inlined through the class's MRO. Abstract state: the set of self fields definitely assigned "
    "afresh in this run. Leak = fields that are read (or read-modify-written, or mutated in place, also through local "
    "aliases and helper-object methods) at a point where they are not yet fresh AND are stored/mutated somewhere in the "
    "run: exactly the state that travels from one optimize() call to the next on the same instance. Branches join by "
    "intersection, loops and merely-referenced callables run 0..n times. An empty Leak (declared inputs _config/_debug "
    "aside) is necessary for history independence; module globals and class attributes may not be written either."
)
ASSUMPTIONS = ["state outside the instance: global RNG is C07, the shared configuration object is C09",
               "closed-world guard R0 (no reflective field access)",
               "helper objects reachable only through fields (their state is attributed to the field holding them)"]
TRUSTED = ["python ast", "MRO linearisation of the single-inheritance hierarchy"]

ABSTRACT = f"{PKG}.abstract.OptimizationAbstract"
DECLARED_INPUTS = {"_config": "configuration supplied by the caller (C09/C18)", "_debug": "constructor flag, never written"}


MEMO_DECORATORS = ("cached_property", "lru_cache", "cache")


def memoised_methods(prog: Program) -> list:
    """Methods of optimizer classes carrying a memoising decorator: a hidden per-instance (or per-class) store that no
    per-run hook re-initialises."""
    out = []
    for ci in [prog.cls(ABSTRACT)] + prog.subclasses(ABSTRACT):
        for m in ci.methods.values():
            for d in m.node.decorator_list:
                txt = norm(d)
                if any(txt == k or txt.endswith("." + k) or txt.startswith(k + "(") or ("." + k + "(") in txt for k in MEMO_DECORATORS):
                    out.append((ci, m, txt))
    return out


def owner_of(prog: Program, ctx: ClassInfo, field: str) -> str:
    """Most-base class of ctx's MRO that stores the field anywhere (mangled names carry their class)."""
    for c in reversed(prog.mro(ctx)):
        if field.startswith(f"_{c.name.lstrip('_')}__"):
            return c.name
    for c in reversed(prog.mro(ctx)):
        for m in c.methods.values():
            for n in ast.walk(m.node):
                if isinstance(n, ast.Attribute) and isinstance(n.ctx, ast.Store) and isinstance(n.value, ast.Name) \
                        and n.value.id == "self" and mangle(c.name, n.attr) == field:
                    return c.name
    return ctx.name


def run(prog: Program, res: Result) -> None:
    P = "C08"
    res.rules = ["R1 Leak(class) = UpwardExposed(run) ∩ Written(run) = ∅ for every exported optimizer",
                 "R2 no function writes a module global or a class attribute"]
    res.undecided = ["state outside the optimizer instance (global RNG: C07; configuration object: C09)"]
    closed_world(prog, res)
    hw = helper_writer_names(prog)
    res.count("helper-writer-method-names", len(hw))
    opts = prog.exported_optimizers()
    res.count("optimizer-contexts", len(opts))
    res.floor("optimizer-contexts", 84)
    total_fields = 0
    total_funcs = 0
    for ctx in opts:
        w = RunWalker(prog, ctx, hw)
        w.run()
        total_funcs += len(w.visited_funcs)
        fields = set(w.exposed) | set(w.written)
        total_fields += len(fields)
        for f in sorted(fields):
            if f in DECLARED_INPUTS:
                res.ob(True, None, f"{ctx.name}.{f}")
                continue
            leak = f in w.exposed and f in w.written
            owner = owner_of(prog, ctx, f)
            res.ob(not leak, None, f"{owner}.{f}")
            if leak:
                ex, wr = w.exposed[f], w.written[f]
                pretty = f.replace(f"_{owner}__", "__") if f.startswith(f"_{owner}__") else f
                res.add(Finding(
                    P, "C08.R1-leak", f"{owner}.{pretty}", ex.loc(),
                    f"field `{pretty}` of {owner} carries state across optimize() calls: {ex.how} at {ex.loc()} "
                    f"({ex.fi.qualname}) happens before any assignment in the run, and the run writes it "
                    f"({wr.how} at {wr.loc()} in {wr.fi.qualname})",
                    [f"first seen in context {ctx.name}"]))
        if len(res.samples) < 12:
            res.samples.append(f"{ctx.name}: {len(w.visited_funcs)} functions inlined, {len(fields)} fields touched, "
                               f"written={sorted(w.written)[:8]}")
    res.count("fields-examined", total_fields)
    res.count("functions-inlined", total_funcs)
    res.floor("fields-examined", 800)
    res.floor("functions-inlined", 800)

    # memoised methods: values computed in one run (from the configuration, the task, the population) survive into the next
    for (ci, m, txt) in memoised_methods(prog):
        res.ob(False)
        res.add(Finding(P, "C08.R1-leak", f"{ci.name}.{m.name}::@{txt}", m.loc(),
                        f"{ci.name}.{m.name} is memoised with `@{txt}`: its first value is kept on the instance for every later "
                        f"optimize() call (no per-run hook clears it)"))
    # R2 globals / class attributes
    class_names = {c.name for c in prog.classes.values()}
    for fi in prog.all_functions():
        for n in own_nodes(fi):
            if isinstance(n, ast.Global):
                res.ob(False)
                res.add(Finding(P, "C08.R2-global-state", construct_key(prog, n, fi.module), f"{fi.module.relpath}:{n.lineno}",
                                f"{fi.qualname} declares `global {', '.join(n.names)}`: module state survives runs"))
            elif isinstance(n, ast.Attribute) and isinstance(n.ctx, (ast.Store, ast.Del)):
                b = n.value
                if isinstance(b, ast.Name) and b.id in class_names and fi.module.bindings.get(b.id) is not None \
                        and b.id not in _locals(fi):
                    res.ob(False)
                    res.add(Finding(P, "C08.R2-global-state", construct_key(prog, n, fi.module), f"{fi.module.relpath}:{n.lineno}",
                                    f"{fi.qualname} stores into class attribute {b.id}.{n.attr}: shared by all instances and runs"))
                elif isinstance(b, ast.Attribute) and b.attr == "__class__":
                    res.ob(False)
                    res.add(Finding(P, "C08.R2-global-state", construct_key(prog, n, fi.module), f"{fi.module.relpath}:{n.lineno}",
                                    f"{fi.qualname} stores into self.__class__.{n.attr}"))
    # class-level mutable defaults mutated through self: one object for every instance and every run
    from ..shared_state import class_level_shared
    n_cls = 0
    for ci in prog.classes.values():
        if not prog.is_subclass(ci, ABSTRACT):
            continue
        n_cls += 1
        for (attr, node, hit, m) in class_level_shared(prog, ci):
            res.ob(False)
            res.add(Finding(P, "C08.R2-global-state", f"{ci.name}::{attr}", f"{ci.module.relpath}:{node.lineno}",
                            f"{ci.name}.{attr} is a class-level mutable object that {m.name}() changes in place (`{norm(hit, 50)}`): "
                            f"it is shared by all instances and survives every run"))
    res.count("optimizer-classes-scanned-for-shared-state", n_cls)
    res.ob(True, "R2: no global statement / class-attribute store in the package", "R2")


def _locals(fi) -> set:
    from ..callgraph import local_names
    return local_names(fi.node)


# ---------------------------------------------------------------------------------------------
from ..selftest import V, run_battery  # noqa: E402

_W = "pyvolutionary/whales/whales_optimization.py"
_A = "pyvolutionary/abstract.py"
_S = "pyvolutionary/success_history_intelligent/success_history_intelligent_optimization.py"
_E = "pyvolutionary/earthworms/earthworms_optimization.py"
_H = "pyvolutionary/harmony_search/harmony_search_optimization.py"
_ANCHOR = "        leader_position = np.array(self._best_agent.position)\n"
_CTOR = "        super().__init__(config, debug)\n\n    def set_config_parameters"
VARIANTS = [
    V("reset-moved-back-to-ctor", _S,
      "    def before_initialization(self):\n        self.__a = 1.5\n", "", "C08.R1",
      more=[(_S, "        super().__init__(config, debug)\n", "        super().__init__(config, debug)\n        self.__a = 1.5\n")]),
    V("new-decayed-field", _W, _CTOR,
      "        super().__init__(config, debug)\n        self.__scale = 1.0\n\n    def set_config_parameters", "C08.R1",
      more=[(_W, _ANCHOR, _ANCHOR + "        self.__scale *= 0.99\n        leader_position = leader_position * self.__scale\n")]),
    V("cached-best-so-far", _W, _CTOR,
      "        super().__init__(config, debug)\n        self.__elite = None\n\n    def set_config_parameters", "C08.R1",
      more=[(_W, _ANCHOR, _ANCHOR + "        if self.__elite is None or self._best_agent.cost < self.__elite.cost:\n            self.__elite = self._best_agent\n        leader_position = np.array(self.__elite.position)\n")]),
    V("append-to-ctor-list", _W, _CTOR,
      "        super().__init__(config, debug)\n        self.__trace = []\n\n    def set_config_parameters", "C08.R1",
      more=[(_W, _ANCHOR, _ANCHOR + "        self.__trace.append(self._best_agent.cost)\n        a = a * (0.5 if len(self.__trace) > 50 else 1.0)\n")]),
    V("bookkeeping-reset-removed", _A, "        evolution: list[Population] = []\n        self._current_cycle = 1\n        self._errors = []\n        self._error_diffs = []\n", "        evolution: list[Population] = []\n", "C08.R1"),
    V("errors-reset-only-when-empty", _A, "        self._current_cycle = 1\n        self._errors = []\n        self._error_diffs = []\n\n        self._workers",
      "        self._current_cycle = 1\n        if len(self._error_diffs) > 1000:\n            self._errors = []\n        self._error_diffs = []\n\n        self._workers", "C08.R1"),
    V("sticky-mode", _A, "        self._mode = ModeSolver.SERIAL\n        if mode is not None:", "        if mode is not None:", "C08.R1"),
    V("class-attribute-counter", _W, _ANCHOR, _ANCHOR + "        WhalesOptimization.calls = getattr(WhalesOptimization, 'calls', 0) + 1\n", "C08.R2"),
    V("alias-mutation-of-ctor-dict", _W, _CTOR,
      "        super().__init__(config, debug)\n        self.__memo = {}\n\n    def set_config_parameters", "C08.R1",
      more=[(_W, _ANCHOR, _ANCHOR + "        memo = self.__memo\n        memo[len(memo)] = a\n        a = a / (1 + len(memo))\n")]),
    # twins
    V("twin-reset-in-prologue-style-hook", _W, _CTOR,
      "        super().__init__(config, debug)\n        self.__scale = 1.0\n\n    def before_initialization(self):\n        self.__scale = 1.0\n\n    def set_config_parameters", None,
      more=[(_W, _ANCHOR, _ANCHOR + "        self.__scale *= 0.99\n")]),
    V("twin-assigned-at-step-start", _W, _ANCHOR, _ANCHOR + "        self.__tmp = [a]\n        self.__tmp.append(a2)\n", None),
    V("twin-readonly-ctor-constant", _W, _CTOR,
      "        super().__init__(config, debug)\n        self.__k = 2.0\n\n    def set_config_parameters", None,
      more=[(_W, _ANCHOR, _ANCHOR + "        a = a * self.__k / 2.0\n")]),
]


def selftest(res: Result, tier: str, seed: int) -> None:
    run_battery(__name__, VARIANTS, res, tier, seed)
