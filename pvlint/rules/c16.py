"""C16 - selection helpers return exactly what is asked: ORD abstract evaluation against a spec table."""
from __future__ import annotations

import ast

from ..alias import MUTATORS, AliasCtx
from ..callgraph import Resolver, own_nodes
from ..flow import origin, returns_of
from ..guard import closed_world
from ..model import PKG, FuncInfo, Program, construct_key, dotted, norm, parent
from ..ord import E, L, OrdDeviation, OrdUnknown, Scalar, Tup, evaluate
from ..report import Finding, Result
from ..sgn import MAX, MIN

EXPLANATION = (
    "Order/window abstract interpretation: each of the 12 ranking helpers of helpers.py is evaluated symbolically for "
    "direction MIN and MAX over the domain (source list, objects|indexes, ORIG|ASC|DESC, ALL|FIRST(n)|LAST(n), fresh) "
    "and compared with the specification table (best = FIRST(n) of the direction's order, worst = LAST(n), index "
    "variants agree with object variants, sort_and_trim = FIRST(k) of ASC, special_agents = (best, worst) with the same "
    "direction, [] for an absent count, ValueError when both are absent). Non-mutation: the only in-place sort is "
    "applied to a fresh copy and no helper parameter is the target of a store or mutating call. Greedy replacement: "
    "_greedy_select_agent and each override return the challenger only on a path whose condition contains the strict "
    "`challenger.cost < incumbent.cost`, else the incumbent or a non-core copy of it; _greedy_select_population sorts "
    "both lists ascending and pairs by index in both modes; the trim helpers keep FIRST(population_size) of ASC. "
    "Order-theoretic content is decided completely, trusting Python's sort."
)
ASSUMPTIONS = ["list.sort / sorted are stable ascending sorts by key; slicing semantics", "NaN/inf comparisons not decided",
               "closed-world guard R0"]
TRUSTED = ["python ast", "ORD specification table (DESIGN appendix C)"]

ABSTRACT = f"{PKG}.abstract.OptimizationAbstract"
HELP = f"{PKG}.helpers"


def order_for(direction):
    return "ASC" if direction == MIN else "DESC"


def spec(name, direction):
    o = order_for(direction)
    t = {
        "sort_by_cost": L("population", "objs", o, ("ALL",), True),
        "sort_by_cost_indexes": L("population", "idx", o, ("ALL",), True),
        "best_agents": L("population", "objs", o, ("FIRST", "n_best"), True),
        "best_agents_indexes": L("population", "idx", o, ("FIRST", "n_best"), True),
        "worst_agents": L("population", "objs", o, ("LAST", "n_worst"), True),
        "worst_agents_indexes": L("population", "idx", o, ("LAST", "n_worst"), True),
        "best_agent": E("population", "objs", o, "first"),
        "best_agent_index": E("population", "idx", o, "first"),
        "worst_agent": E("population", "objs", o, "last"),
        "worst_agent_index": E("population", "idx", o, "last"),
        "special_agents": Tup((L("population", "objs", o, ("FIRST", "n_best"), True),
                               L("population", "objs", o, ("LAST", "n_worst"), True))),
    }
    return t[name]


def canon(v):
    """Equivalences that do not change the specified observable."""
    if isinstance(v, E):
        # first of DESC == last of ASC (any extremal element satisfies the statement)
        if v.order == "DESC":
            return E(v.src, v.kind, "ASC", "last" if v.at == "first" else "first")
        return v
    if isinstance(v, Tup):
        return Tup(tuple(canon(x) for x in v.items))
    return v


def show(v):
    if isinstance(v, (L, E)):
        return v.show() + (" (fresh)" if getattr(v, "fresh", False) else "")
    if isinstance(v, Tup):
        return "(" + ", ".join(show(x) for x in v.items) + ")"
    return str(v)


def run(prog: Program, res: Result) -> None:
    P = "C16"
    res.rules = ["R1 helper result == spec (ORD) for MIN and MAX", "R2 helpers never mutate / reorder their argument",
                 "R3 greedy agent selection keeps the incumbent unless the challenger is strictly cheaper",
                 "R4 greedy population selection: both sorted ascending, paired by index", "R5 trim helpers"]
    res.undecided = ["NaN / +-inf comparisons inside sort (numeric)"]
    closed_world(prog, res)
    hmod = prog.modules[HELP]
    n_eval = 0
    for name in ("sort_by_cost", "sort_by_cost_indexes", "best_agents", "best_agents_indexes", "worst_agents",
                 "worst_agents_indexes", "best_agent", "best_agent_index", "worst_agent", "worst_agent_index", "special_agents"):
        fi = prog.func(f"{HELP}.{name}")
        for direction in (MIN, MAX):
            n_eval += 1
            try:
                got, ev = evaluate(prog, name, direction)
            except OrdDeviation as exc:
                res.ob(False)
                res.add(Finding(P, "C16.R1-helper-spec", f"helpers.{name}::{direction}", fi.loc(),
                                f"helpers.{name} under direction {direction} does not rank by cost: {exc}"))
                continue
            except OrdUnknown as exc:
                res.errors.append(f"ORD cannot evaluate helpers.{name}: {exc}")
                continue
            want = spec(name, direction)
            ok = canon(got) == canon(want)
            # a windowed/ordered list must be fresh (not the caller's list)
            res.ob(ok, f"{name}[{direction}] = {show(got)}", f"{name}:{direction}")
            if not ok:
                res.add(Finding(P, "C16.R1-helper-spec", f"helpers.{name}::{direction}", fi.loc(),
                                f"helpers.{name} under direction {direction} returns {show(got)}; specified: {show(want)}"))
            for (f2, node, msg) in ev.mutated_params:
                res.add(Finding(P, "C16.R2-argument-not-mutated", construct_key(prog, node, f2.module),
                                f"{f2.module.relpath}:{node.lineno}", f"helpers.{f2.name}: {msg}"))
    # sort_and_trim (no direction)
    fi = prog.func(f"{HELP}.sort_and_trim")
    try:
        got, ev = evaluate(prog, "sort_and_trim", MIN)
        want = L("population", "objs", "ASC", ("FIRST", "population_size"), True)
        ok = got == want
        n_eval += 1
        res.ob(ok, f"sort_and_trim = {show(got)}", "sort_and_trim")
        if not ok:
            res.add(Finding(P, "C16.R1-helper-spec", "helpers.sort_and_trim::MIN", fi.loc(),
                            f"helpers.sort_and_trim returns {show(got)}; specified: {show(want)}"))
        for (f2, node, msg) in ev.mutated_params:
            res.add(Finding(P, "C16.R2-argument-not-mutated", construct_key(prog, node, f2.module),
                            f"{f2.module.relpath}:{node.lineno}", f"helpers.{f2.name}: {msg}"))
    except OrdDeviation as exc:
        res.ob(False)
        res.add(Finding(P, "C16.R1-helper-spec", "helpers.sort_and_trim::MIN", fi.loc(), f"helpers.sort_and_trim does not rank by cost: {exc}"))
    except OrdUnknown as exc:
        res.errors.append(f"ORD cannot evaluate helpers.sort_and_trim: {exc}")
    # special_agents with absent counts
    sa = prog.func(f"{HELP}.special_agents")
    for absent, label in (({"n_best": "None"}, "n_best absent"), ({"n_worst": "None"}, "n_worst absent"),
                          ({"n_best": "None", "n_worst": "None"}, "both absent")):
        try:
            got, _ = evaluate(prog, "special_agents", MIN, absent)
        except OrdDeviation:
            continue      # already reported for the fully specified call
        except OrdUnknown as exc:
            res.errors.append(f"ORD cannot evaluate helpers.special_agents ({label}): {exc}")
            continue
        n_eval += 1
        if len(absent) == 2:
            ok = isinstance(got, tuple) and got and got[0] == "RAISE" and "ValueError" in got[1]
        else:
            idx = 0 if "n_best" in absent else 1
            ok = isinstance(got, Tup) and isinstance(got.items[idx], L) and got.items[idx].src == "<empty>" \
                and isinstance(got.items[1 - idx], L) and got.items[1 - idx].src == "population"
        res.ob(ok, f"special_agents[{label}] = {show(got)}", f"special_agents:{label}")
        if not ok:
            res.add(Finding(P, "C16.R1-helper-spec", f"helpers.special_agents::{label}", sa.loc(),
                            f"special_agents with {label} returns {show(got)}"))
    res.count("ORD-evaluations", n_eval)
    res.floor("ORD-evaluations", 26)

    # R2: no helper writes through a parameter
    resolver = Resolver(prog, None)
    for f in hmod.functions.values():
        params = set(f.params)

        def is_root(fi2: FuncInfo, e: ast.AST, params=params):
            if isinstance(e, ast.Name) and e.id in params and isinstance(e.ctx, ast.Load):
                return "param"
            return None
        actx = AliasCtx(resolver, is_root)
        for n in own_nodes(f):
            bad = None
            if isinstance(n, (ast.Attribute, ast.Subscript)) and isinstance(n.ctx, (ast.Store, ast.Del)):
                r = _rooted_param(f, n.value, params)
                if r:
                    bad = f"store `{norm(parent(n), 70)}` through parameter `{r}`"
            elif isinstance(n, ast.Call) and isinstance(n.func, ast.Attribute) and n.func.attr in MUTATORS:
                r = _rooted_param(f, n.func.value, params)
                if r:
                    bad = f"mutating call `{norm(n, 70)}` on parameter `{r}`"
            if bad:
                res.ob(False)
                res.add(Finding(P, "C16.R2-argument-not-mutated", construct_key(prog, n, hmod), f"{hmod.relpath}:{n.lineno}",
                                f"helpers.{f.name}: {bad}"))
        res.ob(True, None, f"helpers.{f.name}:params-untouched")

    # R3 greedy agent selection (base + overrides)
    impls = [prog.func(f"{ABSTRACT}._greedy_select_agent")]
    for ci in prog.subclasses(ABSTRACT):
        if "_greedy_select_agent" in ci.methods:
            impls.append(ci.methods["_greedy_select_agent"])
    res.count("greedy-agent-implementations", len(impls))
    res.floor("greedy-agent-implementations", 3)
    for f in impls:
        for (rule, node, msg) in check_greedy_agent(f):
            res.ob(False)
            res.add(Finding(P, f"C16.R3-{rule}", construct_key(prog, node, f.module), f"{f.module.relpath}:{node.lineno}",
                            f"{f.qualname}: {msg}"))
        res.ob(True, f"{f.loc()} {f.qualname}: challenger only under strict `<`", f"{f.qualname}")

    # R4 / R5 base population helpers
    for (rule, node, msg) in check_population_helpers(prog):
        f = prog.func(f"{ABSTRACT}._greedy_select_population")
        res.ob(False)
        res.add(Finding(P, f"C16.{rule}", construct_key(prog, node, f.module), f"{f.module.relpath}:{node.lineno}", msg))
    res.ob(True, "base population helpers: sorted-ascending pairing, extend+trim, replace+trim", "population-helpers")
    for ci in prog.subclasses(ABSTRACT):
        for m in ("_greedy_select_population", "_extend_and_trim_population", "_replace_and_trim_population"):
            if m in ci.methods:
                f = ci.methods[m]
                res.add(Finding(P, "C16.R4-sealed", construct_key(prog, f.node, f.module), f.loc(),
                                f"{ci.name} overrides {m}; the base implementation is the one analysed"))


def _rooted_param(fi: FuncInfo, e: ast.AST, params: set):
    cur = e
    while isinstance(cur, (ast.Attribute, ast.Subscript, ast.Starred)):
        cur = cur.value
    if isinstance(cur, ast.Name) and cur.id in params:
        # rebound locally before?  `population = population.copy()` style makes it a fresh local
        from ..flow import reaching_def
        rd = reaching_def(fi.node, cur, cur.id)
        if rd is not None and rd[2] == "assign":
            v = rd[1]
            if isinstance(v, ast.Call):
                return None
        return cur.id
    return None


# ---------------------------------------------------------------------------------------------

def _strict_less(test: ast.AST, ch: str, inc_names: set) -> bool:
    """test contains the conjunct  ch.cost < inc.cost  (or mirrored  inc.cost > ch.cost)."""
    if isinstance(test, ast.BoolOp) and isinstance(test.op, ast.And):
        return any(_strict_less(v, ch, inc_names) for v in test.values)
    if isinstance(test, ast.Compare) and len(test.ops) == 1:
        l, r, op = test.left, test.comparators[0], test.ops[0]
        def is_cost(e, names):
            return isinstance(e, ast.Attribute) and e.attr == "cost" and isinstance(e.value, ast.Name) and e.value.id in names
        if isinstance(op, ast.Lt) and is_cost(l, {ch}) and is_cost(r, inc_names):
            return True
        if isinstance(op, ast.Gt) and is_cost(l, inc_names) and is_cost(r, {ch}):
            return True
    return False


def _negated_nonstrict(test: ast.AST, ch: str, inc_names: set) -> bool:
    """test is  inc.cost <= ch.cost  (or ch.cost >= inc.cost): its *else* branch is the strict case."""
    if isinstance(test, ast.Compare) and len(test.ops) == 1:
        l, r, op = test.left, test.comparators[0], test.ops[0]
        def is_cost(e, names):
            return isinstance(e, ast.Attribute) and e.attr == "cost" and isinstance(e.value, ast.Name) and e.value.id in names
        if isinstance(op, ast.LtE) and is_cost(l, inc_names) and is_cost(r, {ch}):
            return True
        if isinstance(op, ast.GtE) and is_cost(l, {ch}) and is_cost(r, inc_names):
            return True
    return False


def check_greedy_agent(f: FuncInfo) -> list:
    out = []
    if len(f.params) < 3:
        return [("greedy-shape", f.node, "signature is not (self, incumbent, challenger)")]
    inc, ch = f.params[1], f.params[2]
    inc_names = {inc}
    # local copies of the incumbent
    for n in own_nodes(f):
        if isinstance(n, ast.Assign) and len(n.targets) == 1 and isinstance(n.targets[0], ast.Name):
            v = n.value
            if isinstance(v, ast.Call) and isinstance(v.func, ast.Attribute) and v.func.attr == "model_copy" \
                    and isinstance(v.func.value, ast.Name) and v.func.value.id in inc_names:
                inc_names.add(n.targets[0].id)
            elif isinstance(v, ast.Name) and v.id in inc_names:
                inc_names.add(n.targets[0].id)
            elif n.targets[0].id in (inc, ch):
                out.append(("greedy-shape", n, f"parameter `{n.targets[0].id}` is rebound"))

    def classify(e):
        """'ch' | 'inc' | 'other'"""
        if isinstance(e, ast.Name):
            return "ch" if e.id == ch else "inc" if e.id in inc_names else "other"
        if isinstance(e, ast.Call) and isinstance(e.func, ast.Attribute) and e.func.attr == "model_copy" \
                and isinstance(e.func.value, ast.Name):
            who = "ch" if e.func.value.id == ch else "inc" if e.func.value.id in inc_names else "other"
            return who
        return "other"

    def visit(e, conds, node):
        """conds: list of (test, polarity)"""
        if isinstance(e, ast.IfExp):
            visit(e.body, conds + [(e.test, True)], node)
            visit(e.orelse, conds + [(e.test, False)], node)
            return
        k = classify(e)
        if k == "ch":
            ok = any((pol and _strict_less(t, ch, inc_names)) or ((not pol) and _negated_nonstrict(t, ch, inc_names))
                     for (t, pol) in conds)
            if not ok:
                out.append(("greedy-strict", node,
                            f"returns the challenger `{ch}` on a path whose condition does not contain the strict "
                            f"`{ch}.cost < {inc}.cost` (conditions: {[('' if p else 'not ') + norm(t, 50) for t, p in conds] or 'none'})"))
        elif k == "other":
            out.append(("greedy-shape", node, f"returns `{norm(e, 60)}`, neither the incumbent (or a copy) nor the challenger"))

    def walk(stmts, conds):
        for st in stmts:
            if isinstance(st, ast.Return):
                if st.value is None:
                    out.append(("greedy-shape", st, "returns None"))
                else:
                    visit(st.value, conds, st)
            elif isinstance(st, ast.If):
                walk(st.body, conds + [(st.test, True)])
                walk(st.orelse, conds + [(st.test, False)])
                # statements after an if whose body always returns are under the negated test
                if st.body and isinstance(st.body[-1], ast.Return):
                    conds = conds + [(st.test, False)]
            elif isinstance(st, (ast.For, ast.While, ast.Try, ast.With)):
                out.append(("greedy-shape", st, f"control flow `{type(st).__name__}` not understood"))
    walk(f.node.body, [])
    if not returns_of(f.node):
        out.append(("greedy-shape", f.node, "no return"))
    return out


def check_population_helpers(prog: Program, size_only: bool = False) -> list:
    """size_only (C10): only what determines the *number* of agents is required (extra ranking arguments are tolerated)."""
    out = []
    g = prog.func(f"{ABSTRACT}._greedy_select_population")
    newp = g.params[1] if len(g.params) > 1 else None
    body = [st for st in g.node.body if not (isinstance(st, ast.Expr) and isinstance(st.value, ast.Constant))]
    # the two sorts come first
    def is_sort_assign(st, target, arg):
        return (isinstance(st, ast.Assign) and len(st.targets) == 1 and dotted(st.targets[0]) == target
                and isinstance(st.value, ast.Call) and dotted(st.value.func) == "sort_by_cost" and len(st.value.args) == 1
                and dotted(st.value.args[0]) == arg and not st.value.keywords)
    sorts = {"self._population": None, newp: None}
    for i, st in enumerate(body):
        for t in list(sorts):
            if is_sort_assign(st, t, t):
                sorts[t] = i
    if sorts["self._population"] is None:
        out.append(("R4-greedy-population-sorted", g.node, "_greedy_select_population does not sort the current population ascending before pairing"))
    if sorts[newp] is None:
        out.append(("R4-greedy-population-sorted", g.node, "_greedy_select_population does not sort the new population ascending before pairing"))
    first_pair = None
    n_pair = 0
    for n in own_nodes(g):
        if isinstance(n, ast.ListComp) and len(n.generators) == 1:
            gen = n.generators[0]
            it = gen.iter
            e = n.elt
            is_enum = isinstance(it, ast.Call) and isinstance(it.func, ast.Name) and it.func.id == "enumerate" \
                and len(it.args) == 1 and dotted(it.args[0]) == "self._population" and isinstance(gen.target, ast.Tuple) \
                and len(gen.target.elts) == 2
            if not is_enum:
                continue
            idx, ag = gen.target.elts[0].id, gen.target.elts[1].id
            args = None
            if isinstance(e, ast.Call) and dotted(e.func) == "self._greedy_select_agent":
                args = e.args
            elif isinstance(e, ast.Call) and isinstance(e.func, ast.Attribute) and e.func.attr == "submit" and e.args \
                    and dotted(e.args[0]) == "self._greedy_select_agent":
                args = e.args[1:]
            if args is None:
                continue
            n_pair += 1
            ok = (len(args) == 2 and isinstance(args[0], ast.Name) and args[0].id == ag and isinstance(args[1], ast.Subscript)
                  and dotted(args[1].value) == newp and isinstance(args[1].slice, ast.Name) and args[1].slice.id == idx
                  and not gen.ifs)
            if not ok:
                out.append(("R4-greedy-population-pairing", n, f"`{norm(n, 90)}` does not pair incumbent k with challenger k"))
            st = n
            while not isinstance(st, ast.stmt) or parent(st) is not g.node and not isinstance(parent(st), (ast.If, ast.With)):
                st = parent(st)
            first_pair = n if first_pair is None else first_pair
    if n_pair != 2:
        out.append(("R4-greedy-population-pairing", g.node, f"{n_pair} pairing comprehensions found, expected serial + pooled"))
    # the sorts must precede the pairings (top-level order)
    if first_pair is not None and None not in sorts.values():
        first_line = min(n.lineno for n in own_nodes(g) if isinstance(n, ast.ListComp))
        for t, i in sorts.items():
            if body[i].lineno > first_line:
                out.append(("R4-greedy-population-sorted", body[i], "sorting happens after the pairing"))
    # R5 trims
    e = prog.func(f"{ABSTRACT}._extend_and_trim_population")
    ep = e.params[1]
    ext = [n for n in own_nodes(e) if isinstance(n, ast.Call) and dotted(n.func) == "self._population.extend"
           and len(n.args) == 1 and dotted(n.args[0]) == ep]
    trim = [n for n in own_nodes(e) if isinstance(n, ast.Assign) and dotted(n.targets[0]) == "self._population"
            and isinstance(n.value, ast.Call) and dotted(n.value.func) == "sort_and_trim"
            and (len(n.value.args) == 2 and not n.value.keywords or (size_only and len(n.value.args) >= 2))
            and dotted(n.value.args[0]) == "self._population" and dotted(n.value.args[1]) == "self._config.population_size"]
    if len(ext) != 1 or len(trim) != 1 or ext[0].lineno > trim[0].lineno:
        out.append(("R5-extend-and-trim", e.node, "_extend_and_trim_population is not extend(new) followed by sort_and_trim(population, population_size)"))
    r = prog.func(f"{ABSTRACT}._replace_and_trim_population")
    rp = r.params[1]
    trim = [n for n in own_nodes(r) if isinstance(n, ast.Assign) and dotted(n.targets[0]) == "self._population"
            and isinstance(n.value, ast.Call) and dotted(n.value.func) == "sort_and_trim"
            and (len(n.value.args) == 2 and not n.value.keywords or (size_only and len(n.value.args) >= 2))
            and dotted(n.value.args[0]) == rp and dotted(n.value.args[1]) == "self._config.population_size"]
    if len(trim) != 1:
        out.append(("R5-replace-and-trim", r.node, "_replace_and_trim_population is not sort_and_trim(new, population_size)"))
    return out


# ---------------------------------------------------------------------------------------------
from ..selftest import V, run_battery  # noqa: E402

_H = "pyvolutionary/helpers.py"
_A = "pyvolutionary/abstract.py"
_BAT = "pyvolutionary/bat/bat_optimization.py"
VARIANTS = [
    V("best-takes-tail", _H, "    return sort_by_cost(population, task_type=task_type)[:n_best]",
      "    return sort_by_cost(population, task_type=task_type)[len(population)-n_best:]", "C16.R1"),
    V("worst-neg-slice", _H, "    return sort_by_cost(population, task_type=task_type)[len(population)-n_worst:]",
      "    return sort_by_cost(population, task_type=task_type)[-n_worst:]", "C16.R1"),
    V("sort-ignores-direction", _H, "    pop_new.sort(key=lambda agent: agent.cost, reverse=(task_type == TaskType.MAX))",
      "    pop_new.sort(key=lambda agent: agent.cost)", "C16.R1"),
    V("sort-direction-inverted", _H, "reverse=(task_type == TaskType.MAX))", "reverse=(task_type == TaskType.MIN))", "C16.R1"),
    V("sort-in-place", _H, "    pop_new = population.copy()\n    pop_new.sort(", "    pop_new = population\n    pop_new.sort(", "C16.R2"),
    V("indexes-not-reversed-for-max", _H, "    if task_type == TaskType.MAX:\n        result = result[::-1]\n", "", "C16.R1"),
    V("greedy-non-strict", _A, "        return new_agent if new_agent.cost < agent_copy.cost else agent_copy",
      "        return new_agent if new_agent.cost <= agent_copy.cost else agent_copy", "C16.R3"),
    V("greedy-wrong-way-round", _A, "        return new_agent if new_agent.cost < agent_copy.cost else agent_copy",
      "        return agent_copy if new_agent.cost < agent_copy.cost else new_agent", "C16.R3"),
    V("sort-and-trim-tail", _H, "    return sort_by_cost(population)[:population_size]", "    return sort_by_cost(population)[-population_size:]", "C16.R1"),
    V("special-agents-swapped", _H, "    return best, worst", "    return worst, best", "C16.R1"),
    V("special-agents-drops-direction", _H, "        worst = worst_agents(population, n_worst, task_type)", "        worst = worst_agents(population, n_worst)", "C16.R1"),
    V("greedy-population-unsorted-new", _A, "        new_population = sort_by_cost(new_population)\n", "", "C16.R4"),
    V("greedy-population-shifted-pairing", _A,
      "                self._greedy_select_agent(agent, new_population[idx]) for idx, agent in enumerate(self._population)",
      "                self._greedy_select_agent(agent, new_population[idx - 1]) for idx, agent in enumerate(self._population)", "C16.R4"),
    V("bat-override-accepts-equal", _BAT, "new_agent.cost < agent.cost", "new_agent.cost <= agent.cost", "C16.R3"),
    V("trim-with-wrong-size", _A, "        self._population = sort_and_trim(new_population, self._config.population_size)",
      "        self._population = sort_and_trim(new_population, len(new_population))", "C16.R5"),
    V("best-agent-uses-worst", _H, "    b_agent, = best_agents(population, 1, task_type)", "    b_agent, = worst_agents(population, 1, task_type)", "C16.R1"),
    # twins
    V("twin-sorted-builtin", _H, "    pop_new = population.copy()\n    pop_new.sort(key=lambda agent: agent.cost, reverse=(task_type == TaskType.MAX))\n    return pop_new",
      "    return sorted(population, key=lambda agent: agent.cost, reverse=(task_type == TaskType.MAX))", None),
    V("twin-greedy-mirrored-compare", _A, "        return new_agent if new_agent.cost < agent_copy.cost else agent_copy",
      "        return agent_copy if agent_copy.cost <= new_agent.cost else new_agent", None),
    V("twin-greedy-if-style", _A, "        return new_agent if new_agent.cost < agent_copy.cost else agent_copy",
      "        if new_agent.cost < agent_copy.cost:\n            return new_agent\n        return agent_copy", None),
]


def selftest(res: Result, tier: str, seed: int) -> None:
    run_battery(__name__, VARIANTS, res, tier, seed)
