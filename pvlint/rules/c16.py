"""C16 - selection helpers return exactly what is asked: ORD abstract evaluation against a spec table."""
from __future__ import annotations

import ast
from dataclasses import replace

from ..alias import MUTATORS, AliasCtx
from ..callgraph import Resolver, own_nodes
from ..flow import origin, returns_of
from ..guard import closed_world
from ..model import PKG, FuncInfo, Program, construct_key, dotted, norm, parent
from ..ord import E, L, OrdDeviation, OrdUnknown, Scalar, Tup, evaluate
from ..report import Finding, Result
from ..sgn import MAX, MIN

EXPLANATION = (
    "Order/window abstract interpretation: each of the 12 ranking helpers of helpers.py is evaluated symbolically for "
    "direction MIN and MAX over the domain (source list, objects|indexes, ORIG|ASC|DESC, ALL|FIRST(n)|LAST(n), fresh) "
    "and compared with the specification table (best = FIRST(n) of the direction's order, worst = LAST(n), index "
    "variants agree with object variants, sort_and_trim = FIRST(k) of ASC, special_agents = (best, worst) with the same "
    "direction, [] for an absent count, ValueError when both are absent). Non-mutation: the only in-place sort is "
    "applied to a fresh copy and no helper parameter is the target of a store or mutating call. Greedy replacement: "
    "_greedy_select_agent and each override return the challenger only on a path whose condition contains the strict "
    "`challenger.cost < incumbent.cost`, else the incumbent or a non-core copy of it; _greedy_select_population sorts "
    "both lists ascending and pairs by index in both modes; the trim helpers keep FIRST(population_size) of ASC. "
    "Order-theoretic content is decided completely, trusting Python's sort."
)
ASSUMPTIONS = ["list.sort / sorted are stable ascending sorts by key; slicing semantics", "NaN/inf comparisons not decided",
               "closed-world guard R0"]
TRUSTED = ["python ast", "ORD specification table (DESIGN appendix C)"]

ABSTRACT = f"{PKG}.abstract.OptimizationAbstract"
HELP = f"{PKG}.helpers"


def order_for(direction):
    return "ASC" if direction == MIN else "DESC"


def spec(name, direction):
    o = order_for(direction)
    t = {
        "sort_by_cost": L("population", "objs", o, ("ALL",), True),
        "sort_by_cost_indexes": L("population", "idx", o, ("ALL",), True),
        "best_agents": L("population", "objs", o, ("FIRST", "n_best"), True),
        "best_agents_indexes": L("population", "idx", o, ("FIRST", "n_best"), True),
        "worst_agents": L("population", "objs", o, ("LAST", "n_worst"), True),
        "worst_agents_indexes": L("population", "idx", o, ("LAST", "n_worst"), True),
        "best_agent": E("population", "objs", o, "first"),
        "best_agent_index": E("population", "idx", o, "first"),
        "worst_agent": E("population", "objs", o, "last"),
        "worst_agent_index": E("population", "idx", o, "last"),
        "special_agents": Tup((L("population", "objs", o, ("FIRST", "n_best"), True),
                               L("population", "objs", o, ("LAST", "n_worst"), True))),
    }
    return t[name]


def pinned(v, pins: dict):
    """the specified value on a path where some counts are pinned to a literal (`if n_best == 1:`)"""
    if not pins:
        return v
    if isinstance(v, L) and len(v.window) == 2 and v.window[1] in pins:
        return replace(v, window=(v.window[0], pins[v.window[1]]))
    if isinstance(v, Tup):
        return Tup(tuple(pinned(x, pins) for x in v.items))
    return v


def canon(v):
    """Equivalences that do not change the specified observable."""
    if isinstance(v, L) and len(v.window) == 2 and v.window[1] == "1" and v.window[0] in ("FIRST", "LAST") and v.order == "DESC":
        # the one most extreme element: first of DESC == last of ASC
        return replace(v, order="ASC", window=("LAST" if v.window[0] == "FIRST" else "FIRST", "1"))
    if isinstance(v, E):
        # first of DESC == last of ASC (any extremal element satisfies the statement)
        if v.order == "DESC":
            return E(v.src, v.kind, "ASC", "last" if v.at == "first" else "first")
        return v
    if isinstance(v, Tup):
        return Tup(tuple(canon(x) for x in v.items))
    return v


def show(v):
    if isinstance(v, (L, E)):
        return v.show() + (" (fresh)" if getattr(v, "fresh", False) else "")
    if isinstance(v, Tup):
        return "(" + ", ".join(show(x) for x in v.items) + ")"
    return str(v)


def run(prog: Program, res: Result) -> None:
    P = "C16"
    res.rules = ["R1 helper result == spec (ORD) for MIN and MAX", "R2 helpers never mutate / reorder their argument",
                 "R3 greedy agent selection keeps the incumbent unless the challenger is strictly cheaper",
                 "R4 greedy population selection: both sorted ascending, paired by index", "R5 trim helpers"]
    res.undecided = ["NaN / +-inf comparisons inside sort (numeric)"]
    closed_world(prog, res)
    hmod = prog.modules[HELP]
    n_eval = 0
    for name in ("sort_by_cost", "sort_by_cost_indexes", "best_agents", "best_agents_indexes", "worst_agents",
                 "worst_agents_indexes", "best_agent", "best_agent_index", "worst_agent", "worst_agent_index", "special_agents"):
        fi = prog.func(f"{HELP}.{name}")
        for direction in (MIN, MAX):
            n_eval += 1
            try:
                got, ev = evaluate(prog, name, direction,
                                   ok=lambda g, pins, _n=name, _d=direction: canon(pinned(g, pins)) == canon(pinned(spec(_n, _d), pins)))
            except OrdDeviation as exc:
                res.ob(False)
                res.add(Finding(P, "C16.R1-helper-spec", f"helpers.{name}::{direction}", fi.loc(),
                                f"helpers.{name} under direction {direction} does not rank by cost: {exc}"))
                continue
            except OrdUnknown as exc:
                res.errors.append(f"ORD cannot evaluate helpers.{name}: {exc}")
                continue
            from ..ord import pins_of
            pins_ = pins_of(ev.path)
            want = pinned(spec(name, direction), pins_)
            ok = canon(pinned(got, pins_)) == canon(want)
            # a windowed/ordered list must be fresh (not the caller's list)
            res.ob(ok, f"{name}[{direction}] = {show(got)}", f"{name}:{direction}")
            if not ok:
                when = (" when " + " and ".join(f"`{t}` {'holds' if b else 'does not hold'}" for (t, b) in ev.path)) if ev.path else ""
                res.add(Finding(P, "C16.R1-helper-spec", f"helpers.{name}::{direction}", fi.loc(),
                                f"helpers.{name} under direction {direction} returns {show(got)}{when}; specified: {show(want)}"))
            for (f2, node, msg) in ev.mutated_params:
                res.add(Finding(P, "C16.R2-argument-not-mutated", construct_key(prog, node, f2.module),
                                f"{f2.module.relpath}:{node.lineno}", f"helpers.{f2.name}: {msg}"))
    # sort_and_trim (no direction)
    fi = prog.func(f"{HELP}.sort_and_trim")
    try:
        want = L("population", "objs", "ASC", ("FIRST", "population_size"), True)
        got, ev = evaluate(prog, "sort_and_trim", MIN, ok=lambda g: g == want)
        ok = got == want
        n_eval += 1
        res.ob(ok, f"sort_and_trim = {show(got)}", "sort_and_trim")
        if not ok:
            res.add(Finding(P, "C16.R1-helper-spec", "helpers.sort_and_trim::MIN", fi.loc(),
                            f"helpers.sort_and_trim returns {show(got)}; specified: {show(want)}"))
        for (f2, node, msg) in ev.mutated_params:
            res.add(Finding(P, "C16.R2-argument-not-mutated", construct_key(prog, node, f2.module),
                            f"{f2.module.relpath}:{node.lineno}", f"helpers.{f2.name}: {msg}"))
    except OrdDeviation as exc:
        res.ob(False)
        res.add(Finding(P, "C16.R1-helper-spec", "helpers.sort_and_trim::MIN", fi.loc(), f"helpers.sort_and_trim does not rank by cost: {exc}"))
    except OrdUnknown as exc:
        res.errors.append(f"ORD cannot evaluate helpers.sort_and_trim: {exc}")
    # special_agents with absent counts
    sa = prog.func(f"{HELP}.special_agents")
    for absent, label in (({"n_best": "None"}, "n_best absent"), ({"n_worst": "None"}, "n_worst absent"),
                          ({"n_best": "None", "n_worst": "None"}, "both absent")):
        try:
            got, _ = evaluate(prog, "special_agents", MIN, absent)
        except OrdDeviation:
            continue      # already reported for the fully specified call
        except OrdUnknown as exc:
            res.errors.append(f"ORD cannot evaluate helpers.special_agents ({label}): {exc}")
            continue
        n_eval += 1
        if len(absent) == 2:
            ok = isinstance(got, tuple) and got and got[0] == "RAISE" and "ValueError" in got[1]
        else:
            idx = 0 if "n_best" in absent else 1
            ok = isinstance(got, Tup) and isinstance(got.items[idx], L) and got.items[idx].src == "<empty>" \
                and isinstance(got.items[1 - idx], L) and got.items[1 - idx].src == "population"
        res.ob(ok, f"special_agents[{label}] = {show(got)}", f"special_agents:{label}")
        if not ok:
            res.add(Finding(P, "C16.R1-helper-spec", f"helpers.special_agents::{label}", sa.loc(),
                            f"special_agents with {label} returns {show(got)}"))
    res.count("ORD-evaluations", n_eval)
    res.floor("ORD-evaluations", 26)

    # R2: no helper writes through a parameter
    resolver = Resolver(prog, None)
    for f in hmod.functions.values():
        params = set(f.params)

        def is_root(fi2: FuncInfo, e: ast.AST, params=params):
            if isinstance(e, ast.Name) and e.id in params and isinstance(e.ctx, ast.Load):
                return "param"
            return None
        actx = AliasCtx(resolver, is_root)
        for n in own_nodes(f):
            bad = None
            if isinstance(n, (ast.Attribute, ast.Subscript)) and isinstance(n.ctx, (ast.Store, ast.Del)):
                r = _rooted_param(f, n.value, params)
                if r:
                    bad = f"store `{norm(parent(n), 70)}` through parameter `{r}`"
            elif isinstance(n, ast.Call) and isinstance(n.func, ast.Attribute) and n.func.attr in MUTATORS:
                r = _rooted_param(f, n.func.value, params)
                if r:
                    bad = f"mutating call `{norm(n, 70)}` on parameter `{r}`"
            if bad:
                res.ob(False)
                res.add(Finding(P, "C16.R2-argument-not-mutated", construct_key(prog, n, hmod), f"{hmod.relpath}:{n.lineno}",
                                f"helpers.{f.name}: {bad}"))
        res.ob(True, None, f"helpers.{f.name}:params-untouched")

    # R3 greedy agent selection (base + overrides)
    impls = [prog.func(f"{ABSTRACT}._greedy_select_agent")]
    for ci in prog.subclasses(ABSTRACT):
        if "_greedy_select_agent" in ci.methods:
            impls.append(ci.methods["_greedy_select_agent"])
    res.count("greedy-agent-implementations", len(impls))
    res.floor("greedy-agent-implementations", 3)
    for f in impls:
        for (rule, node, msg) in check_greedy_agent(f):
            res.ob(False)
            res.add(Finding(P, f"C16.R3-{rule}", construct_key(prog, node, f.module), f"{f.module.relpath}:{node.lineno}",
                            f"{f.qualname}: {msg}"))
        res.ob(True, f"{f.loc()} {f.qualname}: challenger only under strict `<`", f"{f.qualname}")

    # R4 / R5 base population helpers
    for (rule, node, msg) in check_population_helpers(prog):
        f = prog.func(f"{ABSTRACT}._greedy_select_population")
        if rule == "UNDECIDED":
            res.errors.append(msg + " (undecided)")
            continue
        res.ob(False)
        res.add(Finding(P, f"C16.{rule}", construct_key(prog, node, f.module), f"{f.module.relpath}:{node.lineno}", msg))
    res.ob(True, "base population helpers: sorted-ascending pairing, extend+trim, replace+trim", "population-helpers")
    for ci in prog.subclasses(ABSTRACT):
        for m in ("_greedy_select_population", "_extend_and_trim_population", "_replace_and_trim_population"):
            if m in ci.methods:
                f = ci.methods[m]
                res.add(Finding(P, "C16.R4-sealed", construct_key(prog, f.node, f.module), f.loc(),
                                f"{ci.name} overrides {m}; the base implementation is the one analysed"))


def _rooted_param(fi: FuncInfo, e: ast.AST, params: set):
    cur = e
    while isinstance(cur, (ast.Attribute, ast.Subscript, ast.Starred)):
        cur = cur.value
    if isinstance(cur, ast.Name) and cur.id in params:
        # rebound locally before?  `population = population.copy()` style makes it a fresh local
        from ..flow import reaching_def
        rd = reaching_def(fi.node, cur, cur.id)
        if rd is not None and rd[2] == "assign":
            v = rd[1]
            if isinstance(v, ast.Call):
                return None
        return cur.id
    return None


# ---------------------------------------------------------------------------------------------

def check_greedy_agent(f: FuncInfo) -> list:
    """Every return of the challenger happens on a path whose condition implies the strict `challenger.cost < incumbent.cost`
    (propositional implication over canonical atoms; copies of the incumbent count as the incumbent); every other return is the
    incumbent or a copy of it."""
    from ..sem import implies, path_conditions
    out = []
    if len(f.params) < 3:
        return [("greedy-shape", f.node, "signature is not (self, incumbent, challenger)")]
    inc, ch = f.params[1], f.params[2]
    inc_names = {inc}
    env = {}
    changed = True
    while changed:
        changed = False
        for n in own_nodes(f):
            tgt = val = None
            if isinstance(n, ast.Assign) and len(n.targets) == 1 and isinstance(n.targets[0], ast.Name):
                tgt, val = n.targets[0].id, n.value
            elif isinstance(n, ast.AnnAssign) and isinstance(n.target, ast.Name) and n.value is not None:
                tgt, val = n.target.id, n.value
            if tgt is None:
                continue
            if tgt in (inc, ch):
                out.append(("greedy-shape", n, f"parameter `{tgt}` is rebound"))
                return out
            is_copy = isinstance(val, ast.Call) and isinstance(val.func, ast.Attribute) and val.func.attr == "model_copy" \
                and isinstance(val.func.value, ast.Name) and val.func.value.id in inc_names
            if (is_copy or (isinstance(val, ast.Name) and val.id in inc_names)) and tgt not in inc_names:
                inc_names.add(tgt)
                changed = True
            elif tgt not in inc_names and tgt not in env:
                env[tgt] = val          # e.g. `challenger_wins = new.cost < old.cost`
                changed = True
    # aliases of the incumbent have the incumbent's cost
    for a in inc_names - {inc}:
        env[a] = ast.Name(id=inc, ctx=ast.Load())
    goal = ast.parse(f"{ch}.cost < {inc}.cost", mode="eval").body

    def classify(e):
        if isinstance(e, ast.Name):
            if e.id == ch:
                return "ch"
            if e.id in inc_names:
                return "inc"
            if e.id in env and isinstance(env[e.id], ast.AST):
                return classify(env[e.id])
            return "other"
        if isinstance(e, ast.Call) and isinstance(e.func, ast.Attribute) and e.func.attr == "model_copy" and isinstance(e.func.value, ast.Name):
            return "ch" if e.func.value.id == ch else "inc" if e.func.value.id in inc_names else "other"
        return "other"

    def leaves(e, extra):
        """(leaf expression, extra conditions) through conditional expressions"""
        if isinstance(e, ast.IfExp):
            yield from leaves(e.body, extra + [(e.test, True)])
            yield from leaves(e.orelse, extra + [(e.test, False)])
        elif isinstance(e, ast.Name) and e.id in env and isinstance(env[e.id], ast.IfExp):
            yield from leaves(env[e.id], extra)
        else:
            yield e, extra
    rets = returns_of(f.node)
    if not rets:
        return [("greedy-shape", f.node, "no return")]
    for r in rets:
        if r.value is None:
            out.append(("greedy-shape", r, "returns None"))
            continue
        base = path_conditions(f.node, r)
        for leaf, extra in leaves(r.value, []):
            k = classify(leaf)
            if k == "other":
                out.append(("greedy-shape", r, f"returns `{norm(leaf, 60)}`, neither the incumbent (or a copy) nor the challenger"))
            elif k == "ch":
                try:
                    ok = implies(base + extra, goal, env)
                except Exception:
                    ok = False
                if not ok:
                    shown = [("" if p else "not ") + norm(t, 50) for t, p in base + extra] or ["unconditionally"]
                    out.append(("greedy-strict", r,
                                f"returns the challenger `{ch}` on a path whose condition does not imply the strict "
                                f"`{ch}.cost < {inc}.cost` (path: {shown})"))
    for n in own_nodes(f):
        if isinstance(n, (ast.For, ast.While, ast.Try)):
            out.append(("greedy-shape", n, f"control flow `{type(n).__name__}` not understood"))
    return out


def check_population_helpers(prog: Program, size_only: bool = False) -> list:
    """size_only (C10): only what determines the *number* of agents is required (extra ranking arguments are tolerated)."""
    from ..flow import origin, reaching_def
    from ..sem import Sem
    sem = Sem(prog, prog.cls(ABSTRACT))
    out = []
    g = prog.func(f"{ABSTRACT}._greedy_select_population")
    newp = g.params[1] if len(g.params) > 1 else None
    SBC = f"{PKG}.helpers.sort_by_cost"
    SAT = f"{PKG}.helpers.sort_and_trim"

    def sorted_of(e, what) -> bool:
        """e is sort_by_cost(<what>) with the default direction (through local names)"""
        e = origin(g.node, e) if isinstance(e, ast.Name) else e
        if sem.is_call_to(g, e, SBC):
            a = sem.args(g, e)
            src = a.get("population")
            return src is not None and dotted(src) == what and ("task_type" not in a or size_only)
        if isinstance(e, ast.Call) and isinstance(e.func, ast.Name) and e.func.id == "sorted" and e.args and dotted(e.args[0]) == what:
            return True
        return False
    pairs = []
    for n in own_nodes(g):
        if isinstance(n, ast.ListComp) and len(n.generators) == 1:
            gen = n.generators[0]
            it = gen.iter
            e = n.elt
            args = None
            if isinstance(e, ast.Call) and dotted(e.func) == "self._greedy_select_agent":
                args = list(e.args) + [k.value for k in e.keywords]
            elif isinstance(e, ast.Call) and isinstance(e.func, ast.Attribute) and e.func.attr == "submit" and e.args \
                    and dotted(e.args[0]) == "self._greedy_select_agent":
                args = list(e.args[1:]) + [k.value for k in e.keywords]
            if args is None:
                continue
            pairs.append((n, gen, args))
    if len(pairs) != 2:
        out.append(("R4-greedy-population-pairing", g.node, f"{len(pairs)} pairing comprehensions found, expected serial + pooled"))
    for (n, gen, args) in pairs:
        it = gen.iter
        ok = False
        inc_src = ch_src = None
        if isinstance(it, ast.Call) and isinstance(it.func, ast.Name) and it.func.id == "enumerate" and len(it.args) == 1 \
                and isinstance(gen.target, ast.Tuple) and len(gen.target.elts) == 2 and not gen.ifs and len(args) == 2:
            idx, ag = gen.target.elts[0].id, gen.target.elts[1].id
            inc_src = it.args[0]
            if isinstance(args[0], ast.Name) and args[0].id == ag and isinstance(args[1], ast.Subscript) \
                    and isinstance(args[1].slice, ast.Name) and args[1].slice.id == idx:
                ch_src = args[1].value
                ok = True
        elif isinstance(it, ast.Call) and isinstance(it.func, ast.Name) and it.func.id == "zip" and len(it.args) == 2 \
                and isinstance(gen.target, ast.Tuple) and len(gen.target.elts) == 2 and not gen.ifs and len(args) == 2:
            a, b = gen.target.elts[0].id, gen.target.elts[1].id
            if isinstance(args[0], ast.Name) and args[0].id == a and isinstance(args[1], ast.Name) and args[1].id == b:
                inc_src, ch_src = it.args
                ok = True
        elif isinstance(it, ast.Call) and isinstance(it.func, ast.Name) and it.func.id == "range" and isinstance(gen.target, ast.Name) \
                and not gen.ifs and len(args) == 2 and all(isinstance(a_, ast.Subscript) and isinstance(a_.slice, ast.Name)
                                                           and a_.slice.id == gen.target.id for a_ in args) \
                and (len(it.args) == 1 or (len(it.args) == 2 and isinstance(it.args[0], ast.Constant) and it.args[0].value == 0)):
            # X[i], Y[i] for i in range(0, len(X)): the same pairing by index
            bound = it.args[-1]
            if isinstance(bound, ast.Call) and isinstance(bound.func, ast.Name) and bound.func.id == "len" and len(bound.args) == 1 \
                    and dotted(bound.args[0]) is not None and dotted(bound.args[0]) == dotted(args[0].value):
                inc_src, ch_src = args[0].value, args[1].value
                ok = True
        if not ok:
            out.append(("R4-greedy-population-pairing", n, f"`{norm(n, 90)}` does not pair incumbent k with challenger k"))
            continue
        # incumbents: the live population, sorted ascending at that point; challengers: the new population sorted ascending
        def reaches_sorted(src, what, before=None):
            if dotted(src) == "self._population" and what == "self._population":
                # the field must have been assigned sort_by_cost(self._population) earlier in the function (before the field
                # was read into a local alias, when it is read through one)
                limit = before if before is not None else n.lineno
                return any(isinstance(m, ast.Assign) and len(m.targets) == 1 and dotted(m.targets[0]) == "self._population"
                           and m.lineno < limit and sorted_of(m.value, "self._population") for m in own_nodes(g))
            if isinstance(src, ast.Name):
                rd = reaching_def(g.node, src, src.id)
                if rd is None:
                    # a = b = E: one chained assignment binding the name, and no other store of it
                    chained = [m for m in own_nodes(g) if isinstance(m, ast.Assign) and len(m.targets) > 1
                               and any(isinstance(t_, ast.Name) and t_.id == src.id for t_ in m.targets)]
                    stores = [x for x in own_nodes(g) if isinstance(x, ast.Name) and x.id == src.id and isinstance(x.ctx, ast.Store)]
                    if len(chained) == 1 and len(stores) == 1 and chained[0].lineno < n.lineno:
                        rd = (chained[0], chained[0].value, "assign")
                if rd is not None and rd[2] == "assign":
                    return sorted_of(rd[1], what) or (isinstance(rd[1], ast.Name) and reaches_sorted(rd[1], what)) \
                        or (what == "self._population" and dotted(rd[1]) == "self._population"
                            and reaches_sorted(rd[1], what, before=rd[0].lineno))
            return sorted_of(src, what)
        if not size_only:
            if not reaches_sorted(inc_src, "self._population"):
                out.append(("R4-greedy-population-sorted", n, "the incumbents are not the current population sorted ascending by cost"))
            if not reaches_sorted(ch_src, newp):
                out.append(("R4-greedy-population-sorted", n, "the challengers are not the new population sorted ascending by cost"))
        if dotted(inc_src) != "self._population" and not (isinstance(inc_src, ast.Name) and reaches_sorted(inc_src, "self._population")):
            out.append(("R4-greedy-population-pairing", n, "the pairing does not range over every member of the current population"))
    # R5 trims
    e = prog.func(f"{ABSTRACT}._extend_and_trim_population")
    ep = e.params[1]
    ext = [n for n in own_nodes(e) if isinstance(n, ast.Call) and dotted(n.func) == "self._population.extend"
           and len(n.args) == 1 and dotted(n.args[0]) == ep]
    ext += [n for n in own_nodes(e) if isinstance(n, ast.AugAssign) and dotted(n.target) == "self._population" and dotted(n.value) == ep]

    undecided = []

    def trim_of(fi, what):
        """assignments `self._population = <the population_size cheapest of `what`, ascending>`, decided by the ORD
        interpreter on the assigned expression (sort_and_trim(..), sort_by_cost(..)[:k], sorted(.., key=cost)[:k], ..)"""
        import copy as _copy
        from ..ord import Evaluator as _Ev, L as _L, OrdDeviation as _Dev, OrdUnknown as _Unk
        from ..sgn import MIN as _MIN
        hits = []
        for n in own_nodes(fi):
            if not (isinstance(n, ast.Assign) and len(n.targets) == 1 and dotted(n.targets[0]) == "self._population"):
                continue
            # locals bound once to the configured size (`max_size = self._config.population_size`) are that size
            omap = {}
            for nn in ast.walk(n.value):
                if isinstance(nn, ast.Name) and isinstance(nn.ctx, ast.Load) and nn.id not in fi.params:
                    o_ = origin(fi.node, nn)
                    if o_ is not nn and isinstance(o_, (ast.Attribute, ast.Name, ast.Constant)):
                        omap[nn.id] = o_

            class _O(ast.NodeTransformer):
                def visit_Name(self, nn):
                    if isinstance(nn.ctx, ast.Load) and nn.id in omap:
                        return ast.copy_location(_copy.deepcopy(omap[nn.id]), nn)
                    return nn
            val = _O().visit(_copy.deepcopy(n.value))

            class _R(ast.NodeTransformer):
                def visit_Attribute(self, a):
                    if dotted(a) == "self._population":
                        return ast.copy_location(ast.Name(id="__pop__", ctx=ast.Load()), a)
                    if dotted(a) == "self._config.population_size":
                        return ast.copy_location(ast.Name(id="__size__", ctx=ast.Load()), a)
                    if dotted(a) in ("self._task.minmax", "task.minmax"):
                        return ast.copy_location(ast.Name(id="__dir__", ctx=ast.Load()), a)
                    return self.generic_visit(a)
            val = ast.fix_missing_locations(_R().visit(val))
            from ..ord import Scalar as _Sc
            env = {"__pop__": _L("self._population"), "__size__": _Sc("self._config.population_size")}
            for p_ in fi.params[1:]:
                env[p_] = _L(p_)
            uses_dir = any(isinstance(x_, ast.Name) and x_.id == "__dir__" for x_ in ast.walk(val))
            from ..sgn import MAX as _MAX
            verdicts = []
            for d_ in ((_MIN, _MAX) if uses_dir else (_MIN,)):
                # the task's own direction may be either; internal costs are always minimised, so the trim must keep the
                # cheapest agents whichever it is
                env_d = dict(env)
                env_d["__dir__"] = ("DIR", d_)
                try:
                    got = _Ev(prog, _MIN).expr(fi, val, env_d)
                except _Dev as exc:
                    out.append(("R5-extend-and-trim" if fi is e else "R5-replace-and-trim", n, f"`{norm(n, 70)}`: {exc}"))
                    verdicts.append("bad")
                    continue
                except _Unk as exc:
                    undecided.append(f"{fi.name}: `{norm(n, 70)}` is not understood by the ORD interpreter ({exc})")
                    verdicts.append("unk")
                    continue
                if isinstance(got, _L) and got.src == what and got.window == ("FIRST", "self._config.population_size") \
                        and (size_only or got.order == "ASC"):
                    verdicts.append("ok")
                elif isinstance(got, _L):
                    out.append(("R5-extend-and-trim" if fi is e else "R5-replace-and-trim", n,
                                f"`{norm(n, 70)}` keeps {got.show()}" + (f" when the task direction is {d_}" if uses_dir else "")
                                + f", not the population_size cheapest agents of `{what}`"))
                    verdicts.append("bad")
                else:
                    undecided.append(f"{fi.name}: `{norm(n, 70)}` evaluates to {got}")
                    verdicts.append("unk")
            if verdicts and all(v_ == "ok" for v_ in verdicts):
                hits.append(n)
        return hits
    n_before = len(out)
    trim = trim_of(e, "self._population")
    if (len(ext) != 1 or len(trim) != 1 or ext[0].lineno > trim[0].lineno) and len(out) == n_before and not undecided:
        out.append(("R5-extend-and-trim", e.node, "_extend_and_trim_population is not extend(new) followed by sort_and_trim(population, population_size)"))
    r = prog.func(f"{ABSTRACT}._replace_and_trim_population")
    n_before = len(out)
    n_und = len(undecided)
    trim = trim_of(r, r.params[1])
    if len(trim) != 1 and len(out) == n_before and len(undecided) == n_und:
        out.append(("R5-replace-and-trim", r.node, "_replace_and_trim_population is not sort_and_trim(new, population_size)"))
    for u in undecided:
        out.append(("UNDECIDED", e.node, u))
    return out


# ---------------------------------------------------------------------------------------------
from ..selftest import V, run_battery  # noqa: E402

_H = "pyvolutionary/helpers.py"
_A = "pyvolutionary/abstract.py"
_BAT = "pyvolutionary/bat/bat_optimization.py"
VARIANTS = [
    V("best-takes-tail", _H, "    return sort_by_cost(population, task_type=task_type)[:n_best]",
      "    return sort_by_cost(population, task_type=task_type)[len(population)-n_best:]", "C16.R1"),
    V("worst-neg-slice", _H, "    return sort_by_cost(population, task_type=task_type)[len(population)-n_worst:]",
      "    return sort_by_cost(population, task_type=task_type)[-n_worst:]", "C16.R1"),
    V("sort-ignores-direction", _H, "    pop_new.sort(key=lambda agent: agent.cost, reverse=(task_type == TaskType.MAX))",
      "    pop_new.sort(key=lambda agent: agent.cost)", "C16.R1"),
    V("sort-direction-inverted", _H, "reverse=(task_type == TaskType.MAX))", "reverse=(task_type == TaskType.MIN))", "C16.R1"),
    V("sort-in-place", _H, "    pop_new = population.copy()\n    pop_new.sort(", "    pop_new = population\n    pop_new.sort(", "C16.R2"),
    V("indexes-not-reversed-for-max", _H, "    if task_type == TaskType.MAX:\n        result = result[::-1]\n", "", "C16.R1"),
    V("greedy-non-strict", _A, "        return new_agent if new_agent.cost < agent_copy.cost else agent_copy",
      "        return new_agent if new_agent.cost <= agent_copy.cost else agent_copy", "C16.R3"),
    V("greedy-wrong-way-round", _A, "        return new_agent if new_agent.cost < agent_copy.cost else agent_copy",
      "        return agent_copy if new_agent.cost < agent_copy.cost else new_agent", "C16.R3"),
    V("sort-and-trim-tail", _H, "    return sort_by_cost(population)[:population_size]", "    return sort_by_cost(population)[-population_size:]", "C16.R1"),
    V("special-agents-swapped", _H, "    return best, worst", "    return worst, best", "C16.R1"),
    V("special-agents-drops-direction", _H, "        worst = worst_agents(population, n_worst, task_type)", "        worst = worst_agents(population, n_worst)", "C16.R1"),
    V("greedy-population-unsorted-new", _A, "        new_population = sort_by_cost(new_population)\n", "", "C16.R4"),
    V("greedy-population-shifted-pairing", _A,
      "                self._greedy_select_agent(agent, new_population[idx]) for idx, agent in enumerate(self._population)",
      "                self._greedy_select_agent(agent, new_population[idx - 1]) for idx, agent in enumerate(self._population)", "C16.R4"),
    V("bat-override-accepts-equal", _BAT, "new_agent.cost < agent.cost", "new_agent.cost <= agent.cost", "C16.R3"),
    V("trim-with-wrong-size", _A, "        self._population = sort_and_trim(new_population, self._config.population_size)",
      "        self._population = sort_and_trim(new_population, len(new_population))", "C16.R5"),
    V("best-agent-uses-worst", _H, "    b_agent, = best_agents(population, 1, task_type)", "    b_agent, = worst_agents(population, 1, task_type)", "C16.R1"),
    V("special-agents-fast-path-ignores-direction", _H, "        raise ValueError(\"Either n_best or n_worst must be provided\")\n\n    best = []", "        raise ValueError(\"Either n_best or n_worst must be provided\")\n\n    if n_best == 1 and n_worst == 1:\n        costs = [agent.cost for agent in population]\n        return [population[int(np.argmin(costs))]], [population[int(np.argmax(costs))]]\n\n    best = []", "C16.R1"),
    # twins
    V("twin-special-agents-fast-path", _H, "        raise ValueError(\"Either n_best or n_worst must be provided\")\n\n    best = []", "        raise ValueError(\"Either n_best or n_worst must be provided\")\n\n    if n_best == 1 and n_worst == 1:\n        costs = [agent.cost for agent in population]\n        lo = population[int(np.argmin(costs))]\n        hi = population[int(np.argmax(costs))]\n        if task_type == TaskType.MAX:\n            return [hi], [lo]\n        return [lo], [hi]\n\n    best = []", None),
    V("twin-sorted-builtin", _H, "    pop_new = population.copy()\n    pop_new.sort(key=lambda agent: agent.cost, reverse=(task_type == TaskType.MAX))\n    return pop_new",
      "    return sorted(population, key=lambda agent: agent.cost, reverse=(task_type == TaskType.MAX))", None),
    V("twin-greedy-mirrored-compare", _A, "        return new_agent if new_agent.cost < agent_copy.cost else agent_copy",
      "        return agent_copy if agent_copy.cost <= new_agent.cost else new_agent", None),
    V("twin-greedy-if-style", _A, "        return new_agent if new_agent.cost < agent_copy.cost else agent_copy",
      "        if new_agent.cost < agent_copy.cost:\n            return new_agent\n        return agent_copy", None),
]


def selftest(res: Result, tier: str, seed: int) -> None:
    run_battery(__name__, VARIANTS, res, tier, seed)
