"""C02 - cost and fitness are those of the reported position: pairing clause + sign parity + idempotence."""
from __future__ import annotations

import ast

from .. import agents, chain, packaging, variables
from ..guard import closed_world
from ..model import PKG, Program, construct_key, norm
from ..report import Finding, Result
from .c01 import apply_agent_facts

EXPLANATION = (
    "Pairing invariant: in the root constructor the name evaluated by _fcn and the name stored as position= are the "
    "same definition (the output of initial_solution), cost= is that _fcn result (optionally np.dot with the weights "
    "under the `is not None` guard) and fitness= is calculate_fitness of that cost with the task direction; all other "
    "agent generators copy the triple unchanged (C01 rules 2-5: copy idiom, non-core model_copy, no core store, no "
    "in-place position change, overrides built from super()._init_agent). Sign parity: _fcn and the two restoration "
    "closures are partially evaluated under MIN and MAX and must compose to the identity, by copy. Double correction: "
    "the stored position passes correct_solution once, the evaluated one twice (solve corrects again), so every "
    "Variable.correct must be idempotent - decided by composition of primitives (clip/float/int/delegation idempotent, "
    "argsort not)."
)
ASSUMPTIONS = ["deterministic user objective", "np.dot / pydantic summaries (DESIGN 3.6)", "closed-world guard R0"]
TRUSTED = ["python ast", "idempotence primitive table (DESIGN appendix C)"]


def run(prog: Program, res: Result) -> None:
    P = "C02"
    res.rules = ["R1 root pairing (position/_fcn argument/cost/fitness)", "R2 generators preserve the triple (ORG)",
                 "R3 sign parity in/out (SGN) and packaging", "R4 every Variable.correct idempotent (double correction)"]
    res.undecided = ["the fitness formula itself (numeric identity)", "float determinism of the objective", "np.dot semantics"]
    closed_world(prog, res)
    facts = agents.scan(prog)
    res.count("agent-constructions", facts.constructions)
    res.count("copy-idiom-constructions", facts.copy_idiom)
    res.floor("agent-constructions", 100)
    res.floor("copy-idiom-constructions", 100)
    n_ok = facts.copy_idiom + facts.model_copies + facts.core_store_sites_examined + facts.position_alias_sites
    res.obligations += n_ok
    res.discharged += n_ok
    res.constructs.update({f"site{i}" for i in range(n_ok)})
    res.samples.extend(facts.samples[:4])
    apply_agent_facts(prog, res, P, facts)
    fi = prog.func(agents.ROOT_FUNC)
    root_issues = agents.check_root(prog, facts)
    for (rule, node, msg) in root_issues:
        res.ob(False)
        res.add(Finding(P, f"C02.R1-{rule}", construct_key(prog, node, fi.module), f"{fi.module.relpath}:{node.lineno}", msg))
    if not root_issues:
        res.ob(True, f"{fi.loc()} root: position, _fcn(position), cost, fitness come from one definition each", "root")
    packaging.check_sign_parity(prog, res, P)
    packaging.check_packaging(prog, res, P)
    chain.check_solve(prog, res, P)
    chain.check_solve_returns_objective(prog, res, P)
    chain.check_initial_solution(prog, res, P)
    # calculate_fitness is a function of (cost, direction) only
    cf = prog.func(f"{PKG}.helpers.calculate_fitness")
    pure = all(not (isinstance(n, ast.Attribute) and isinstance(n.value, ast.Name) and n.value.id not in cf.params
                    and n.value.id not in ("TaskType", "np", "math"))
               for n in ast.walk(cf.node) if isinstance(n, ast.Attribute))
    res.ob(pure, f"{cf.loc()} calculate_fitness depends on its arguments only", "calculate_fitness")
    # ... and scores the cost in the user's sign: under MAX its value is what it returns under MIN for the negated argument
    # (internal costs of a maximisation task are negated; a reported agent carries the user-sign cost and this fitness)
    from ..sgn import MAX as _MAX, MIN as _MIN, Unknown as _SUnk, _subst as _ssub, eval_function as _evf
    vparam, dparam = (cf.params + [None, None])[:2]
    try:
        from ..sgn import _resolve_inside as _rin
        rmin = [_rin(r_, {dparam}, _MIN) if r_ is not None else None for r_ in _evf(cf.node, {dparam}, _MIN)]
        rmax = [_rin(r_, {dparam}, _MAX) if r_ is not None else None for r_ in _evf(cf.node, {dparam}, _MAX)]
        if len(rmin) == 1 and len(rmax) == 1 and rmin[0] is not None and rmax[0] is not None:
            neg = ast.UnaryOp(op=ast.USub(), operand=ast.Name(id=vparam, ctx=ast.Load()))
            want = _ssub(rmin[0], {vparam: neg})
            okf = norm(want, 600) == norm(rmax[0], 600)
            same = norm(rmin[0], 600) == norm(rmax[0], 600)
            res.ob(okf, f"{cf.loc()} calculate_fitness(v, MAX) == calculate_fitness(-v, MIN)", "calculate_fitness:direction")
            if not okf and same:
                res.add(Finding(P, "C02.R1-root-fitness", "helpers.calculate_fitness::direction", cf.loc(),
                                "calculate_fitness ignores the task direction: for a maximisation task the fitness is computed from the "
                                "internal (negated) cost, so it is not the fitness of the cost the agent reports"))
            elif not okf:
                res.note(f"{cf.loc()} calculate_fitness: the MAX branch `{norm(rmax[0], 80)}` is not recognised as the MIN branch applied "
                         f"to the negated value (the direction rule makes no claim)")
        elif len(rmin) == len(rmax) and all(r_ is not None for r_ in rmin + rmax):
            neg = ast.UnaryOp(op=ast.USub(), operand=ast.Name(id=vparam, ctx=ast.Load()))
            okf = all(norm(_ssub(a_, {vparam: neg}), 600) == norm(b_, 600) for a_, b_ in zip(rmin, rmax))
            same = all(norm(a_, 600) == norm(b_, 600) for a_, b_ in zip(rmin, rmax))
            if okf:
                res.ob(True, f"{cf.loc()} calculate_fitness(v, MAX) == calculate_fitness(-v, MIN) on each return path", "calculate_fitness:direction")
            elif same:
                res.ob(False)
                res.add(Finding(P, "C02.R1-root-fitness", "helpers.calculate_fitness::direction", cf.loc(),
                                "calculate_fitness ignores the task direction: for a maximisation task the fitness is computed from the "
                                "internal (negated) cost, so it is not the fitness of the cost the agent reports"))
            else:
                res.note(f"{cf.loc()} calculate_fitness: return paths not recognised (the direction rule makes no claim)")
        else:
            res.note(f"{cf.loc()} calculate_fitness: return paths differ between the directions (the direction rule makes no claim)")
    except _SUnk as exc:
        res.note(f"{cf.loc()} calculate_fitness: {exc} (the direction rule makes no claim)")
    if not pure:
        res.add(Finding(P, "C02.R1-root-fitness", "helpers.calculate_fitness::purity", cf.loc(),
                        "calculate_fitness reads state other than (value, task_type)"))
    # R4 idempotence
    vfs = variables.collect(prog)
    res.count("variable-kinds", len(vfs))
    res.floor("variable-kinds", 7)
    for name, vf in sorted(vfs.items()):
        f = vf.methods["correct"]
        if vf.correct_kind in ("unknown", "bad-delegate"):
            res.errors.append(f"{name}.correct has a shape the idempotence table does not cover: {vf.correct_detail}")
            continue
        ok = vf.idempotent is True
        if vf.idempotent is None:
            res.errors.append(f"{name}.correct ({vf.correct_kind}): idempotence undecided - the child kind's correct has a shape "
                              f"the idempotence table does not cover")
            continue
        res.ob(ok, f"{f.loc()} {name}.correct = {vf.correct_kind}: idempotent={vf.idempotent}", f"{name}.correct")
        if not ok:
            res.add(Finding(P, "C02.R4-correct-idempotent", f"models.{name}.correct::{vf.correct_kind}", f.loc(),
                            f"{name}.correct ({vf.correct_detail}) is not idempotent: _init_agent stores correct(p) but "
                            f"Task.solve evaluates correct(correct(p)), so the reported cost is not the objective at the "
                            f"reported position"))
        d = vf.methods["decode"]
        recorrect = [n for n in ast.walk(d.node) if isinstance(n, ast.Call) and isinstance(n.func, ast.Attribute)
                     and n.func.attr == "correct" and isinstance(n.func.value, ast.Name) and n.func.value.id == "self"]
        if recorrect:
            okd = vf.idempotent is True
            res.ob(okd, f"{d.loc()} {name}.decode re-applies correct", f"{name}.decode")
            if not okd:
                res.add(Finding(P, "C02.R4-decode-recorrects", f"models.{name}.decode::self.correct", d.loc(),
                                f"{name}.decode applies the non-idempotent correct() again: transform_solution(position) is "
                                f"not the solution whose cost is reported"))


# ---------------------------------------------------------------------------------------------
from ..selftest import V, run_battery  # noqa: E402

_W = "pyvolutionary/whales/whales_optimization.py"
_A = "pyvolutionary/abstract.py"
_M = "pyvolutionary/models.py"
_AGENT = "            agent = Whale(**self._init_agent(position).model_dump())\n"
_ANCHOR = "        leader_position = np.array(self._best_agent.position)\n"
_REFB = ("        def refine_best_solution(a: Agent, tt: TaskType) -> Agent:\n            if tt == TaskType.MIN:\n                return a\n"
         "            # return the agent with the position multiplied by -1\n            return a.model_copy(update={\"cost\": -a.cost})")
VARIANTS = [
    V("fitness-ignores-direction", "pyvolutionary/helpers.py", "    value = value if task_type == TaskType.MIN else -value\n", "", "C02.R1-root-fitness"),
    V("solve-replaces-nonfinite", "pyvolutionary/models.py", "        return self.objective_function(solution)",
      "        value = self.objective_function(solution)\n        if not isinstance(value, list) and not np.isfinite(value):\n            return float(np.finfo(float).max)\n        return value", "C02.chain.solve-returns"),
    V("twin-solve-through-local", "pyvolutionary/models.py", "        return self.objective_function(solution)",
      "        value = self.objective_function(solution)\n        return value", None),
    V("sign-slip-in-fcn", _A, "isinstance(value, list) else -value", "isinstance(value, list) else value", "C02.SGN-fcn"),
    V("sign-slip-list-branch-only", _A, "return [-v for v in value] if isinstance", "return [v for v in value] if isinstance", "C02.SGN-fcn"),
    V("restore-sign-in-population-only", _M, _REFB,
      "        def refine_best_solution(a: Agent, tt: TaskType) -> Agent:\n            return a", "C02.SGN-restore"),
    V("evaluate-before-correction", _A,
      "        position = self._task.initial_solution(position)\n        cost = self._fcn(position)\n",
      "        cost = self._fcn(position if position is not None else self._task.empty_solution())\n        position = self._task.initial_solution(position)\n",
      "C02.R1"),
    V("store-uncorrected-candidate", _A,
      "        position = self._task.initial_solution(position)\n        cost = self._fcn(position)\n",
      "        corrected = self._task.initial_solution(position)\n        cost = self._fcn(corrected)\n        position = corrected if position is None else list(position)\n",
      "C02.R1"),
    V("stale-cost-variable", _A,
      "        return Agent(position=position, cost=cost, fitness=calculate_fitness(cost, self._task.minmax))",
      "        best = self._best_agent.cost if self._best_agent is not None else cost\n        return Agent(position=position, cost=min(cost, best), fitness=calculate_fitness(cost, self._task.minmax))",
      "C02.R1"),
    V("fitness-from-other-value", _A, "fitness=calculate_fitness(cost, self._task.minmax))", "fitness=calculate_fitness(abs(cost), self._task.minmax))", "C02.R1-root-fitness"),
    V("second-kind-argsort", _M, "    def correct(self, value: float | int) -> float:\n        return float(np.clip(value, self.lower_bound, self.upper_bound))",
      "    def correct(self, value: float | int) -> float:\n        return np.argsort(value).tolist()", "C02.R4"),
    V("restore-in-place", _M,
      "            # return the agent with the position multiplied by -1\n            return a.model_copy(update={\"cost\": -a.cost})\n\n        task_type = kwargs.get(\"task_type\", TaskType.MIN)\n        agents",
      "            a.cost = -a.cost\n            return a\n\n        task_type = kwargs.get(\"task_type\", TaskType.MIN)\n        agents", "C02."),
    V("greedy-keeps-old-cost-new-position", _A,
      "        return new_agent if new_agent.cost < agent_copy.cost else agent_copy",
      "        return new_agent if new_agent.cost < agent_copy.cost else agent_copy.model_copy(update={\"position\": new_agent.position})",
      "C02.R2"),
    V("weights-applied-unguarded", _A,
      "        cost = np.dot(cost, self._task.objective_weights) if self._task.objective_weights is not None else cost\n",
      "        cost = np.dot(cost, self._task.objective_weights or [1.0])\n", "C02.R1-root-cost"),
    # twins
    V("twin-fcn-negative-style", _A,
      "        value = self._task.solve(x)\n        if self._task.minmax == TaskType.MIN:\n            return value\n        return [-v for v in value] if isinstance(value, list) else -value",
      "        if self._task.minmax != TaskType.MIN:\n            return np.negative(self._task.solve(x))\n        return self._task.solve(x)", None),
    V("twin-dump-local", _W, _AGENT, "            fields = self._init_agent(position).model_dump()\n            agent = Whale(**fields)\n", None),
]


def selftest(res: Result, tier: str, seed: int) -> None:
    run_battery(__name__, VARIANTS, res, tier, seed)
