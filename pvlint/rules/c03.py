"""C03 - best_solution is the optimum of the final generation."""
from __future__ import annotations

import ast

from .. import packaging
from ..callgraph import Resolver, own_nodes, reachable
from ..guard import closed_world
from ..model import PKG, FuncInfo, Program, construct_key, dotted, norm, parent
from ..ord import E, L, OrdDeviation, OrdUnknown, Scalar, Tup, Evaluator
from ..report import Finding, Result
from ..sgn import MAX, MIN

EXPLANATION = (
    "(a) Path rule on optimize(): in the main loop the statements occur in the order optimization_step -> "
    "evolution.append(Population(agents=self._population, ..)) -> (self._best_agent,), (self._worst_agent,) = "
    "special_agents(self._population, n_best=1, n_worst=1) with no direction argument; nothing executed afterwards "
    "(everything reachable from __error_check__, the debug print, the code after the loop) stores into _population or "
    "_best_agent, and the result is built from self._best_agent - so best and last snapshot see the same list. "
    "(b) ORD abstract evaluation: that call yields FIRST(1) of ASC on internal costs for the first unpacked target. "
    "(c) SGN: internal cost is +f for MIN, -f for MAX, so the internal minimum is the optimum in the task direction. "
    "(d) best_solution and the snapshot agents pass through sign restorations that agree."
)
ASSUMPTIONS = ["ties/NaN: any minimal element satisfies the statement; NaN costs not decided", "closed-world guard R0"]
TRUSTED = ["python ast", "ORD / SGN evaluators"]
ABSTRACT = f"{PKG}.abstract.OptimizationAbstract"


def _is_snapshot(st: ast.AST) -> bool:
    if not (isinstance(st, ast.Expr) and isinstance(st.value, ast.Call)):
        return False
    c = st.value
    return (dotted(c.func) == "evolution.append" and len(c.args) == 1 and isinstance(c.args[0], ast.Call)
            and dotted(c.args[0].func) == "Population")


def _best_assign(st: ast.AST):
    """-> the special_agents call if st assigns self._best_agent from it."""
    if isinstance(st, ast.Assign) and isinstance(st.value, ast.Call) and dotted(st.value.func) == "special_agents":
        if any(isinstance(n, ast.Attribute) and dotted(n) == "self._best_agent" for t in st.targets for n in ast.walk(t)):
            return st.value
    return None


def _stores_field(prog, funcs, fields) -> list:
    out = []
    for f in funcs:
        for n in own_nodes(f):
            if isinstance(n, ast.Attribute) and isinstance(n.ctx, (ast.Store, ast.Del)) and isinstance(n.value, ast.Name) \
                    and n.value.id == "self" and n.attr in fields:
                out.append((f, n))
            elif isinstance(n, ast.Call) and isinstance(n.func, ast.Attribute) and isinstance(n.func.value, ast.Attribute) \
                    and dotted(n.func.value) in {f"self.{x}" for x in fields} \
                    and n.func.attr in ("append", "extend", "insert", "pop", "remove", "clear", "sort", "reverse"):
                out.append((f, n))
    return out


def run(prog: Program, res: Result) -> None:
    P = "C03"
    res.rules = ["R1 loop order: step, snapshot, best := special_agents(population, 1, 1), nothing later writes them",
                 "R2 ORD: first target receives FIRST(1) of ASC (default direction)", "R3 SGN parity", "R4 packaging agrees"]
    res.undecided = ["NaN costs"]
    closed_world(prog, res)
    from ..optmodel import extract
    m = extract(prog)
    opt = m.fn
    loop = m.loop
    body = [e.stmt for e in m.events]
    i_step = [i for i, e in enumerate(m.events) if e.kind == "step"]
    i_snap = [i for i, e in enumerate(m.events) if e.kind == "snapshot"]
    i_best = [i for i, e in enumerate(m.events) if e.kind == "best"]
    res.count("loop.step", len(i_step))
    res.count("loop.snapshot", len(i_snap))
    res.count("loop.best-assign", len(i_best))
    key = construct_key(prog, loop, opt.module)
    ok = len(i_step) == 1 and len(i_snap) == 1 and len(i_best) == 1 and i_step[0] < i_snap[0] < i_best[0]
    res.ob(ok, f"{opt.module.relpath}:{loop.lineno} loop order step@{i_step} snapshot@{i_snap} best@{i_best}", key)
    if not ok:
        why = "best agent is not recomputed after the step and the snapshot"
        if len(i_best) == 1 and len(i_step) == 1 and i_best[0] < i_step[0]:
            why = "the best agent is computed before optimization_step(): it belongs to the previous generation"
        elif not i_best:
            why = "the loop no longer assigns self._best_agent from special_agents(...)"
        res.add(Finding(P, "C03.R1-loop-order", key, f"{opt.module.relpath}:{loop.lineno}",
                        f"main loop of optimize(): {why} (step@{i_step}, snapshot@{i_snap}, best@{i_best})"))
        return
    best_stmt = body[i_best[0]]
    call = _best_assign(best_stmt)
    # between snapshot and best assignment: nothing
    for st in body[i_snap[0] + 1:i_best[0]]:
        calls = [n for n in ast.walk(st) if isinstance(n, ast.Call)]
        if calls and not (isinstance(st, ast.If) and dotted(st.test) == "self._debug"):
            res.ob(False)
            res.add(Finding(P, "C03.R1-loop-order", construct_key(prog, st, opt.module), f"{opt.module.relpath}:{st.lineno}",
                            f"`{norm(st, 70)}` runs between the snapshot and the computation of the best agent"))
    # everything after the best assignment: no store to _population / _best_agent
    resolver = Resolver(prog, None)
    after_nodes = body[i_best[0] + 1:] + list(m.post)
    roots = set()
    for st in after_nodes:
        for n in ast.walk(st):
            if isinstance(n, ast.Attribute) and isinstance(n.ctx, (ast.Store, ast.Del)) and dotted(n) in ("self._population", "self._best_agent"):
                res.ob(False)
                res.add(Finding(P, "C03.R1-stale-best", construct_key(prog, n, opt.module), f"{opt.module.relpath}:{n.lineno}",
                                f"`{norm(parent(n), 70)}` changes {dotted(n)} after the best agent was computed"))
            if isinstance(n, ast.Call):
                for t in resolver.callee(opt, n):
                    if isinstance(t, FuncInfo):
                        roots.add(t)
    # per class context (hooks are not called there, but resolve through the MRO anyway)
    seen = reachable(prog, prog.cls(ABSTRACT), list(roots))
    bad = _stores_field(prog, list(seen), {"_population", "_best_agent"})
    res.count("functions-after-best", len(seen))
    for (f, n) in bad:
        res.ob(False)
        res.add(Finding(P, "C03.R1-stale-best", construct_key(prog, n, f.module), f"{f.module.relpath}:{n.lineno}",
                        f"{f.qualname} (reached after the best agent is computed) writes {norm(n, 50)}"))
    res.ob(not bad, f"{len(seen)} functions reachable after the best assignment write neither _population nor _best_agent",
           "after-best")
    # the loop's continuation: the only way round is `self._current_cycle += 1`-style statements (checked by C04)

    # R2: arguments and ORD
    kws = {k.arg: k.value for k in call.keywords}
    arg0 = call.args[0] if call.args else kws.get("population")
    okp = arg0 is not None and dotted(arg0) == "self._population"
    res.ob(okp, f"{opt.module.relpath}:{call.lineno} {norm(call)}", construct_key(prog, call, opt.module))
    if not okp:
        res.add(Finding(P, "C03.R2-best-of-live-population", construct_key(prog, call, opt.module),
                        f"{opt.module.relpath}:{call.lineno}",
                        f"special_agents is applied to `{norm(arg0) if arg0 is not None else None}`, not to self._population "
                        f"(the list that was just recorded)"))
    sa = prog.func(f"{PKG}.helpers.special_agents")
    params = sa.params
    bound = {}
    for p, a in zip(params, call.args):
        bound[p] = a
    bound.update(kws)
    if "task_type" in bound:
        res.ob(False)
        res.add(Finding(P, "C03.R2-internal-direction", construct_key(prog, call, opt.module), f"{opt.module.relpath}:{call.lineno}",
                        f"special_agents is called with task_type={norm(bound['task_type'])}: internal costs are always "
                        f"minimised, so any direction but the default selects the wrong end for maximisation tasks"))
    nb, nw = bound.get("n_best"), bound.get("n_worst")
    from ..ord import run_paths

    def _best_of(got, ev_):
        env_ = {}
        ev_.assign(_rename_targets(best_stmt.targets[0]), got, env_)
        return env_.get("self._best_agent")

    def _is_first_of_asc(b_):
        return isinstance(b_, E) and b_.src == "population" and b_.kind == "objs" and \
            ((b_.order == "ASC" and b_.at == "first") or (b_.order == "DESC" and b_.at == "last"))

    def _run(choices):
        ev_ = Evaluator(prog, MIN)
        ev_.choices = list(choices)
        args = {"population": L("population"),
                "n_best": Scalar(norm(nb)) if nb is not None else Scalar("None"),
                "n_worst": Scalar(norm(nw)) if nw is not None else Scalar("None")}
        return ev_, ev_.call_helper(sa, args)
    try:
        paths = run_paths(_run)
    except OrdDeviation as exc:
        res.ob(False)
        res.add(Finding(P, "C03.R2-best-is-first-of-asc", construct_key(prog, best_stmt, opt.module),
                        f"{opt.module.relpath}:{best_stmt.lineno}",
                        f"the ranking behind self._best_agent does not order agents by their cost: {exc}; an agent with a strictly "
                        f"better cost can be ranked behind the one reported as best_solution"))
        return
    except OrdUnknown as exc:
        res.errors.append(f"ORD cannot evaluate special_agents for optimize(): {exc}")
        return
    # unpack along the target; every path through the helpers (fast paths on counts / sizes) must deliver the optimum
    tgt = best_stmt.targets[0]
    b = None
    for (path_, got, ev) in paths:
        try:
            b = _best_of(got, ev)
        except OrdUnknown as exc:
            res.ob(False)
            res.add(Finding(P, "C03.R2-best-is-first-of-asc", construct_key(prog, best_stmt, opt.module),
                            f"{opt.module.relpath}:{best_stmt.lineno}", f"cannot unpack {got} into `{norm(tgt)}`: {exc}"))
            return
        if not _is_first_of_asc(b):
            break
    okb = _is_first_of_asc(b)
    res.ob(okb, f"self._best_agent := {b.show() if isinstance(b, E) else b}", "best-ord")
    if not okb:
        res.add(Finding(P, "C03.R2-best-is-first-of-asc", construct_key(prog, best_stmt, opt.module),
                        f"{opt.module.relpath}:{best_stmt.lineno}",
                        f"self._best_agent receives `{b.show() if isinstance(b, E) else b}`; the optimum of the generation is "
                        f"the first element in ascending internal cost"))
    # the result is built from self._best_agent (packaging) and restored consistently
    packaging.check_sign_parity(prog, res, P)
    packaging.check_packaging(prog, res, P)
    # the same ordering before the loop (initial best) - informational consistency
    res.count("pre-loop.best-assign", len(m.pre_best))


def _rename_targets(t: ast.AST) -> ast.AST:
    """Replace attribute targets by Names carrying their dotted text so Evaluator.assign can bind them."""
    if isinstance(t, (ast.Tuple, ast.List)):
        return ast.Tuple(elts=[_rename_targets(e) for e in t.elts], ctx=ast.Store())
    return ast.Name(id=dotted(t) or norm(t), ctx=ast.Store())


# ---------------------------------------------------------------------------------------------
from ..selftest import V, run_battery  # noqa: E402

_A = "pyvolutionary/abstract.py"
_H = "pyvolutionary/helpers.py"
_M = "pyvolutionary/models.py"
_LOOPBEST = "            (self._best_agent, ), (self._worst_agent, ) = special_agents(self._population, n_best=1, n_worst=1)\n\n            # stop when"
VARIANTS = [
    V("best-worst-swapped", _A, _LOOPBEST,
      "            (self._worst_agent, ), (self._best_agent, ) = special_agents(self._population, n_best=1, n_worst=1)\n\n            # stop when", "C03.R2"),
    V("best-slice-from-tail", _H, "    return sort_by_cost(population, task_type=task_type)[:n_best]",
      "    return sort_by_cost(population, task_type=task_type)[-n_best:]", "C03.R2"),
    V("reverse-keyed-on-min", _H, "reverse=(task_type == TaskType.MAX))", "reverse=(task_type == TaskType.MIN))", "C03.R2"),
    V("best-computed-before-step", _A,
      "            self.optimization_step()\n            # append the current population to the evolution, being sure that costs and fitness are updated\n            evolution.append(Population(agents=self._population, task_type=task.minmax))\n\n            (self._best_agent, ), (self._worst_agent, ) = special_agents(self._population, n_best=1, n_worst=1)\n",
      "            (self._best_agent, ), (self._worst_agent, ) = special_agents(self._population, n_best=1, n_worst=1)\n            self.optimization_step()\n            # append the current population to the evolution, being sure that costs and fitness are updated\n            evolution.append(Population(agents=self._population, task_type=task.minmax))\n",
      "C03.R1"),
    V("best-with-task-direction", _A, _LOOPBEST,
      "            (self._best_agent, ), (self._worst_agent, ) = special_agents(self._population, n_best=1, n_worst=1, task_type=task.minmax)\n\n            # stop when", "C03.R2"),
    V("sign-restored-for-generations-only", _M,
      "            kwargs[\"best_solution\"] = refine_best_solution(best_solution, task_type)",
      "            kwargs[\"best_solution\"] = best_solution", "C03.SGN-restore"),
    V("error-check-resorts-population", _A,
      "        avg_fit = average_fitness(self._population)\n",
      "        avg_fit = average_fitness(self._population)\n        self._population = self._population[1:] + self._population[:1]\n        self._best_agent = self._population[0]\n", "C03.R1"),
    V("best-from-stale-list", _A, _LOOPBEST,
      "            (self._best_agent, ), (self._worst_agent, ) = special_agents(evolution[0].agents, n_best=1, n_worst=1)\n\n            # stop when", "C03.R2"),
    V("result-built-from-worst", _A, "best_solution=self._best_agent, task_type=task.minmax", "best_solution=self._worst_agent, task_type=task.minmax", "C03.PKG-optimize"),
    # twins
    V("twin-sorted", _H, "    pop_new = population.copy()\n    pop_new.sort(key=lambda agent: agent.cost, reverse=(task_type == TaskType.MAX))\n    return pop_new",
      "    return sorted(population, key=lambda agent: agent.cost, reverse=(task_type == TaskType.MAX))", None),
    V("twin-debug-between", _A, _LOOPBEST,
      "            if self._debug:\n                print(len(self._population))\n" + _LOOPBEST, None),
]


def selftest(res: Result, tier: str, seed: int) -> None:
    run_battery(__name__, VARIANTS, res, tier, seed)
