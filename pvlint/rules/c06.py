"""C06 - invalid calls are rejected up front; three typed-flow rules (crash freedom itself is not decidable)."""
from __future__ import annotations

import ast
import itertools

from ..callgraph import Resolver, own_nodes
from ..flow import origin, reaching_def, top_level_stmts
from ..frm import FrmUnknown, dnf, to_formula
from ..guard import closed_world
from ..model import PKG, FuncInfo, Program, ancestors, construct_key, dotted, norm, parent
from ..report import Finding, Result

EXPLANATION = (
    "Decides the second sentence of the property and three typed-flow clauses of the first; `no internal error for any valid "
    "input` quantifies over data-dependent numpy behaviour and is NOT decided. (R1) Dominance in optimize(): the configuration "
    "test, the `workers <= 0` test and the ModeSolver(mode) conversion are top-level statements that precede the first hook call "
    "(before_initialization / _init_population), and every raise before the first hook raises ValueError (the `except "
    "ValueError` re-raise included). (R2) Validators: Task rejects a negative objective weight; _init_agent raises ValueError on "
    "an objective/weight count mismatch before constructing an agent (variable validators are decided under C13). (R3) Typed "
    "flow: a value whose resolved callee is annotated `float | list[float]` (Task.solve) reaches an arithmetic operator only "
    "under an isinstance(.., list) guard or element-wise. (R4) Typed sink: np.random.seed receives an int-annotated field. (R5) "
    "Config-affine zero denominators: for every `/`, `//`, `%` in optimizer code whose numerator is a Python scalar and whose "
    "denominator is an arithmetic expression over max_cycles / population_size / the cycle counter only, the denominator is "
    "evaluated over the configuration domain (max_cycles 1..12, cycle 1..max_cycles, population 1..12) and must not vanish."
)
ASSUMPTIONS = ["crash freedom for all valid inputs is not decided (integer-coded tasks, dtype casts, empty selections, data-dependent "
               "ZeroDivisionError such as x / agent.cost)", "np.random.random()/rand()/uniform() without size return Python floats; "
               "numpy-array numerators give inf/nan, not ZeroDivisionError", "closed-world guard R0"]
TRUSTED = ["python ast", "annotations as types"]
ABSTRACT = f"{PKG}.abstract.OptimizationAbstract"
HOOKS = ("before_initialization", "_init_population", "after_initialization", "optimization_step")
SCALAR_RNG = {"np.random.random", "np.random.rand", "np.random.uniform", "np.random.normal", "np.random.randint", "np.random.standard_normal",
              "np.random.random_sample"}


def run(prog: Program, res: Result) -> None:
    P = "C06"
    res.rules = ["R1 entry guards dominate the first hook; only ValueError before it", "R2 weight validators",
                 "R3 list-or-float results are not used arithmetically unguarded", "R4 seed sink int-typed",
                 "R5 config-affine denominators never vanish on the config domain"]
    res.undecided = ["sentence one of the property: no internal error for every valid task/configuration (data-dependent numpy behaviour)"]
    closed_world(prog, res)
    opt = prog.func(f"{ABSTRACT}.optimize")
    M = opt.module
    body = top_level_stmts(opt.node)

    def bad(rule, node, msg, key=None, mod=M):
        res.ob(False)
        res.add(Finding(P, f"C06.{rule}", key or construct_key(prog, node, mod), f"{mod.relpath}:{getattr(node, 'lineno', 0)}", msg))

    # ------------------------------------------------------------------ R1
    first_hook = None
    for i, st in enumerate(body):
        if any(isinstance(n, ast.Call) and isinstance(n.func, ast.Attribute) and isinstance(n.func.value, ast.Name)
               and n.func.value.id == "self" and n.func.attr in HOOKS for n in ast.walk(st)):
            first_hook = i
            break
    if first_hook is None:
        res.errors.append("optimize() calls no hook")
        return
    pre = body[:first_hook]
    guards = {"config": None, "workers": None, "mode": None}
    resolver0 = Resolver(prog, None)

    def raises_value_error(stmts) -> bool:
        return any(isinstance(x, ast.Raise) and isinstance(x.exc, ast.Call) and dotted(x.exc.func) == "ValueError" for x in stmts)

    def path_condition(node) -> list:
        """tests of the enclosing `if`s inside the prologue (with polarity) for a node"""
        conds = []
        cur = node
        while cur is not None and cur is not opt.node:
            p = parent(cur)
            if isinstance(p, ast.If):
                in_body = any(cur is x for x in p.body)
                conds.append((p.test, in_body))
            cur = p
        return conds

    def atoms_of_path(conds) -> set:
        out = set()
        for (t, pol) in conds:
            try:
                f = to_formula(t, {}, {})
                if not pol:
                    from ..frm import f_not
                    f = f_not(f)
                d = dnf(f)
            except FrmUnknown:
                return {"?"}
            if len(d) != 1:
                return {"?"}
            out |= set(next(iter(d)))
        return out
    for st in pre:
        for n in ast.walk(st):
            if isinstance(n, ast.If) and raises_value_error(n.body):
                at = atoms_of_path(path_condition(n.body[0]))
                if at and at <= {"not self._config", "self._config is None", "!self._config"} or at == {"!self._config"}:
                    guards["config"] = n
                if at & {"workers <= 0", "workers < 1"} and at <= {"workers <= 0", "workers < 1", "workers is not None"}:
                    guards["workers"] = n
        if isinstance(st, ast.If) and norm(st.test) in ("not self._config", "self._config is None") and raises_value_error(st.body):
            guards["config"] = st

    def mode_conversions(fi_, node, arg_name, depth=2):
        """ModeSolver(<arg_name>) calls in `node`, or in package functions it calls with <arg_name> (one level)"""
        found = []
        for n in ast.walk(node):
            if isinstance(n, ast.Call) and dotted(n.func) == "ModeSolver" and n.args and dotted(n.args[0]) == arg_name:
                found.append((fi_, n))
            elif isinstance(n, ast.Call) and depth > 0 and any(dotted(a) == arg_name for a in n.args):
                for t in resolver0.callee(fi_, n):
                    if isinstance(t, FuncInfo) and t.module.name.startswith(PKG):
                        params = t.params
                        off = 1 if (t.is_method and params and params[0] in ("self", "cls") and not t.is_static) else 0
                        for i, a in enumerate(n.args):
                            if dotted(a) == arg_name and i + off < len(params):
                                found.extend(mode_conversions(t, t.node, params[i + off], depth - 1))
        return found
    helper_nodes = []
    for st in pre:
        for (cfi, conv) in mode_conversions(opt, st, "mode"):
            # conditions inside optimize() on the way to the (call leading to the) conversion: only `mode is not None`
            anchor = conv if cfi is opt else None
            if anchor is None:
                for n in ast.walk(st):
                    if isinstance(n, ast.Call) and any(isinstance(t, FuncInfo) and t is cfi for t in resolver0.callee(opt, n)):
                        anchor = n
            at = atoms_of_path(path_condition(anchor)) if anchor is not None else {"?"}
            trys = [a for a in ancestors(conv) if isinstance(a, ast.Try)]
            handlers_ok = all(h.type is not None and dotted(h.type) == "ValueError" and raises_value_error(h.body)
                              for t_ in trys for h in t_.handlers)
            if at <= {"mode is not None"} and handlers_ok:
                guards["mode"] = conv
                if cfi is not opt:
                    helper_nodes.append(cfi)
    msgs = {"config": "a missing configuration is not rejected with ValueError before the first hook runs",
            "workers": "a non-positive worker count is not rejected (`workers <= 0`) before the first hook runs",
            "mode": "an unknown mode is not rejected (ModeSolver(mode)) before the first hook runs"}
    for g, node in guards.items():
        res.ob(node is not None, f"{M.relpath}:{getattr(node, 'lineno', 0)} entry guard `{g}` precedes {norm(body[first_hook], 40)}", f"guard:{g}")
        if node is None:
            bad("R1-entry-guard", opt.node, f"optimize(): {msgs[g]}", key=f"abstract.OptimizationAbstract.optimize::guard {g}")
    for st in list(pre) + [h.node for h in helper_nodes]:
        for n in ast.walk(st):
            if isinstance(n, ast.Raise):
                exc = dotted(n.exc.func) if isinstance(n.exc, ast.Call) else dotted(n.exc) if n.exc is not None else "re-raise"
                ok = exc in ("ValueError", "re-raise")
                if exc == "re-raise":
                    h = [a for a in ancestors(n) if isinstance(a, ast.ExceptHandler)]
                    ok = bool(h) and dotted(h[0].type) == "ValueError"
                res.ob(ok, f"{M.relpath}:{n.lineno} raise {exc}", construct_key(prog, n, M))
                if not ok:
                    bad("R1-valueerror-only", n, f"`{norm(n, 70)}` before the first hook raises {exc}; an invalid call must be rejected with ValueError")
            if isinstance(n, ast.ExceptHandler):
                okh = n.type is not None and dotted(n.type) == "ValueError"
                if not okh:
                    bad("R1-valueerror-only", n, f"`except {norm(n.type) if n.type is not None else ''}` in the prologue swallows / converts more than ValueError")
    # the mode handler catches ValueError (what Enum raises)
    # ------------------------------------------------------------------ R2
    task = prog.cls(prog.TASK)
    okw = False
    from ..frm import canon_expr, subst
    for m in task.methods.values():
        decs = [norm(d) for d in m.node.decorator_list]
        if not any("validator" in d for d in decs):
            continue
        env = {}
        for n in ast.walk(m.node):
            if isinstance(n, ast.Assign) and len(n.targets) == 1 and isinstance(n.targets[0], ast.Name):
                env[n.targets[0].id] = n.value
        for n in ast.walk(m.node):
            if isinstance(n, ast.If) and any(isinstance(x, ast.Raise) and isinstance(x.exc, ast.Call) and dotted(x.exc.func) == "ValueError" for x in n.body):
                try:
                    lits = set()
                    for d in dnf(to_formula(n.test, env, {})):
                        lits |= set(d)
                except FrmUnknown:
                    lits = set()
                for lit in lits:
                    neg = lit.startswith("!")
                    core = lit[1:] if neg else lit
                    if "objective_weights" not in core:
                        continue
                    c = core.replace("numpy.", "np.")
                    nonneg_all = ("all(" in c) and ("0 <= np.array(self.objective_weights)" in c or "0 <= self.objective_weights" in c
                                                      or ("0 <=" in c and "for" in c))
                    neg_any = ("any(" in c) and ("< 0" in c)
                    if (neg and nonneg_all) or ((not neg) and neg_any):
                        okw = True
    res.ob(okw, f"{task.loc()} Task rejects negative objective weights", "task-weights")
    if not okw:
        bad("R2-negative-weights-rejected", task.node, "Task no longer rejects a negative objective weight with ValueError at construction",
            key="models.Task::validate_objective_weights", mod=task.module)
    ia = prog.func(f"{ABSTRACT}._init_agent")
    ctor = [n for n in own_nodes(ia) if isinstance(n, ast.Call) and dotted(n.func) == "Agent"]
    mism = [n for n in own_nodes(ia) if isinstance(n, ast.If) and any(isinstance(x, ast.Raise) and isinstance(x.exc, ast.Call)
                                                                       and dotted(x.exc.func) == "ValueError" for x in n.body)]
    okm = False
    fcn_calls = [n for n in own_nodes(ia) if isinstance(n, ast.Call) and dotted(n.func) == "self._fcn"]

    def count_of(e, what):
        """`len(X) if <X is a list / W is not None> else 1` (either orientation), X from the _fcn call or W the weights"""
        e = origin(ia.node, e) if isinstance(e, ast.Name) else e
        if not isinstance(e, ast.IfExp):
            return False
        for (ln, one) in ((e.body, e.orelse), (e.orelse, e.body)):
            if isinstance(one, ast.Constant) and one.value == 1 and isinstance(ln, ast.Call) and dotted(ln.func) == "len" and len(ln.args) == 1:
                x = ln.args[0]
                xo = origin(ia.node, x) if isinstance(x, ast.Name) else x
                if what == "objectives" and fcn_calls and xo is fcn_calls[0] and "isinstance" in norm(e.test) and "list" in norm(e.test):
                    return True
                if what == "weights" and dotted(xo) == "self._task.objective_weights" and "None" in norm(e.test):
                    return True
        return False
    early = [mm for mm in mism if ctor and mm.lineno < ctor[0].lineno]
    if ctor and mism:
        for mm in early:
            t = mm.test
            if isinstance(t, ast.UnaryOp) and isinstance(t.op, ast.Not) and isinstance(t.operand, ast.Compare) \
                    and len(t.operand.ops) == 1 and isinstance(t.operand.ops[0], ast.Eq):
                t = ast.Compare(left=t.operand.left, ops=[ast.NotEq()], comparators=t.operand.comparators)     # not a == b
            if isinstance(t, ast.Compare) and len(t.ops) == 1 and isinstance(t.ops[0], ast.NotEq):
                l, r = t.left, t.comparators[0]
                if (count_of(l, "weights") and count_of(r, "objectives")) or (count_of(r, "weights") and count_of(l, "objectives")):
                    okm = True
    if not okm and early:
        # a ValueError guard precedes the construction but its test is not the recognised count comparison: undecided unless
        # it plainly does not look at the weights at all
        if any("objective_weights" in norm(origin(ia.node, x) if isinstance(x, ast.Name) else x, 400)
               for mm in early for x in ast.walk(mm.test) if isinstance(x, (ast.Name, ast.Attribute))):
            res.errors.append(f"{ia.loc()} _init_agent: the objective/weight count guard `{norm(early[0].test, 70)}` has a shape that is "
                              f"not understood (undecided)")
            okm = True
    res.ob(okm, f"{ia.loc()} _init_agent rejects objective/weight count mismatch before building the agent", "count-mismatch")
    if not okm:
        bad("R2-weight-count-mismatch-rejected", ia.node, "_init_agent does not raise ValueError when the number of objectives differs from the number of weights, before any agent is built",
            key="abstract.OptimizationAbstract._init_agent::count-mismatch")

    # ------------------------------------------------------------------ R3 typed flow of list-or-float values
    resolver = Resolver(prog, None)
    union_funcs = set()
    for f in prog.all_functions():
        r = f.node.returns
        if r is not None and "list" in norm(r) and ("float" in norm(r)) and "|" in norm(r):
            union_funcs.add(f.name)
    res.count("list-or-float-annotated-functions", len(union_funcs))
    n_uses = 0
    for f in prog.all_functions():
        if f.module.name not in (f"{PKG}.abstract",) and not (f.cls is not None and prog.is_subclass(f.cls, ABSTRACT)):
            continue
        for n in own_nodes(f):
            if not isinstance(n, (ast.BinOp, ast.UnaryOp)):
                continue
            if isinstance(n, ast.UnaryOp) and not isinstance(n.op, (ast.USub, ast.UAdd)):
                continue
            operands = [n.operand] if isinstance(n, ast.UnaryOp) else [n.left, n.right]
            for o in operands:
                src = origin(f.node, o) if isinstance(o, ast.Name) else o
                if isinstance(src, ast.Call) and isinstance(src.func, ast.Attribute) and src.func.attr in union_funcs \
                        and dotted(src.func.value) in ("self._task", "self"):
                    n_uses += 1
                    nm = o.id if isinstance(o, ast.Name) else None
                    guarded = False
                    for a in ancestors(n):
                        if isinstance(a, (ast.IfExp, ast.If)):
                            t = a.test
                            neg = False
                            if isinstance(t, ast.UnaryOp) and isinstance(t.op, ast.Not):
                                t, neg = t.operand, True
                            if isinstance(t, ast.Call) and isinstance(t.func, ast.Name) and t.func.id == "isinstance" and len(t.args) == 2 \
                                    and nm is not None and dotted(t.args[0]) == nm and "list" in norm(t.args[1]):
                                in_body = any(x is n for b in ([a.body] if isinstance(a, ast.IfExp) else a.body) for x in ast.walk(b))
                                guarded = (in_body and neg) or ((not in_body) and not neg)
                    if not guarded and nm is not None:
                        # `if isinstance(nm, list): return ...` earlier in an enclosing block guards what follows it
                        cur = n
                        while cur is not None and cur is not f.node and not guarded:
                            p_ = parent(cur)
                            for fld in ("body", "orelse"):
                                blk = getattr(p_, fld, None)
                                if isinstance(blk, list) and cur in blk:
                                    for prev in blk[:blk.index(cur)]:
                                        if isinstance(prev, ast.If) and prev.body and isinstance(prev.body[-1], (ast.Return, ast.Raise)):
                                            t = prev.test
                                            if isinstance(t, ast.Call) and isinstance(t.func, ast.Name) and t.func.id == "isinstance" \
                                                    and len(t.args) == 2 and dotted(t.args[0]) == nm and "list" in norm(t.args[1]):
                                                guarded = True
                            cur = p_
                    key = construct_key(prog, n, f.module)
                    res.ob(guarded, f"{f.module.relpath}:{n.lineno} {norm(n, 60)} guarded={guarded}", key)
                    if not guarded:
                        bad("R3-list-or-float-arithmetic", n,
                            f"`{norm(n, 70)}` in {f.qualname} applies arithmetic to the result of {src.func.attr}() (annotated "
                            f"`float | list[float]`) without an isinstance(.., list) guard: for a list of objectives `-1 * [..]` is `[]` "
                            f"and the run fails with an objective/weight count error", mod=f.module)
    res.count("arithmetic-on-list-or-float", n_uses)

    # ------------------------------------------------------------------ R4 typed sink
    ann = task.fields.get("seed")
    if ann is None:
        res.errors.append("Task.seed vanished")
    else:
        txt = norm(ann.annotation)
        parts = {p.strip() for p in txt.replace("Optional[", "").replace("]", "").split("|")}
        ok = "int" in parts and parts <= {"int", "None"}
        res.ob(ok, f"{task.module.relpath}:{ann.lineno} seed: {txt}", "seed-type")
        if not ok:
            bad("R4-seed-int-typed", ann, f"Task.seed is annotated `{txt}`: the documented integer seed reaches np.random.seed as a float and raises TypeError",
                key=f"models.Task::seed: {txt}", mod=task.module)

    # ------------------------------------------------------------------ R5 zero denominators
    n_div = n_eval = 0
    for f in prog.all_functions():
        if f.cls is None or not prog.is_subclass(f.cls, ABSTRACT):
            continue
        for n in own_nodes(f):
            if isinstance(n, ast.BinOp) and isinstance(n.op, (ast.Div, ast.FloorDiv, ast.Mod)):
                n_div += 1
                den = n.right
                syms = set()
                fn = _compile(f, den, syms)
                if fn is None or not syms:
                    continue
                if not _python_scalar(f, n.left):
                    continue
                n_eval += 1
                zero_at = None
                for mc in (range(1, 13) if ("mc" in syms or "cycle" in syms) else [1]):
                    for cyc in (range(1, mc + 1) if "cycle" in syms else [1]):
                        for ps in (range(1, 13) if "pop" in syms else [1]):
                            for wk in (range(1, 17) if "wk" in syms else [1]):
                                for na in (range(1, 13) if "n" in syms else [1]):
                                    try:
                                        v = fn({"mc": mc, "cycle": cyc, "pop": ps, "wk": wk, "n": na})
                                    except ZeroDivisionError:
                                        v = 0
                                    except Exception:
                                        v = 1
                                    if v == 0:
                                        zero_at = zero_at or {"max_cycles": mc, "cycle": cyc, "population_size": ps,
                                                              "workers": wk, "n_agents": na}
                key = construct_key(prog, n, f.module)
                res.ob(zero_at is None, f"{f.module.relpath}:{n.lineno} denominator `{norm(den, 50)}` never 0 on the config domain" if zero_at is None else None, key)
                if zero_at is not None:
                    shown = {k: v for k, v in zero_at.items() if (k == "max_cycles" and "mc" in syms) or (k == "cycle" and "cycle" in syms)
                             or (k == "population_size" and "pop" in syms) or (k == "workers" and "wk" in syms)
                             or (k == "n_agents" and "n" in syms)}
                    bad("R5-zero-denominator", n,
                        f"`{norm(n, 80)}` in {f.qualname}: the denominator `{norm(den, 50)}` is 0 for the valid configuration {shown} and the "
                        f"numerator is a Python scalar: ZeroDivisionError part-way through optimize()", mod=f.module)
    # ---- R5b: int(..) / range(..) / round(..)->int of a numpy expression that is inf or nan somewhere on the configuration
    # domain (numpy divides by zero silently: `max_cycles / np.ceil(np.log10(max_cycles))` is inf for max_cycles == 1) raises
    # OverflowError / ValueError part-way through optimize()
    import math as _math
    n_int = 0
    for f in prog.all_functions():
        if f.cls is None or not prog.is_subclass(f.cls, ABSTRACT):
            continue
        for n in own_nodes(f):
            if not (isinstance(n, ast.Call) and isinstance(n.func, ast.Name) and n.func.id in ("int", "range") and n.args):
                continue
            for a in n.args:
                syms = set()
                fn = _compile_np(f, a, syms)
                if fn is None or not syms:
                    continue
                n_int += 1
                bad_at = None
                for mc in (range(1, 13) if ("mc" in syms or "cycle" in syms) else [1]):
                    for cyc in (range(1, mc + 1) if "cycle" in syms else [1]):
                        for ps in (range(1, 13) if "pop" in syms else [1]):
                            try:
                                v = fn({"mc": mc, "cycle": cyc, "pop": ps, "wk": 4, "n": ps})
                            except Exception:
                                continue
                            if isinstance(v, float) and (_math.isinf(v) or _math.isnan(v)):
                                bad_at = bad_at or {"max_cycles": mc, "cycle": cyc, "population_size": ps}
                key = construct_key(prog, n, f.module)
                res.ob(bad_at is None, None, key)
                if bad_at is not None:
                    shown = {k: v for k, v in bad_at.items() if (k == "max_cycles" and "mc" in syms) or (k == "cycle" and "cycle" in syms)
                             or (k == "population_size" and "pop" in syms)}
                    bad("R5-zero-denominator", n,
                        f"`{norm(n, 80)}` in {f.qualname}: the argument is inf/nan for the valid configuration {shown} (numpy divides by "
                        f"zero silently) and `{n.func.id}()` of it raises OverflowError/ValueError part-way through optimize()", mod=f.module)
    res.count("int-of-config-expressions-evaluated", n_int)

    # ------------------------------------------------------------------ R6 partial stdlib math on data-dependent values
    PARTIAL = {"exp": "OverflowError above ~709", "cosh": "OverflowError above ~710", "sinh": "OverflowError above ~710",
               "expm1": "OverflowError", "pow": "OverflowError / ValueError", "ldexp": "OverflowError", "factorial": "ValueError",
               "log": "ValueError for <= 0", "log10": "ValueError for <= 0", "log2": "ValueError for <= 0", "log1p": "ValueError for <= -1",
               "sqrt": "ValueError for < 0", "acos": "ValueError outside [-1, 1]", "asin": "ValueError outside [-1, 1]",
               "acosh": "ValueError for < 1", "atanh": "ValueError outside (-1, 1)", "gamma": "OverflowError / ValueError",
               "lgamma": "ValueError at poles", "fmod": "ValueError for y == 0"}
    n_math = 0
    for f in prog.all_functions():
        if f.cls is None or not prog.is_subclass(f.cls, ABSTRACT):
            continue
        r6 = Resolver(prog, None)
        for n in own_nodes(f):
            if isinstance(n, ast.Call):
                ext = r6.ext_name(f, n.func)
                if ext and ext.startswith("math.") and ext[5:] in PARTIAL:
                    n_math += 1
                    dep = _data_dependent(f, n)
                    key = construct_key(prog, n, f.module)
                    res.ob(dep is None, f"{f.module.relpath}:{n.lineno} {norm(n, 60)}: argument is configuration/constant only" if dep is None else None, key)
                    if dep is not None:
                        bad("R6-partial-math-on-data", n,
                            f"`{norm(n, 70)}` in {f.qualname} applies the stdlib `{ext}` ({PARTIAL[ext[5:]]}) to a value derived from "
                            f"`{dep}`: costs/positions are unbounded over valid tasks, so optimize() can fail part-way where the numpy "
                            f"equivalent would give inf/nan", mod=f.module)
    # ------------------------------------------------------------------ R7 in-place float arithmetic on an integer-capable array
    # np.array(<agent>.position) / np.array(<bounds>) is int64 on integer-coded tasks (discrete, binary, permutation); `a += <float>`
    # on it raises numpy's UFuncTypeError (same-kind casting), whereas `a = a + <float>` gives a new float array.  Quantifier:
    # "a pair that works today must not start failing wholesale" - the sites that already fail on integer tasks today are the
    # baseline INT_INPLACE_BASELINE (one reason each); any other such site is reported.
    n_inpl = 0
    for f in prog.all_functions():
        if f.cls is None or not prog.is_subclass(f.cls, ABSTRACT):
            continue
        for n in own_nodes(f):
            if not (isinstance(n, ast.AugAssign) and isinstance(n.op, (ast.Add, ast.Sub, ast.Mult, ast.Div, ast.Pow))):
                continue
            base = n.target      # `a[idx] += x` stores with an unsafe cast and does not raise: plain names only
            if not isinstance(base, ast.Name):
                continue
            src = _int_capable_array(f, base, n)
            if src is None:
                continue
            if not (isinstance(n.op, ast.Div) or _floaty(f, n.value)):
                continue
            n_inpl += 1
            key = construct_key(prog, n, f.module)
            base_reason = INT_INPLACE_BASELINE.get((f.qualname.replace(PKG + ".", ""), norm(n.target)))
            res.ob(True, f"{f.module.relpath}:{n.lineno} `{norm(n, 60)}` on an array from `{src}`"
                         + (f" - fails on integer tasks today (baseline): {base_reason}" if base_reason else ""), key)
            if base_reason is None:
                res.ob(False)
                bad("R7-inplace-float-into-int-array", n,
                    f"`{norm(n, 70)}` in {f.qualname} updates in place an array built from `{src}` (int64 on discrete / binary / "
                    f"permutation tasks) with a float operand: numpy raises UFuncTypeError (cannot cast float64 to int64) and every "
                    f"integer-coded task starts failing with this optimizer; use `x = x + ..` or .astype(float)", mod=f.module)
    res.count("inplace-float-on-int-capable-array", n_inpl)
    res.floor("inplace-float-on-int-capable-array", len(INT_INPLACE_BASELINE))
    res.count("stdlib-math-partial-calls", n_math)
    res.count("divisions-in-optimizers", n_div)
    res.count("config-affine-denominators-evaluated", n_eval)
    res.floor("divisions-in-optimizers", 150)
    res.floor("config-affine-denominators-evaluated", 20)


# sites that raise UFuncTypeError on integer-coded tasks on the confirmed tree (observed: AntLion, EnergyValley, GoldenJackal fail on
# a purely discrete task, all other 80 default-constructible optimizers pass) - the property tolerates pairs that fail today
INT_INPLACE_BASELINE = {
    ("ant_lion.ant_lion_optimization.AntLionOptimization.optimization_step", "lower_bounds"): "bounds of a discrete task are an int array",
    ("ant_lion.ant_lion_optimization.AntLionOptimization.optimization_step", "upper_bounds"): "bounds of a discrete task are an int array",
    ("energy_valley.energy_valley_optimization.EnergyValleyOptimization.optimization_step.evolve", "pos_new1"): "copy of an int position",
    ("energy_valley.energy_valley_optimization.EnergyValleyOptimization.optimization_step.evolve", "pos_new2"): "copy of an int position",
    ("golden_jackal.golden_jackal_optimization.GoldenJackalOptimization.optimization_step.evolve", "male_position"): "np.array(male.position)",
    ("golden_jackal.golden_jackal_optimization.GoldenJackalOptimization.optimization_step.evolve", "female_position"): "np.array(female.position)",
}


def _single_def(f: FuncInfo, name: str):
    """(scope, value) of the only plain assignment to `name` in f or an enclosing function; None when reassigned / unknown"""
    from ..flow import store_sites
    scope = f
    while scope is not None:
        sites = store_sites(scope.node, name)
        if sites:
            plain = [(s_, v, k) for (s_, v, k) in sites if k == "assign" and v is not None]
            others = [x for x in sites if x[2] not in ("assign", "aug", "unpack")]
            unpack = [x for x in sites if x[2] == "unpack"]
            if len(unpack) == 1 and not plain and not others:
                return scope, unpack[0][1]          # the whole `a, b = <value>` statement
            if len(plain) == 1 and not others:
                return scope, plain[0][1]
            return None
        if name in scope.params:
            return None
        scope = scope.outer
    return None


def _int_capable_array(f: FuncInfo, name_node: ast.Name, at: ast.AST, depth: int = 4):
    """Text of the integer-capable source the array `name` inherits its dtype from, or None.  Only single-assignment locals
    are followed; anything that makes a float array (arithmetic, astype(float), dtype=float, random draws) gives None."""
    if depth <= 0:
        return None
    d = _single_def(f, name_node.id)
    if d is None:
        # several bindings: the one that reaches this use (structured reaching definitions within the function)
        from ..flow import reaching_def
        try:
            rd = reaching_def(f.node, at, name_node.id)
        except Exception:
            rd = None
        if rd is not None and rd[2] == "assign" and rd[1] is not None:
            d = (f, rd[1])
    if d is None:
        return None
    scope, v = d
    if isinstance(v, ast.Assign):
        # a, b = self._task.get_bounds(): Task.get_bounds returns the two bound arrays (int64 on integer-coded tasks)
        if isinstance(v.value, ast.Call) and (dotted(v.value.func) or "").endswith("_task.get_bounds"):
            return norm(v.value, 40)
        return None
    return _int_capable_expr(scope, v, depth)


def _int_capable_expr(f: FuncInfo, v: ast.AST, depth: int):
    if depth <= 0 or v is None:
        return None
    if isinstance(v, ast.Call):
        fn = dotted(v.func) or ""
        kws = {k.arg for k in v.keywords}
        if fn in ("np.array", "np.asarray", "numpy.array", "numpy.asarray") and v.args and "dtype" not in kws and len(v.args) == 1:
            a = v.args[0]
            if isinstance(a, ast.Attribute) and a.attr == "position":
                return norm(v, 60)
            if isinstance(a, ast.Name):
                dd = _single_def(f, a.id)
                if dd is not None:
                    sc, av = dd
                    if isinstance(av, ast.Attribute) and av.attr == "position":
                        return norm(v, 60)
                    # lb, ub = self._task.get_bounds()
                    if isinstance(av, ast.Call) and (dotted(av.func) or "").endswith("get_bounds"):
                        return f"np.array(<{norm(av, 40)}>)"
                    if isinstance(av, ast.Subscript) and isinstance(av.value, ast.Call) and (dotted(av.value.func) or "").endswith("get_bounds"):
                        return f"np.array(<{norm(av, 40)}>)"
                return None
            return None
        if fn in ("np.zeros_like", "np.ones_like", "np.empty_like", "np.full_like", "np.copy", "numpy.zeros_like", "numpy.copy") \
                and v.args and "dtype" not in kws:
            a = v.args[0]
            if isinstance(a, ast.Name):
                r = _int_capable_array(f, a, v, depth - 1)
                return None if r is None else f"{fn}({r})"
            return _int_capable_expr(f, a, depth - 1)
        if isinstance(v.func, ast.Attribute) and v.func.attr == "copy" and not v.args:
            b = v.func.value
            if isinstance(b, ast.Name):
                r = _int_capable_array(f, b, v, depth - 1)
                return None if r is None else f"{r}.copy()"
            return _int_capable_expr(f, b, depth - 1)
        return None
    if isinstance(v, ast.Name):
        return _int_capable_array(f, v, v, depth - 1)
    return None


_FLOAT_DRAWS = {"random", "rand", "uniform", "normal", "randn", "standard_normal", "random_sample", "beta", "gamma", "exponential",
                "standard_cauchy", "laplace", "logistic", "lognormal", "rayleigh", "triangular", "weibull"}


def _floaty(f: FuncInfo, e: ast.AST, depth: int = 3) -> bool:
    """Does the operand provably contain a float (a float constant, a true division, a float random draw, np.abs/sqrt/exp of
    such, a configuration coefficient)?  Unknown names are followed through single assignments; otherwise False (no report)."""
    if depth <= 0:
        return False
    for x in ast.walk(e):
        if isinstance(x, ast.Constant) and isinstance(x.value, float):
            return True
        if isinstance(x, ast.BinOp) and isinstance(x.op, ast.Div):
            return True
        if isinstance(x, ast.Call):
            d = dotted(x.func) or ""
            if d.startswith(("np.random.", "numpy.random.")) and d.split(".")[-1] in _FLOAT_DRAWS:
                return True
            if d in ("np.sqrt", "np.exp", "np.log", "np.sin", "np.cos", "np.tan", "np.tanh", "np.mean", "np.std", "np.average",
                     "np.linalg.norm", "np.power"):
                return True
        if isinstance(x, ast.Name) and isinstance(x.ctx, ast.Load):
            dd = _single_def(f, x.id)
            if dd is not None and dd[1] is not e and not isinstance(dd[1], ast.Assign) and _floaty(dd[0], dd[1], depth - 1):
                return True
            if dd is None:
                # a loop variable: floaty when what is iterated over is
                from ..flow import store_sites
                scope = f
                while scope is not None:
                    sites = store_sites(scope.node, x.id)
                    if sites:
                        if len(sites) == 1 and sites[0][2] == "for" and _floaty(scope, sites[0][0].iter, depth - 1):
                            return True
                        break
                    scope = scope.outer
    return False


def _data_dependent(f: FuncInfo, call: ast.Call, depth: int = 4):
    """Text of an agent-derived sub-expression (.cost / .fitness / .position) feeding the call, following local names."""
    from ..flow import store_sites

    def walk(e, d):
        if d <= 0:
            return None
        for x in ast.walk(e):
            if isinstance(x, ast.Attribute) and x.attr in ("cost", "fitness", "position"):
                return norm(x)
            if isinstance(x, ast.Name) and isinstance(x.ctx, ast.Load):
                scope = f
                while scope is not None:
                    sites = store_sites(scope.node, x.id)
                    if sites:
                        for (_s, v, k) in sites:
                            if k == "assign" and v is not None:
                                r = walk(v, d - 1)
                                if r:
                                    return r
                        break
                    scope = scope.outer
        return None
    for a in list(call.args) + [k.value for k in call.keywords]:
        r = walk(a, depth)
        if r:
            return r
    return None


def _sym(f: FuncInfo, e: ast.AST):
    d = dotted(e)
    if d == "self._config.max_cycles":
        return "mc"
    if d == "self._current_cycle":
        return "cycle"
    if d == "self._config.population_size":
        return "pop"
    if d == "self._workers":
        return "wk"          # validated >= 1 by the entry guard (R1), any size relative to the population
    if isinstance(e, ast.Name) and e.id == "n_agents" and e.id in f.params and f.name == "_generate_agents":
        return "n"           # number of agents asked from the common generator (>= 1)
    return None


def _compile(f: FuncInfo, e: ast.AST, syms: set, depth: int = 6):
    """Arithmetic expression over {max_cycles, cycle, population_size, constants} -> python callable, else None."""
    if depth <= 0:
        return None
    s = _sym(f, e)
    if s:
        syms.add(s)
        return lambda env, s=s: env[s]
    if isinstance(e, ast.Constant) and isinstance(e.value, (int, float)) and not isinstance(e.value, bool):
        return lambda env, v=e.value: v
    if isinstance(e, ast.Name):
        # closure / local names bound once to such an expression
        scope = f
        while scope is not None:
            from ..flow import store_sites
            sites = store_sites(scope.node, e.id)
            if sites:
                if len(sites) == 1 and sites[0][2] == "assign":
                    return _compile(scope, sites[0][1], syms, depth - 1)
                return None
            if e.id in scope.params:
                return None
            scope = scope.outer
        return None
    if isinstance(e, ast.UnaryOp) and isinstance(e.op, (ast.USub, ast.UAdd)):
        a = _compile(f, e.operand, syms, depth - 1)
        if a is None:
            return None
        return (lambda env: -a(env)) if isinstance(e.op, ast.USub) else a
    if isinstance(e, ast.BinOp):
        a, b = _compile(f, e.left, syms, depth - 1), _compile(f, e.right, syms, depth - 1)
        if a is None or b is None:
            return None
        ops = {ast.Add: lambda x, y: x + y, ast.Sub: lambda x, y: x - y, ast.Mult: lambda x, y: x * y,
               ast.Div: lambda x, y: x / y, ast.FloorDiv: lambda x, y: x // y, ast.Pow: lambda x, y: x ** y, ast.Mod: lambda x, y: x % y}
        op = ops.get(type(e.op))
        if op is None:
            return None
        return lambda env: op(a(env), b(env))
    if isinstance(e, ast.Call) and isinstance(e.func, ast.Name) and e.func.id in ("max", "min", "int", "float", "abs", "round") and not e.keywords:
        args = [_compile(f, a, syms, depth - 1) for a in e.args]
        if any(a is None for a in args):
            return None
        fn = {"max": max, "min": min, "int": int, "float": float, "abs": abs, "round": round}[e.func.id]
        return lambda env: fn(*[a(env) for a in args])
    return None


def _compile_np(f: FuncInfo, e: ast.AST, syms: set, depth: int = 6):
    """Like _compile, with numpy semantics: x / 0 is inf (nan for 0 / 0), np.log10(0) is -inf, and the usual numpy
    element-wise functions on scalars.  Only expressions over the configuration symbols and constants."""
    import math
    if depth <= 0:
        return None
    s_ = _sym(f, e)
    if s_:
        syms.add(s_)
        return lambda env, s_=s_: float(env[s_])
    if isinstance(e, ast.Constant) and isinstance(e.value, (int, float)) and not isinstance(e.value, bool):
        return lambda env, v=e.value: float(v)
    if isinstance(e, ast.Name):
        d = _single_def(f, e.id)
        if d is not None and not isinstance(d[1], ast.Assign):
            return _compile_np(d[0], d[1], syms, depth - 1)
        return None
    if isinstance(e, ast.Attribute) and isinstance(e.value, ast.Name) and e.value.id == "self" and f.cls is not None:
        return None
    if isinstance(e, ast.UnaryOp) and isinstance(e.op, (ast.USub, ast.UAdd)):
        a = _compile_np(f, e.operand, syms, depth - 1)
        return None if a is None else ((lambda env: -a(env)) if isinstance(e.op, ast.USub) else a)
    if isinstance(e, ast.BinOp):
        a, b = _compile_np(f, e.left, syms, depth - 1), _compile_np(f, e.right, syms, depth - 1)
        if a is None or b is None:
            return None

        def div(x, y):
            if y == 0:
                return float("nan") if x == 0 or x != x else (float("inf") if x > 0 else float("-inf"))
            return x / y
        ops = {ast.Add: lambda x, y: x + y, ast.Sub: lambda x, y: x - y, ast.Mult: lambda x, y: x * y, ast.Div: div,
               ast.Pow: lambda x, y: x ** y}
        op = ops.get(type(e.op))
        return None if op is None else (lambda env: op(a(env), b(env)))
    if isinstance(e, ast.Call) and not e.keywords and len(e.args) == 1:
        d = dotted(e.func) or ""
        a = _compile_np(f, e.args[0], syms, depth - 1)
        if a is None:
            return None
        table = {
            "np.log10": lambda x: float("-inf") if x == 0 else (float("nan") if x < 0 else math.log10(x)),
            "np.log": lambda x: float("-inf") if x == 0 else (float("nan") if x < 0 else math.log(x)),
            "np.log2": lambda x: float("-inf") if x == 0 else (float("nan") if x < 0 else math.log2(x)),
            "np.sqrt": lambda x: float("nan") if x < 0 else math.sqrt(x),
            "np.ceil": lambda x: x if (x != x or x in (float("inf"), float("-inf"))) else float(math.ceil(x)),
            "np.floor": lambda x: x if (x != x or x in (float("inf"), float("-inf"))) else float(math.floor(x)),
            "np.round": lambda x: x if (x != x or x in (float("inf"), float("-inf"))) else float(round(x)),
            "np.abs": abs, "abs": abs, "float": float,
        }
        fn = table.get(d)
        return None if fn is None else (lambda env: fn(a(env)))
    return None


def _python_scalar(f: FuncInfo, e: ast.AST, depth: int = 5) -> bool:
    """Is the numerator certainly a Python int/float (so that `/ 0` raises ZeroDivisionError)?"""
    if depth <= 0:
        return False
    if isinstance(e, ast.Constant) and isinstance(e.value, (int, float)):
        return True
    if _sym(f, e) or (dotted(e) or "").startswith("self._config."):
        return True
    if isinstance(e, ast.Name):
        scope = f
        from ..flow import store_sites
        while scope is not None:
            sites = store_sites(scope.node, e.id)
            if sites:
                return all(k == "assign" and _python_scalar(scope, v, depth - 1) for (_s, v, k) in sites)
            if e.id in scope.params:
                return False
            scope = scope.outer
        return False
    if isinstance(e, ast.UnaryOp):
        return _python_scalar(f, e.operand, depth - 1)
    if isinstance(e, ast.BinOp):
        return _python_scalar(f, e.left, depth - 1) and _python_scalar(f, e.right, depth - 1)
    if isinstance(e, ast.Call):
        d = dotted(e.func)
        if d in SCALAR_RNG and not e.args and not e.keywords:
            return True
        if d in ("float", "int", "len", "abs", "max", "min", "round", "math.ceil", "math.floor"):
            return True
    return False


# ---------------------------------------------------------------------------------------------
from ..selftest import V, run_battery  # noqa: E402

_A = "pyvolutionary/abstract.py"
_M = "pyvolutionary/models.py"
_W = "pyvolutionary/whales/whales_optimization.py"
_IW = "pyvolutionary/invasive_weed/invasive_weed_optimization.py"
_GW = "pyvolutionary/grey_wolf/grey_wolf_optimization.py"
VARIANTS = [
    V("int-of-infinite-config-expression", "pyvolutionary/battle_royale/battle_royale_optimization.py",
      "        self.__dyn_delta = np.round(self._config.max_cycles / np.ceil(np.log10(self._config.max_cycles)))",
      "        self.__dyn_delta = int(np.round(self._config.max_cycles / np.ceil(np.log10(self._config.max_cycles))))", "C06.R5"),
    V("inplace-float-on-position-array", _GW, "            pos = np.array(wolf.position)\n",
      "            pos = np.array(wolf.position)\n            pos += 0.5 * np.random.random()\n", "C06.R7"),
    V("inplace-divide-zeros-like-position", _GW, "            pos = np.array(wolf.position)\n",
      "            pos = np.array(wolf.position)\n            acc = np.zeros_like(pos)\n            acc /= 3\n", "C06.R7"),
    V("twin-out-of-place-float-on-position-array", _GW, "            pos = np.array(wolf.position)\n",
      "            pos = np.array(wolf.position)\n            pos = pos + 0.5 * np.random.random()\n", None),
    V("twin-inplace-on-float-cast", _GW, "            pos = np.array(wolf.position)\n",
      "            pos = np.array(wolf.position).astype(float)\n            pos += 0.5 * np.random.random()\n", None),
    V("workers-floor-division-denominator", _A, "            executors = [executor.submit(self._init_agent, position) for position in positions]\n",
      "            chunk = n_agents // self._workers\n            positions = positions[:n_agents // chunk * chunk] + positions[n_agents // chunk * chunk:]\n"
      "            executors = [executor.submit(self._init_agent, position) for position in positions]\n", "C06.R5"),
    V("workers-guard-deleted", _A, "            if workers <= 0:\n                raise ValueError(\"Invalid number of workers. It must be greater than 0\")\n", "", "C06.R1"),
    V("keyerror-in-prologue", _A, "raise ValueError(\"Invalid number of workers. It must be greater than 0\")", "raise KeyError(\"Invalid number of workers. It must be greater than 0\")", "C06.R1"),
    V("weight-count-test-dropped", _A, "        if n_weights != n_objectives:\n            raise ValueError(f\"Invalid number of weights. Expected {n_weights}, found {n_objectives}\")\n", "", "C06.R2"),
    V("mode-validated-after-hook", _A, "        self._task = task\n\n        self.before_initialization()\n",
      "        self._task = task\n\n", "C06.R1",
      more=[(_A, "        self._mode = ModeSolver.SERIAL\n        if mode is not None:", "        self.before_initialization()\n        self._mode = ModeSolver.SERIAL\n        if mode is not None:")]),
    V("fcn-list-times-minus-one", _A, "        return [-v for v in value] if isinstance(value, list) else -value", "        return -1 * value", "C06.R3"),
    V("negative-weights-accepted", _M, "        if not np.all(np.array(self.objective_weights) >= 0):", "        if not np.all(np.array(self.objective_weights) >= -1):", "C06.R2"),
    V("seed-float-again", _M, "    seed: int | None = None", "    seed: float | None = None", "C06.R4"),
    V("zero-denominator-reintroduced", _IW, "/ max(self._config.max_cycles - 1, 1)", "/ (self._config.max_cycles - 1)", "C06.R5"),
    V("new-decay-divides-by-remaining-cycles", _W, "        a = 2 - 2 * self._current_cycle / self._config.max_cycles\n",
      "        a = 2 - 2 * self._current_cycle / self._config.max_cycles\n        a = a * (1.0 / (self._config.max_cycles - self._current_cycle))\n", "C06.R5"),
    V("stdlib-cosh-on-cost-spread", "pyvolutionary/hunger_games_search/hunger_games_search_optimization.py",
      "            E = 0.5 if np.abs(x) > 50 else 2 / (np.exp(x) + np.exp(-x))\n", "            E = 1 / math.cosh(x)\n", "C06.R6",
      more=[("pyvolutionary/hunger_games_search/hunger_games_search_optimization.py", "import numpy as np\n", "import math\nimport numpy as np\n")]),
    V("twin-math-on-config", _W, "        a = 2 - 2 * self._current_cycle / self._config.max_cycles\n",
      "        a = 2 - 2 * self._current_cycle / self._config.max_cycles\n        a = a * math.exp(-self._current_cycle / self._config.max_cycles) / math.exp(-self._current_cycle / self._config.max_cycles)\n", None,
      more=[(_W, "import numpy as np\n", "import math\nimport numpy as np\n")]),
    V("config-check-swallowed", _A, "        if not self._config:\n            raise ValueError(\"Invalid configuration\")\n\n", "        if not self._config:\n            return None\n\n", "C06.R1"),
    V("mode-except-broad-typeerror", _A, "            except ValueError:\n                raise ValueError(\"Invalid mode.", "            except ValueError:\n                raise TypeError(\"Invalid mode.", "C06.R1"),
    V("twin-guards-reordered", _A,
      "        self._workers = 4\n        if workers is not None:\n            if workers <= 0:\n                raise ValueError(\"Invalid number of workers. It must be greater than 0\")\n            self._workers = workers\n\n",
      "", None,
      more=[(_A, "        self._task = task\n\n        self.before_initialization()\n",
             "        self._workers = 4\n        if workers is not None:\n            if workers <= 0:\n                raise ValueError(\"Invalid number of workers. It must be greater than 0\")\n            self._workers = workers\n\n        self._task = task\n\n        self.before_initialization()\n")]),
    V("twin-eps-denominator", _W, "        a = 2 - 2 * self._current_cycle / self._config.max_cycles\n",
      "        a = 2 - 2 * self._current_cycle / self._config.max_cycles\n        a = a * (1.0 / (self._config.max_cycles - self._current_cycle + 1))\n", None),
]


def selftest(res: Result, tier: str, seed: int) -> None:
    run_battery(__name__, VARIANTS, res, tier, seed)
