"""C19 - HyperTuner covers the grid and picks the best: loop completeness + polarity typing."""
from __future__ import annotations

import ast

from ..callgraph import own_nodes
from ..flow import origin, reaching_def
from ..guard import closed_world
from ..model import PKG, AnalysisError, Program, ancestors, construct_key, dotted, norm, parent
from ..report import Finding, Result
from ..sgn import MAX, MIN, Unknown, eval_expr

EXPLANATION = (
    "(b) Completeness of HyperTuner.execute: the grid loop iterates list(ParameterGrid(self._param_grid)) without "
    "break/continue/return; inside it set_config_parameters(<loop variable>) precedes the pool map, the recorded row holds "
    "the same variable, the map ranges over n_trials items, every returned (trial, best, rates) triple stores best.cost in "
    "that trial's own column, and __run__ returns the best_solution of optimize() on the tuner's task. (c) Polarity typing "
    "of the ranking pipeline: each _df_fit column is typed RAW (costs) or RANK (1 = best); a direction flag - the variable "
    "that partially evaluates to True for MIN and False for MAX - must be applied to every rank() of a RAW mean column and "
    "may never be applied to a rank() of RANK data; the winner is the row whose final RANK equals its min(), and "
    "best_parameters / best_score are read from that same row (`params`, `trial_mean`). (d) resolve() sets the best "
    "parameters before optimizing the stored task."
)
ASSUMPTIONS = ["pandas: Series.rank(ascending=True) gives rank 1 to the smallest value, tuples rank lexicographically; "
               "executor.map yields one result per input in order", "the ParameterGrid len/iter/getitem laws are not decided "
               "(mixed-radix arithmetic copied from scikit-learn)", "closed-world guard R0"]
TRUSTED = ["python ast", "pandas rank/mean summaries"]
HT = f"{PKG}.hypertuner.HyperTuner"


def _debug_print_only(n: ast.AST) -> bool:
    """`if self._debug: print(..)` (no else, nothing but prints): output only"""
    if not (isinstance(n, ast.If) and not n.orelse):
        return False
    t = n.test
    tests = t.values if isinstance(t, ast.BoolOp) and isinstance(t.op, ast.And) else [t]
    if not any(dotted(x) == "self._debug" for x in tests):
        return False
    return all(isinstance(st, ast.Expr) and isinstance(st.value, ast.Call) and isinstance(st.value.func, ast.Name)
               and st.value.func.id == "print" for st in n.body)


def run(prog: Program, res: Result) -> None:
    P = "C19"
    res.rules = ["R1 grid loop complete, parameters set before the trials, row records the same point",
                 "R2 one cost per trial column; __run__ returns optimize()'s best_solution",
                 "R3 polarity typing of the ranking pipeline", "R4 best_parameters and best_score from the winning row",
                 "R5 resolve() applies best parameters then optimizes"]
    res.undecided = ["ParameterGrid __len__/__iter__/__getitem__ agreement (arithmetic laws; no structural rule short of executing it)"]
    closed_world(prog, res)
    ex = prog.func(f"{HT}.execute")
    mod = ex.module

    def bad(rule, node, msg, key=None):
        res.ob(False)
        res.add(Finding(P, f"C19.{rule}", key or construct_key(prog, node, mod), f"{mod.relpath}:{getattr(node, 'lineno', 0)}", msg))

    # ------------------------------------------------------------------ R1
    loops = [st for st in ex.node.body if isinstance(st, ast.For)]
    if len(loops) != 1:
        res.errors.append(f"HyperTuner.execute has {len(loops)} top-level for loops; 1 confirmed")
        return
    loop = loops[0]
    it = loop.iter
    grid_var = None
    pvar = None
    if isinstance(it, ast.Call) and isinstance(it.func, ast.Name) and it.func.id == "enumerate" and len(it.args) == 1 \
            and isinstance(loop.target, ast.Tuple) and len(loop.target.elts) == 2:
        grid_var, pvar = it.args[0], loop.target.elts[1].id
    elif isinstance(loop.target, ast.Name):
        grid_var, pvar = it, loop.target.id
    src = origin(ex.node, grid_var) if grid_var is not None else None
    okg = isinstance(src, ast.Call) and isinstance(src.func, ast.Name) and src.func.id == "list" and len(src.args) == 1 \
        and isinstance(src.args[0], ast.Call) and dotted(src.args[0].func) == "ParameterGrid" \
        and len(src.args[0].args) == 1 and dotted(src.args[0].args[0]) == "self._param_grid"
    if isinstance(src, ast.Call) and dotted(src.func) == "ParameterGrid" and len(src.args) == 1 and dotted(src.args[0]) == "self._param_grid":
        okg = True
    res.ob(okg, f"{mod.relpath}:{loop.lineno} for {norm(loop.target)} in {norm(it)}  (grid = {norm(src) if src is not None else None})",
           construct_key(prog, loop, mod))
    if not okg:
        bad("R1-grid-loop", loop, f"the grid loop iterates `{norm(src) if src is not None else norm(it)}`, not every point of ParameterGrid(self._param_grid)")
    for n in ast.walk(loop):
        if isinstance(n, (ast.Break, ast.Continue, ast.Return)):
            bad("R1-grid-loop", n, f"`{norm(n)}` inside the grid loop: a grid point can be skipped or the sweep cut short")
        if isinstance(n, ast.If) and not any(isinstance(a, (ast.For,)) and a is not loop for a in ancestors(n)) and parent(n) is loop:
            bad("R1-grid-loop", n, f"conditional `{norm(n.test, 60)}` guards part of the per-point work in the grid loop")
    body = loop.body
    i_set = [i for i, st in enumerate(body) if isinstance(st, ast.Expr) and isinstance(st.value, ast.Call)
             and dotted(st.value.func) == "self._algorithm.set_config_parameters"]
    maps = [n for n in ast.walk(loop) if isinstance(n, ast.Call) and isinstance(n.func, ast.Attribute) and n.func.attr == "map"]
    ok_set = len(i_set) == 1 and len(body[i_set[0]].value.args) == 1 and isinstance(body[i_set[0]].value.args[0], ast.Name) \
        and body[i_set[0]].value.args[0].id == pvar
    ok_order = ok_set and len(maps) == 1 and body[i_set[0]].lineno < maps[0].lineno
    res.ob(ok_order, f"{mod.relpath}: set_config_parameters({pvar}) precedes executor.map", "set-before-map")
    if not ok_order:
        why = "set_config_parameters is not called with the loop's grid point" if not ok_set else "the trials are launched before the grid point's parameters are set"
        bad("R1-params-before-trials", body[i_set[0]] if i_set else loop, f"{why}: trials run with another point's parameters",
            key="hypertuner.HyperTuner.execute::set_config_parameters-order")
    # the row records the same variable
    # the list handed to pd.DataFrame for _df_fit is the accumulator of rows
    acc_name = None
    for n in own_nodes(ex):
        if isinstance(n, ast.Assign) and dotted(n.targets[0]) == "self._df_fit":
            v_ = origin(ex.node, n.value) if isinstance(n.value, ast.Name) else n.value
            if isinstance(v_, ast.Call) and dotted(v_.func) in ("pd.DataFrame", "pandas.DataFrame") and v_.args and isinstance(v_.args[0], ast.Name):
                acc_name = v_.args[0].id
    rows = [n for n in ast.walk(loop) if isinstance(n, ast.Call) and isinstance(n.func, ast.Attribute) and n.func.attr == "append"
            and isinstance(n.func.value, ast.Name) and n.func.value.id == acc_name and len(n.args) == 1]
    row_dict = origin(ex.node, rows[0].args[0]) if len(rows) == 1 and isinstance(rows[0].args[0], ast.Name) else (rows[0].args[0] if len(rows) == 1 else None)
    row_name = rows[0].args[0].id if len(rows) == 1 and isinstance(rows[0].args[0], ast.Name) else None
    okr = isinstance(row_dict, ast.Dict) and any(
        isinstance(k, ast.Constant) and k.value == "params" and isinstance(v, ast.Name) and v.id == pvar
        for k, v in zip(row_dict.keys, row_dict.values))
    res.ob(okr, f"{mod.relpath}: row records params={pvar}", "row-params")
    if not okr:
        bad("R1-row-records-point", rows[0] if rows else loop, "the result row does not record the grid point that was evaluated",
            key="hypertuner.HyperTuner.execute::row-params")
    # the table is built from rows collected in THIS call only: a fresh list per execute(), handed to DataFrame
    acc = acc_name
    fresh = False
    if acc:
        defs = [st for st in ex.node.body if isinstance(st, (ast.Assign, ast.AnnAssign)) and st.lineno < loop.lineno
                and any(isinstance(t, ast.Name) and t.id == acc for t in (st.targets if isinstance(st, ast.Assign) else [st.target]))]
        fresh = len(defs) == 1 and isinstance(defs[0].value, ast.List) and not defs[0].value.elts
        others = [n for n in own_nodes(ex) if isinstance(n, ast.Name) and n.id == acc and isinstance(n.ctx, ast.Store)]
        fresh = fresh and len(others) == 1
    def _df_of(n_):
        v_ = origin(ex.node, n_.value) if isinstance(n_.value, ast.Name) else n_.value
        return isinstance(v_, ast.Call) and dotted(v_.func) in ("pd.DataFrame", "pandas.DataFrame") and v_.args and dotted(v_.args[0]) == acc
    dfs = [n for n in own_nodes(ex) if isinstance(n, ast.Assign) and dotted(n.targets[0]) == "self._df_fit" and _df_of(n)]
    okt = fresh and len(dfs) == 1 and dfs[0].lineno > loop.end_lineno
    res.ob(okt, f"{mod.relpath}: `{acc}` is a fresh list per execute() and is what _df_fit is built from", "fresh-rows")
    if not okt:
        bad("R1-rows-of-this-call-only", rows[0] if rows else loop,
            f"the score table is not built from a list created empty in this execute() call (`{acc}`): rows of an earlier call "
            f"(another task, another grid) are ranked together with this call's grid points",
            key="hypertuner.HyperTuner.execute::fresh-rows")
    from ..shared_state import class_level_shared
    for (attr, node, hit, m) in class_level_shared(prog, prog.cls(f"{PKG}.hypertuner.HyperTuner")):
        bad("R1-rows-of-this-call-only", node,
            f"HyperTuner.{attr} is a class-level mutable object that {m.name}() changes in place (`{norm(hit, 50)}`): rows of other "
            f"calls and other tuners are ranked together with this call's grid points", key=f"hypertuner.HyperTuner::{attr}")
    # the map ranges over n_trials items and calls __run__
    if len(maps) == 1:
        m = maps[0]
        okm = len(m.args) == 2
        if okm:
            f0 = origin(ex.node, m.args[0]) if isinstance(m.args[0], ast.Name) else m.args[0]
            okf = isinstance(f0, ast.Call) and dotted(f0.func) == "partial" and f0.args and dotted(f0.args[0]) == "self.__run__"
            rng = origin(ex.node, m.args[1]) if isinstance(m.args[1], ast.Name) else m.args[1]
            inner = rng.args[0] if isinstance(rng, ast.Call) and isinstance(rng.func, ast.Name) and rng.func.id == "list" and rng.args else rng
            okn = isinstance(inner, ast.Call) and isinstance(inner.func, ast.Name) and inner.func.id == "range" and (
                (len(inner.args) == 2 and isinstance(inner.args[0], ast.Constant) and inner.args[0].value == 0 and dotted(inner.args[1]) == "n_trials")
                or (len(inner.args) == 1 and dotted(inner.args[0]) == "n_trials"))
            okm = okf and okn
        res.ob(okm, f"{mod.relpath}:{m.lineno} {norm(m, 100)}", construct_key(prog, m, mod))
        if not okm:
            bad("R2-n-trials", m, f"`{norm(m, 90)}` does not run self.__run__ once for each of range(0, n_trials)")
    # results: best_fit_results[-1][trial_columns[idx]] = g_best.cost
    inner_for = [n for n in ast.walk(loop) if isinstance(n, ast.For) and n is not loop]
    oks = False
    # {"params": params, **trial_costs}: a per-row dict created empty in each iteration of the grid loop and merged into the row
    spread = set()
    if isinstance(row_dict, ast.Dict):
        for k_, v_ in zip(row_dict.keys, row_dict.values):
            if k_ is None and isinstance(v_, ast.Name):
                binds = [st for st in ast.walk(ex.node) if isinstance(st, ast.Assign) and len(st.targets) == 1
                         and isinstance(st.targets[0], ast.Name) and st.targets[0].id == v_.id]
                stores = [x for x in ast.walk(ex.node) if isinstance(x, ast.Name) and x.id == v_.id and isinstance(x.ctx, ast.Store)]
                if len(binds) == 1 and len(stores) == 1 and binds[0] in loop.body and isinstance(binds[0].value, ast.Dict) \
                        and not binds[0].value.keys and rows and binds[0].lineno < rows[0].lineno:
                    spread.add(v_.id)
    if len(inner_for) == 1 and isinstance(inner_for[0].target, ast.Tuple) and len(inner_for[0].target.elts) == 3:
        idx, best, _loss = [e.id if isinstance(e, ast.Name) else None for e in inner_for[0].target.elts]
        for n in ast.walk(inner_for[0]):
            if isinstance(n, ast.Assign) and isinstance(n.targets[0], ast.Subscript):
                t = n.targets[0]
                row_ok = (isinstance(t.value, ast.Subscript) and dotted(t.value.value) == acc_name and norm(t.value.slice) == "-1") or \
                    (row_name is not None and dotted(t.value) == row_name) or (dotted(t.value) in spread and inner_for[0].end_lineno < rows[0].lineno)
                if row_ok and isinstance(t.slice, ast.Subscript) and dotted(t.slice.value) == "trial_columns" \
                        and isinstance(t.slice.slice, ast.Name) and t.slice.slice.id == idx and dotted(n.value) == f"{best}.cost":
                    oks = True
        if any(isinstance(n, (ast.Break, ast.Continue)) for n in ast.walk(inner_for[0])):
            oks = False
    res.ob(oks, f"{mod.relpath}: best_fit_results[-1][trial_columns[idx]] = best.cost for every returned trial", "trial-store")
    if not oks:
        bad("R2-cost-per-trial-column", inner_for[0] if inner_for else loop,
            "the cost of each returned trial is not stored in that trial's own column of the current row",
            key="hypertuner.HyperTuner.execute::trial-store")
    tc = None
    from ..optmodel import simple_assigns
    for (nm_, v_, _st) in simple_assigns(ex.node):
        if nm_ == "trial_columns":
            tc = v_
    oktc = isinstance(tc, ast.ListComp) and len(tc.generators) == 1 and not tc.generators[0].ifs and \
        norm(tc.generators[0].iter) in ("range(1, n_trials + 1)", "range(0, n_trials)", "range(n_trials)")
    res.ob(oktc, f"{mod.relpath}: trial_columns = {norm(tc) if tc is not None else None}", "trial-columns")
    if not oktc:
        bad("R2-cost-per-trial-column", tc or ex.node, "trial_columns does not hold one column per trial", key="hypertuner.HyperTuner.execute::trial-columns")
    # __run__
    rn = prog.func(f"{HT}.__run__")
    rets = [n for n in own_nodes(rn) if isinstance(n, ast.Return)]
    okrun = False
    if len(rets) == 1 and isinstance(rets[0].value, ast.Tuple) and len(rets[0].value.elts) == 3:
        e = rets[0].value.elts
        res_name = e[1].value.id if isinstance(e[1], ast.Attribute) and isinstance(e[1].value, ast.Name) else None
        rd = None
        if res_name:
            rd = reaching_def(rn.node, e[1].value, res_name)
        okrun = (isinstance(e[0], ast.Name) and e[0].id == rn.params[1] and isinstance(e[1], ast.Attribute) and e[1].attr == "best_solution"
                 and rd is not None and rd[2] == "assign" and isinstance(rd[1], ast.Call) and dotted(rd[1].func) == "self._algorithm.optimize"
                 and rd[1].args and dotted(rd[1].args[0]) == "self._problem")
    res.ob(okrun, f"{rn.loc()} __run__ returns (trial id, optimize(self._problem).best_solution, rates)", "__run__")
    if not okrun:
        bad("R2-run-returns-best", rn.node, "__run__ does not return the trial id and the best_solution of self._algorithm.optimize(self._problem, ..)",
            key="hypertuner.HyperTuner.__run__::return")

    # ------------------------------------------------------------------ R3 polarity typing
    after = ex.node.body[ex.node.body.index(loop) + 1:]
    # direction flag variables: names that evaluate to True under MIN and False under MAX
    flags = {}
    for n in own_nodes(ex):
        if isinstance(n, ast.Assign) and len(n.targets) == 1 and isinstance(n.targets[0], ast.Name):
            try:
                vmin = eval_expr(n.value, {"self._problem.minmax", "task.minmax"}, MIN)
                vmax = eval_expr(n.value, {"self._problem.minmax", "task.minmax"}, MAX)
            except Unknown:
                continue
            def truth(v):
                if isinstance(v, ast.Constant) and isinstance(v.value, bool):
                    return v.value
                if isinstance(v, ast.Compare):
                    from ..sgn import eval_test
                    return None
                return None
            tmin, tmax = truth(vmin), truth(vmax)
            nv = n.value
            while isinstance(nv, ast.Call) and isinstance(nv.func, ast.Name) and nv.func.id == "bool" and len(nv.args) == 1:
                nv = nv.args[0]
            if isinstance(nv, ast.Compare):
                from ..sgn import eval_test
                tmin = eval_test(nv, {"self._problem.minmax", "task.minmax"}, MIN)
                tmax = eval_test(nv, {"self._problem.minmax", "task.minmax"}, MAX)
            if tmin is not None and tmax is not None and tmin != tmax:
                flags[n.targets[0].id] = (tmin, tmax)
    res.count("direction-flags", len(flags))
    coltype = {}
    n_rank = 0
    # the score table may be worked on through a local: `df = pd.DataFrame(rows); self._df_fit = df` or `df = self._df_fit`
    frame_names = {"self._df_fit"}
    for n_ in own_nodes(ex):
        if isinstance(n_, ast.Assign) and len(n_.targets) == 1:
            if dotted(n_.targets[0]) == "self._df_fit" and isinstance(n_.value, ast.Name):
                frame_names.add(n_.value.id)
            if isinstance(n_.targets[0], ast.Name) and dotted(n_.value) == "self._df_fit":
                frame_names.add(n_.targets[0].id)

    def col_of(e):
        """self._df_fit["x"] -> "x";  self._df_fit[["a","b"]] -> ["a","b"]; self._df_fit[trial_columns] -> "<trials>" """
        if isinstance(e, ast.Name) and e.id not in frame_names:
            e = origin(ex.node, e)
        if isinstance(e, ast.Subscript) and dotted(e.value) in frame_names:
            s = e.slice
            if isinstance(s, ast.Constant) and isinstance(s.value, str):
                return s.value
            if isinstance(s, ast.List) and all(isinstance(x, ast.Constant) for x in s.elts):
                return [x.value for x in s.elts]
            if isinstance(s, ast.Name) and s.id == "trial_columns":
                return "<trials>"
        return None

    def _strip_bool(v):
        while isinstance(v, ast.Call) and isinstance(v.func, ast.Name) and v.func.id == "bool" and len(v.args) == 1:
            v = v.args[0]
        return v

    def direction_truth(v):
        """(value under MIN, value under MAX) of a boolean expression over the task direction, or None"""
        from ..sgn import eval_test
        v = _strip_bool(v)
        dirs = {"self._problem.minmax", "task.minmax"}
        try:
            a_ = eval_expr(v, dirs, MIN)
            b_ = eval_expr(v, dirs, MAX)
        except Unknown:
            return None

        def truth(x, tt):
            x = _strip_bool(x)
            if isinstance(x, ast.Constant) and isinstance(x.value, bool):
                return x.value
            return eval_test(x, dirs, tt)
        ta, tb = truth(a_, MIN), truth(b_, MAX)
        if ta is None or tb is None:
            return None
        return (ta, tb)

    def asc_of(call):
        for k in call.keywords:
            if k.arg == "ascending":
                v = k.value
                if isinstance(v, ast.Constant):
                    return ("const", bool(v.value))
                if isinstance(v, ast.Name) and v.id in flags:
                    return ("flag", flags[v.id])
                dt = direction_truth(origin(ex.node, v) if isinstance(v, ast.Name) else v)
                if dt is not None:
                    return ("flag", dt) if dt[0] != dt[1] else ("const", dt[0])
                return ("unknown", norm(v))
        return ("const", True)
    best_row_src = None
    for st in after:
        if not isinstance(st, ast.Assign) or len(st.targets) != 1:
            continue
        t = st.targets[0]
        tcol = col_of(t)
        v = st.value
        if isinstance(tcol, str):
            # mean / std of the trial columns
            if isinstance(v, ast.Call) and isinstance(v.func, ast.Attribute) and v.func.attr in ("mean", "std", "median", "min", "max") \
                    and col_of(v.func.value) == "<trials>":
                coltype[tcol] = "RAW-" + v.func.attr
                continue
            if isinstance(v, ast.Call) and isinstance(v.func, ast.Attribute) and v.func.attr == "rank":
                n_rank += 1
                srcx = v.func.value
                srcx = origin(ex.node, srcx) if isinstance(srcx, ast.Name) else srcx
                kind, val = asc_of(v)
                key = construct_key(prog, st, mod)
                # rank of a single column
                c = col_of(srcx)
                if isinstance(c, str):
                    ct = coltype.get(c)
                    if ct is None:
                        res.errors.append(f"rank() of untyped column {c}")
                        continue
                    if kind == "unknown":
                        res.errors.append(f"`{norm(st, 90)}`: the `ascending` argument `{val}` is not understood (undecided)")
                        coltype[tcol] = "RANK"
                        continue
                    if ct.startswith("RAW"):
                        ok = kind == "flag" and val == (True, False)
                        if ct != "RAW-mean":
                            ok = ok or kind == "const"     # spread columns: not part of the statement
                        res.ob(ok, f"{mod.relpath}:{st.lineno} {tcol} = rank({c}: {ct}, ascending={kind}{val})", key)
                        if not ok:
                            bad("R3-polarity", st, f"`{norm(st, 100)}`: the RAW mean-cost column `{c}` is ranked with ascending={val} "
                                                   f"({kind}) - rank 1 must go to the lowest mean for MIN and the highest for MAX")
                        coltype[tcol] = "RANK"
                    else:
                        ok = kind == "const" and val is True
                        res.ob(ok, f"{mod.relpath}:{st.lineno} {tcol} = rank({c}: RANK, ascending={kind}{val})", key)
                        if not ok:
                            bad("R3-polarity", st, f"`{norm(st, 100)}`: a direction flag is applied to RANK data `{c}` (1 = best already): "
                                                   f"for a maximisation task the ranking is inverted twice and the worst point wins")
                        coltype[tcol] = "RANK"
                    continue
                # rank of a tuple of columns: self._df_fit[[..]].apply(tuple, axis=1).rank(...)
                if isinstance(srcx, ast.Call) and isinstance(srcx.func, ast.Attribute) and srcx.func.attr == "apply" \
                        and dotted((list(srcx.args) + [k.value for k in srcx.keywords if k.arg == "func"] + [None])[0]) == "tuple":
                    cols = col_of(srcx.func.value)
                    if isinstance(cols, list) and all(coltype.get(c) == "RANK" for c in cols):
                        ok = kind == "const" and val is True
                        res.ob(ok, f"{mod.relpath}:{st.lineno} {tcol} = rank(tuple{cols}: RANK, ascending={kind}{val})", key)
                        if not ok:
                            bad("R3-polarity", st, f"`{norm(st, 110)}`: the direction flag is applied to a tuple of RANK columns {cols} "
                                                   f"(1 = best already): for a maximisation task the ranking is inverted twice and the grid "
                                                   f"point with the worst mean is selected")
                        if cols and cols[0] != "rank_mean" and coltype.get(cols[0]) == "RANK":
                            pass
                        coltype[tcol] = "RANK"
                        coltype[tcol + ":primary"] = cols[0]
                        continue
                res.errors.append(f"ranking step `{norm(st, 90)}` has a shape the polarity typing does not cover")
                continue
        # best row
        if dotted(t) == "self._best_row":
            best_row_src = st
    res.count("rank-steps", n_rank)
    res.floor("rank-steps", 2)
    if best_row_src is None:
        res.errors.append("assignment of self._best_row not found")
        return
    v = best_row_src.value
    v = origin(ex.node, v) if isinstance(v, ast.Name) else v
    okw = False
    wcol = None
    if isinstance(v, ast.Subscript) and dotted(v.value) in frame_names and isinstance(v.slice, ast.Compare) and len(v.slice.ops) == 1 \
            and isinstance(v.slice.ops[0], ast.Eq):
        l, r = v.slice.left, v.slice.comparators[0]
        for a, b in ((l, r), (r, l)):
            ca = col_of(a)
            if isinstance(ca, str) and isinstance(b, ast.Call) and isinstance(b.func, ast.Attribute) and b.func.attr == "min" \
                    and col_of(b.func.value) == ca:
                wcol = ca
                okw = coltype.get(ca) == "RANK"
            elif isinstance(ca, str) and isinstance(b, ast.Call) and isinstance(b.func, ast.Attribute) and b.func.attr == "max":
                wcol = ca
    if wcol is None:
        res.errors.append(f"winner selection `{norm(v, 90)}` has a shape the polarity typing does not cover")
        return
    res.ob(okw, f"{mod.relpath}:{best_row_src.lineno} winner = rows where {wcol} == {wcol}.min() ({coltype.get(wcol)})",
           construct_key(prog, best_row_src, mod))
    if not okw:
        bad("R3-winner-is-min-rank", best_row_src, f"`{norm(best_row_src, 100)}`: the winner is not the minimum of a RANK column")
    # the final rank's primary key must be the rank of the mean
    prim = coltype.get(f"{wcol}:primary", wcol)
    src_ok = False
    for st in after:
        if isinstance(st, ast.Assign) and col_of(st.targets[0]) == prim and isinstance(st.value, ast.Call) \
                and isinstance(st.value.func, ast.Attribute) and st.value.func.attr == "rank" \
                and coltype.get(col_of(st.value.func.value) if isinstance(col_of(st.value.func.value), str) else "") == "RAW-mean":
            src_ok = True
    res.ob(src_ok, f"primary ranking key `{prim}` is the rank of the trial mean", "primary-key")
    if not src_ok:
        bad("R3-primary-key-is-mean", best_row_src, f"the primary key of the final ranking (`{prim}`) is not the rank of the mean cost over the trials",
            key="hypertuner.HyperTuner.execute::primary-key")
    # ------------------------------------------------------------------ R4
    okp = oksc = False
    for st in after:
        if isinstance(st, ast.Assign) and dotted(st.targets[0]) == "self._best_params":
            okp = norm(st.value) == "self._best_row['params'].values[0]"
        if isinstance(st, ast.Assign) and dotted(st.targets[0]) == "self._best_score":
            vv = st.value
            oksc = isinstance(vv, ast.Subscript) and norm(vv.slice) == "0" and isinstance(vv.value, ast.Attribute) and vv.value.attr == "values" \
                and isinstance(vv.value.value, ast.Subscript) and dotted(vv.value.value.value) == "self._best_row" \
                and isinstance(vv.value.value.slice, ast.Constant) and coltype.get(vv.value.value.slice.value) == "RAW-mean"
    res.ob(okp and oksc, f"{mod.relpath}: best_params / best_score read from self._best_row ('params', mean column)", "same-row")
    if not (okp and oksc):
        bad("R4-same-row", best_row_src, "best_parameters and best_score are not read from the winning row's `params` and mean-cost columns",
            key="hypertuner.HyperTuner.execute::same-row")
    # ------------------------------------------------------------------ R5 resolve
    rs = prog.func(f"{HT}.resolve")
    sets = [n for n in own_nodes(rs) if isinstance(n, ast.Call) and dotted(n.func) == "self._algorithm.set_config_parameters"]
    opts_ = [n for n in own_nodes(rs) if isinstance(n, ast.Call) and dotted(n.func) == "self._algorithm.optimize"]
    rets_ = [n for n in own_nodes(rs) if isinstance(n, ast.Return)]
    okrs = len(sets) == 1 and len(opts_) == 1 and len(rets_) == 1 and sets[0].lineno < opts_[0].lineno
    if okrs:
        a0 = sets[0].args[0] if sets[0].args else (sets[0].keywords[0].value if sets[0].keywords else None)
        a0 = origin(rs.node, a0) if isinstance(a0, ast.Name) else a0
        c = opts_[0]
        t = c.args[0] if c.args else {k.arg: k.value for k in c.keywords}.get("task")
        t = origin(rs.node, t) if isinstance(t, ast.Name) else t
        rv_ = origin(rs.node, rets_[0].value) if rets_[0].value is not None else None
        okrs = dotted(a0) in ("self.best_parameters", "self._best_params") and dotted(t) == "self._problem" and rv_ is c \
            and not any(isinstance(n, (ast.If, ast.For, ast.While, ast.Try)) and not _debug_print_only(n) for n in own_nodes(rs))
    res.ob(okrs, f"{rs.loc()} resolve(): set_config_parameters(best) then optimize(self._problem)", "resolve")
    if not okrs:
        bad("R5-resolve", rs.node, "resolve() does not apply the best parameters and then optimize the stored task",
            key="hypertuner.HyperTuner.resolve::shape")
    # best_parameters property returns _best_params
    bp = prog.func(f"{HT}.best_parameters")


# ---------------------------------------------------------------------------------------------
from ..selftest import V, run_battery  # noqa: E402

_H = "pyvolutionary/hypertuner.py"
_SET = "            self._algorithm.set_config_parameters(params)\n            best_fit_results.append({\"params\": params})\n"
VARIANTS = [
    V("set-config-after-map", _H, _SET, "            best_fit_results.append({\"params\": params})\n", "C19.R1",
      more=[(_H, "                    self.__debug_results__(params, idx, g_best)\n", "                    self.__debug_results__(params, idx, g_best)\n            self._algorithm.set_config_parameters(params)\n")]),
    V("continue-in-grid-loop", _H, _SET, "            if id_params > 50:\n                continue\n" + _SET, "C19.R1"),
    V("winner-by-max", _H, "self._df_fit[\"rank_mean_std\"] == self._df_fit[\"rank_mean_std\"].min()", "self._df_fit[\"rank_mean_std\"] == self._df_fit[\"rank_mean_std\"].max()", "C19.R3"),
    V("mean-ranked-ascending-always", _H, "self._df_fit[\"trial_mean\"].rank(ascending=ascending)", "self._df_fit[\"trial_mean\"].rank(ascending=True)", "C19.R3"),
    V("direction-flag-inverted", _H, "ascending = True if self._problem.minmax == TaskType.MIN else False", "ascending = False if self._problem.minmax == TaskType.MIN else True", "C19.R3"),
    V("score-from-first-row", _H, "self._best_score = self._best_row[\"trial_mean\"].values[0]", "self._best_score = self._df_fit[\"trial_mean\"].values[0]", "C19.R4"),
    V("trials-one-short", _H, "list(range(0, n_trials))", "list(range(1, n_trials))", "C19.R2"),
    V("row-records-previous-point", _H, "best_fit_results.append({\"params\": params})", "best_fit_results.append({\"params\": list_params_grid[id_params - 1]})", "C19.R1"),
    V("resolve-skips-best", _H, "        self._algorithm.set_config_parameters(self.best_parameters)\n        return self._algorithm.optimize(task=self._problem", "        return self._algorithm.optimize(task=self._problem", "C19.R5"),
    V("rows-accumulate-on-instance", _H, "        best_fit_results = []\n", "        best_fit_results = self._rows_cache\n", "C19.R1",
      more=[(_H, "        self._df_loss: pd.DataFrame | None = None\n", "        self._df_loss: pd.DataFrame | None = None\n        self._rows_cache = []\n")]),
    V("grid-truncated", _H, "list_params_grid = list(ParameterGrid(self._param_grid))", "list_params_grid = list(ParameterGrid(self._param_grid))[:-1]", "C19.R1"),
    V("rank-by-std-first", _H, "self._df_fit[[\"rank_mean\", \"rank_std\"]]", "self._df_fit[[\"rank_std\", \"rank_mean\"]]", "C19.R3"),
    V("cost-in-wrong-column", _H, "best_fit_results[-1][trial_columns[idx]] = g_best.cost", "best_fit_results[-1][trial_columns[0]] = g_best.cost", "C19.R2"),
    V("twin-ascending-compare", _H, "ascending = True if self._problem.minmax == TaskType.MIN else False", "ascending = self._problem.minmax == TaskType.MIN", None),
]


def selftest(res: Result, tier: str, seed: int) -> None:
    run_battery(__name__, VARIANTS, res, tier, seed)
