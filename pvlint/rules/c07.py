"""C07 - a seeded run is reproducible: no source of randomness escapes the seed (effect analysis)."""
from __future__ import annotations

import ast

from ..callgraph import Resolver, call_path, own_nodes, reachable, run_roots
from ..flow import origin, top_level_stmts
from ..guard import closed_world
from ..model import PKG, FuncInfo, Program, construct_key, dotted, norm, parent
from ..report import Finding, Result

EXPLANATION = (
    "Effect analysis of randomness sources over the call graph rooted at optimize() for each of the 84 exported "
    "optimizers (hooks resolved through the class's MRO, closures and helper functions followed by reference): every "
    "reference to an external name is classified against a source table - the numpy legacy global API is allowed "
    "(seeded), the stdlib `random` module, numpy Generator/RandomState/default_rng, secrets, os.urandom, uuid, wall "
    "clock, hash()/id() are forbidden, an unlisted numpy.random attribute is unclassified (exit 2). np.random.seed is "
    "called exactly once in the package, in optimize(), with task.seed, before any hook or draw; Task.seed is "
    "int-annotated (typed sink); no draw happens in constructors, set_config_parameters, module or class bodies, "
    "default arguments (their values would persist across the seeding). Each violation carries the call path."
)
ASSUMPTIONS = [
    "numpy's legacy global RandomState is deterministic for a given seed; floating point is deterministic in one process",
    "the user's objective_function is deterministic",
    "thread/process modes are outside the statement",
    "iteration order of a set of ints and of dicts is deterministic in CPython",
]
TRUSTED = ["python ast", "randomness source table (DESIGN appendix C)"]

ABSTRACT = f"{PKG}.abstract.OptimizationAbstract"

LEGACY_OK = {
    "random", "rand", "randn", "randint", "random_integers", "random_sample", "ranf", "sample", "uniform", "normal",
    "standard_normal", "choice", "permutation", "shuffle", "exponential", "beta", "binomial", "gamma", "laplace",
    "logistic", "lognormal", "standard_cauchy", "standard_exponential", "standard_gamma", "standard_t", "triangular",
    "weibull", "poisson", "geometric", "chisquare", "dirichlet", "multivariate_normal", "rayleigh", "pareto", "power",
    "vonmises", "wald", "zipf", "gumbel", "f", "bytes", "multinomial", "hypergeometric", "logseries",
    "negative_binomial", "noncentral_chisquare", "noncentral_f",
}
NP_FORBIDDEN = {"default_rng", "RandomState", "Generator", "SeedSequence", "BitGenerator", "PCG64", "PCG64DXSM",
                "MT19937", "Philox", "SFC64", "get_state", "set_state", "get_bit_generator", "set_bit_generator"}
FORBIDDEN_MODULES = {"random", "secrets", "uuid", "time"}
FORBIDDEN_EXACT = {"os.urandom", "os.getpid", "os.getrandom", "os.times", "datetime.datetime.now", "datetime.datetime.today",
                   "datetime.datetime.utcnow", "datetime.date.today", "os.listdir", "os.scandir", "threading.get_ident"}
FORBIDDEN_BUILTINS = {"hash", "id"}


def classify(ext: str):
    """-> ('draw'|'seed'|'forbidden'|'unclassified'|None, detail)"""
    parts = ext.split(".")
    if parts[0] == "numpy" and len(parts) >= 2 and parts[1] == "random":
        if len(parts) == 2:
            return None, None      # the module object itself; attribute uses are classified at the outer node
        a = parts[2]
        if a == "seed":
            return "seed", ext
        if a in NP_FORBIDDEN:
            return "forbidden", f"{ext} creates/changes a generator the task seed does not control"
        if a in LEGACY_OK:
            return "draw", ext
        return "unclassified", ext
    if parts[0] in FORBIDDEN_MODULES:
        if len(parts) == 1:
            return None, None
        return "forbidden", f"{ext}: `{parts[0]}` is not seeded by task.seed"
    if ext in FORBIDDEN_EXACT:
        return "forbidden", f"{ext} is not a function of the seed"
    return None, None


def _seeded_from_task(n: ast.AST) -> bool:
    """``np.random.default_rng(<expr over task.seed>)`` / RandomState(..): a generator that is a function of the seed
    does not escape it (whether it is re-created per run is C08's concern)."""
    p = parent(n)
    if not (isinstance(p, ast.Call) and p.func is n and (p.args or p.keywords)):
        return False
    a0 = p.args[0] if p.args else p.keywords[0].value
    return any(isinstance(x, ast.Attribute) and x.attr == "seed" and dotted(x.value) in ("self._task", "task") for x in ast.walk(a0))


def function_facts(prog: Program, resolver: Resolver, fi: FuncInfo) -> list:
    """[(node, kind, detail)] for fi's own nodes."""
    out = []
    for n in own_nodes(fi):
        if isinstance(n, ast.Attribute) and isinstance(n.ctx, ast.Load):
            p = parent(n)
            if isinstance(p, ast.Attribute) and p.value is n:
                continue      # classify the outermost dotted expression only
            ext = resolver.ext_name(fi, n)
            if ext:
                k, d = classify(ext)
                if k == "forbidden" and _seeded_from_task(n):
                    k, d = "seeded-generator", f"{ext} seeded from the task seed"
                if k:
                    out.append((n, k, d))
        elif isinstance(n, ast.Name) and isinstance(n.ctx, ast.Load):
            p = parent(n)
            if isinstance(p, ast.Attribute) and p.value is n:
                continue
            ext = resolver.ext_name(fi, n)
            if ext:
                k, d = classify(ext)
                if k is None and ext.split(".")[0] in FORBIDDEN_MODULES:
                    k, d = "forbidden", f"reference to module `{ext}`"
                if k:
                    out.append((n, k, d))
            elif n.id in FORBIDDEN_BUILTINS and isinstance(p, ast.Call) and p.func is n \
                    and resolver.lookup_lexical(fi, n.id) is not None \
                    and getattr(resolver.lookup_lexical(fi, n.id), "kind", None) == "unknown":
                out.append((n, "forbidden", f"builtin {n.id}() depends on the process, not on the seed"))
        elif isinstance(n, (ast.Set, ast.SetComp)):
            for c in ast.walk(n):
                if isinstance(c, ast.Constant) and isinstance(c.value, str):
                    out.append((n, "forbidden", "set of strings: iteration order depends on PYTHONHASHSEED"))
                    break
    return out


def run(prog: Program, res: Result) -> None:
    P = "C07"
    res.rules = ["R1 only seeded sources on the run path of each optimizer (source table)",
                 "R2 np.random.seed(task.seed) is the only seeding call and precedes every hook/draw in optimize()",
                 "R3 no draw in constructors / set_config_parameters / module and class bodies / defaults",
                 "R4 Task.seed is int-annotated (typed sink of np.random.seed)",
                 "R5 no sequence is made from a set whose elements are not provably ints (hash-seed dependent order)"]
    res.undecided = ["numpy's own determinism and float reproducibility across machines", "the user's objective"]
    closed_world(prog, res)
    resolver = Resolver(prog, None)
    facts = {}
    for fi in prog.all_functions():
        ff = function_facts(prog, resolver, fi)
        if ff:
            facts[fi] = ff
    n_draw = sum(1 for ff in facts.values() for f in ff if f[1] == "draw")
    res.count("legacy-global-draw-sites", n_draw)
    res.floor("legacy-global-draw-sites", 300)
    for fi, ff in facts.items():
        for (n, k, d) in ff:
            if k == "unclassified":
                res.errors.append(f"unclassified numpy.random attribute {d} at {fi.module.relpath}:{n.lineno}")

    # R2: seeding
    opt = prog.func(f"{ABSTRACT}.optimize")
    seeds = [(fi, n) for fi, ff in facts.items() for (n, k, d) in ff if k == "seed"]
    res.count("seed-sites", len(seeds))
    ok_seed = False
    for fi, n in seeds:
        key = construct_key(prog, n, fi.module)
        loc = f"{fi.module.relpath}:{n.lineno}"
        if fi is not opt:
            res.ob(False, f"{loc} {norm(parent(n))}", key)
            res.add(Finding(P, "C07.R2-single-seeding", key, loc,
                            f"np.random.seed referenced outside optimize() (in {fi.qualname}): the stream no longer depends on task.seed alone"))
            continue
        call = parent(n)
        good = isinstance(call, ast.Call) and call.func is n and len(call.args) == 1 and not call.keywords
        arg_ok = False
        if good:
            a = origin(opt.node, call.args[0])
            arg_ok = dotted(a) in ("task.seed", "self._task.seed")
        st = call
        while not isinstance(st, ast.stmt):
            st = parent(st)
        body = top_level_stmts(opt.node)
        holder = st
        guard_ok = True
        if holder not in body:
            # tolerated: `if task.seed is not None: np.random.seed(task.seed)`
            pi = parent(holder)
            guard_ok = (isinstance(pi, ast.If) and pi in body and holder in pi.body and isinstance(pi.test, ast.Compare)
                        and dotted(pi.test.left) in ("task.seed", "self._task.seed") and len(pi.test.ops) == 1
                        and isinstance(pi.test.ops[0], ast.IsNot) and isinstance(pi.test.comparators[0], ast.Constant)
                        and pi.test.comparators[0].value is None and not pi.orelse)
            holder = pi if guard_ok else None
        before_ok = False
        if good and arg_ok and guard_ok and holder is not None:
            idx = body.index(holder)
            before_ok = True
            for s in body[:idx]:
                for m in ast.walk(s):
                    if isinstance(m, ast.Call):
                        f = m.func
                        if isinstance(f, ast.Attribute) and isinstance(f.value, ast.Name) and f.value.id == "self":
                            before_ok = False
                        ext = resolver.ext_name(opt, f)
                        if ext and classify(ext)[0] == "draw":
                            before_ok = False
        ok = good and arg_ok and guard_ok and before_ok
        res.ob(ok, f"{loc} {norm(st)}", key)
        if ok:
            ok_seed = True
        else:
            why = ("not a plain call with one argument" if not good else
                   "argument is not task.seed" if not arg_ok else
                   "call is conditional / nested" if not guard_ok else
                   "a hook or a draw precedes the seeding")
            res.add(Finding(P, "C07.R2-seed-first", key, loc, f"np.random.seed in optimize(): {why}"))
    if not ok_seed and not any(f.rule.startswith("C07.R2") for f in res.findings):
        res.ob(False)
        res.add(Finding(P, "C07.R2-seed-first", construct_key(prog, opt.node, opt.module), opt.loc(),
                        "optimize() no longer seeds the global generator with task.seed"))

    # R4: typed sink
    task = prog.cls(prog.TASK)
    ann = task.fields.get("seed")
    if ann is None:
        res.errors.append("Task.seed field vanished")
    else:
        txt = norm(ann.annotation)
        parts = {p.strip() for p in txt.replace("Optional[", "").replace("]", "").split("|")}
        ok = "int" in parts and "float" not in parts and parts <= {"int", "None"}
        res.ob(ok, f"{task.module.relpath}:{ann.lineno} {norm(ann)}", construct_key(prog, ann, task.module))
        if not ok:
            res.add(Finding(P, "C07.R4-seed-int-typed", f"models.Task::seed: {txt}",
                            f"{task.module.relpath}:{ann.lineno}",
                            f"Task.seed is annotated `{txt}`: pydantic coerces the documented integer seed to float and "
                            f"np.random.seed(42.0) raises TypeError"))

    # R3: draws outside the seeded region
    for mod in prog.modules.values():
        for n in ast.walk(mod.tree):
            if isinstance(n, ast.Attribute) and isinstance(n.ctx, ast.Load) and prog.func_of_node(n) is None:
                d = dotted(n)
                if d:
                    t = prog.resolve_dotted(mod, n)
                    if t.kind == "ext" and classify(t.ref)[0] in ("draw", "forbidden", "seed"):
                        p = parent(n)
                        if isinstance(p, ast.Attribute) and p.value is n:
                            continue
                        res.ob(False)
                        res.add(Finding(P, "C07.R3-no-draw-outside-run", construct_key(prog, n, mod),
                                        f"{mod.relpath}:{n.lineno}",
                                        f"`{t.ref}` evaluated at import/class-definition time: its value persists across seeding"))
    # default arguments
    for fi in prog.all_functions():
        a = fi.node.args
        for dflt in list(a.defaults) + [x for x in a.kw_defaults if x is not None]:
            for n in ast.walk(dflt):
                if isinstance(n, ast.Attribute):
                    t = prog.resolve_dotted(fi.module, n)
                    if t.kind == "ext" and classify(t.ref)[0] in ("draw", "forbidden"):
                        res.add(Finding(P, "C07.R3-no-draw-outside-run", construct_key(prog, fi.node, fi.module), fi.loc(),
                                        f"default argument of {fi.qualname} draws `{t.ref}` once at definition time"))

    n_ctx = 0
    for ctx in prog.exported_optimizers():
        n_ctx += 1
        r = Resolver(prog, ctx)
        seen = reachable(prog, ctx, run_roots(prog, ctx), r)
        for f in seen:
            for (n, k, d) in facts.get(f, []):
                if k == "forbidden":
                    key = construct_key(prog, n, f.module)
                    res.ob(False, None, key)
                    res.add(Finding(P, "C07.R1-forbidden-source", key, f"{f.module.relpath}:{n.lineno}",
                                    f"{d}; reachable from {ctx.name}.optimize()", call_path(seen, f)))
        res.ob(True, None, f"ctx:{ctx.name}")
        # constructors
        roots = [prog.lookup_method(ctx, "__init__"), prog.lookup_method(ctx, "set_config_parameters")]
        seen2 = reachable(prog, ctx, [x for x in roots if x is not None], r)
        for f in seen2:
            for (n, k, d) in facts.get(f, []):
                if k in ("draw", "forbidden"):
                    key = construct_key(prog, n, f.module)
                    res.ob(False, None, key)
                    res.add(Finding(P, "C07.R3-no-draw-outside-run", key, f"{f.module.relpath}:{n.lineno}",
                                    f"{d} reachable from the constructor / set_config_parameters of {ctx.name}: drawn before "
                                    f"optimize() seeds the generator", call_path(seen2, f)))
        res.ob(True, f"{ctx.name}: {len(seen)} functions on the run path, {len(seen2)} on the construction path" if n_ctx % 12 == 1 else None,
               f"ctor:{ctx.name}")
    res.count("optimizer-contexts", n_ctx)
    res.floor("optimizer-contexts", 84)

    # ------------------------------------------------------------------ R5 hash-ordered iteration
    # The iteration order of a set of str (or of objects) depends on per-process hash randomisation: a sequence made from such
    # a set differs "in different processes" with the same seed.  Sets of ints (built from range()) iterate deterministically.
    n_sets = 0
    for fi in prog.all_functions():
        for n in own_nodes(fi):
            if not _is_set_expr(fi, n):
                continue
            n_sets += 1
            how = _order_exposed(n)
            if how is None:
                continue
            ints = _int_set(fi, n)
            key = construct_key(prog, n, fi.module)
            res.ob(ints, f"{fi.module.relpath}:{n.lineno} `{norm(n, 50)}` ordered by {how}: elements are ints from range()" if ints else None, key)
            if not ints:
                res.add(Finding(P, "C07.R5-hash-ordered-iteration", key, f"{fi.module.relpath}:{n.lineno}",
                                f"`{norm(n, 60)}` in {fi.qualname} is turned into a sequence ({how}) without sorting and its elements "
                                f"are not provably ints: the order of a set of str depends on the per-process hash seed, so the same "
                                f"task seed gives different runs in different processes"))
    res.count("set-expressions", n_sets)
    res.floor("set-expressions", 20)


def _is_set_expr(fi, n) -> bool:
    if isinstance(n, (ast.Set, ast.SetComp)):
        return True
    if isinstance(n, ast.Call) and isinstance(n.func, ast.Name) and n.func.id in ("set", "frozenset"):
        return True
    if isinstance(n, ast.BinOp) and isinstance(n.op, (ast.Sub, ast.BitOr, ast.BitAnd, ast.BitXor)) \
            and (_is_set_expr(fi, n.left) or _is_set_expr(fi, n.right)):
        return True
    return False


_ORDER_FREE = {"sorted", "set", "frozenset", "len", "sum", "min", "max", "any", "all", "Counter", "collections.Counter"}


def _order_exposed(n):
    """How the set expression n is turned into an ordered thing by its direct consumer, or None (sorted / membership / len /
    a larger set expression / a plain binding whose uses are not followed)."""
    from ..model import parent
    p = parent(n)
    if isinstance(p, ast.BinOp) and isinstance(p.op, (ast.Sub, ast.BitOr, ast.BitAnd, ast.BitXor)):
        return None             # the enclosing set expression is examined itself
    if isinstance(p, ast.Call) and n in p.args:
        d = dotted(p.func) or ""
        if d == "sorted":
            return _key_can_tie(p)
        if d == "list" and len(p.args) == 1:
            # X = list(S); X.sort(..)  ==  X = sorted(S, ..)
            pp = parent(p)
            if isinstance(pp, ast.Assign) and pp.value is p and len(pp.targets) == 1 and isinstance(pp.targets[0], ast.Name):
                blk = parent(pp)
                for fld in ("body", "orelse", "finalbody"):
                    seq = getattr(blk, fld, None)
                    if isinstance(seq, list) and pp in seq:
                        i = seq.index(pp)
                        nxt = seq[i + 1] if i + 1 < len(seq) else None
                        if isinstance(nxt, ast.Expr) and isinstance(nxt.value, ast.Call) and isinstance(nxt.value.func, ast.Attribute) \
                                and nxt.value.func.attr == "sort" and isinstance(nxt.value.func.value, ast.Name) \
                                and nxt.value.func.value.id == pp.targets[0].id and not nxt.value.args:
                            return _key_can_tie(nxt.value)
        if d in ("list", "tuple", "enumerate", "iter", "np.array", "np.asarray", "zip", "map", "dict.fromkeys", "next"):
            return f"{d}(..)"
        if d.endswith((".join", ".extend")) or d in ("np.random.choice", "np.random.permutation", "np.random.shuffle"):
            return f"{d}(..)"
        return None
    if isinstance(p, ast.comprehension) and p.iter is n:
        comp = parent(p)
        if isinstance(comp, (ast.SetComp, ast.DictComp)):
            return None
        cp = parent(comp)
        if isinstance(cp, ast.Call) and comp in cp.args and (dotted(cp.func) or "") in _ORDER_FREE:
            return None
        if isinstance(comp, ast.GeneratorExp) and not (isinstance(cp, ast.Call) and (dotted(cp.func) or "") in
                                                       ("list", "tuple", "np.array", "np.fromiter", "enumerate")
                                                       or (isinstance(cp, ast.Call) and (dotted(cp.func) or "").endswith(".join"))):
            return None         # a generator whose consumer is not known to keep the order
        return "a comprehension"
    if isinstance(p, ast.For) and p.iter is n:
        return "a for loop"
    if isinstance(p, ast.Assign) and p.value is n and len(p.targets) == 1 and isinstance(p.targets[0], ast.Name):
        # a local bound to the set: look at how the local is consumed
        fn = p
        while fn is not None and not isinstance(fn, (ast.FunctionDef, ast.AsyncFunctionDef)):
            fn = parent(fn)
        name = p.targets[0].id
        if fn is not None:
            stores = [x for x in ast.walk(fn) if isinstance(x, ast.Name) and x.id == name and isinstance(x.ctx, ast.Store)]
            if len(stores) == 1:
                for x in ast.walk(fn):
                    if isinstance(x, ast.Name) and x.id == name and isinstance(x.ctx, ast.Load):
                        h = _order_exposed(x)
                        if h:
                            return f"{h} over the local `{name}`"
        return None
    if isinstance(p, ast.Starred):
        return "unpacking"
    return None


def _key_can_tie(call):
    """sorted()/list.sort() are stable: a key under which different elements can compare equal keeps the set's own order among
    them.  None when the key (or its absence) decides every tie by the element itself, else a description."""
    key = next((k.value for k in call.keywords if k.arg == "key"), None)
    if key is None:
        return None
    if isinstance(key, ast.Lambda) and len(key.args.args) == 1:
        a_ = key.args.args[0].arg
        b_ = key.body
        last = b_.elts[-1] if isinstance(b_, ast.Tuple) and b_.elts else b_
        if isinstance(last, ast.Name) and last.id == a_:
            return None          # the element itself decides ties
        if isinstance(last, ast.Call) and isinstance(last.func, ast.Name) and last.func.id in ("str", "repr") \
                and len(last.args) == 1 and isinstance(last.args[0], ast.Name) and last.args[0].id == a_:
            return None
        return f"sort(.., key={norm(key, 40)}) whose key can tie"
    if isinstance(key, ast.Name) and key.id in ("str", "repr"):
        return None
    return None              # an opaque key function: not decided here


def _int_set(fi, n) -> bool:
    """elements provably ints: set(range(..)), a display / comprehension of int-valued index expressions is NOT assumed;
    a difference / intersection whose left operand is an int set; a union / xor of two int sets"""
    if isinstance(n, ast.Call) and isinstance(n.func, ast.Name) and n.func.id in ("set", "frozenset"):
        if not n.args:
            return True
        a = n.args[0]
        if isinstance(a, ast.Call) and isinstance(a.func, ast.Name) and a.func.id == "range":
            return True
        if isinstance(a, ast.Call) and dotted(a.func) in ("np.arange", "numpy.arange"):
            return True
        return False
    if isinstance(n, ast.BinOp):
        if isinstance(n.op, (ast.Sub, ast.BitAnd)):
            return _is_set_expr(fi, n.left) and _int_set(fi, n.left)
        return _is_set_expr(fi, n.left) and _is_set_expr(fi, n.right) and _int_set(fi, n.left) and _int_set(fi, n.right)
    return False


# ---------------------------------------------------------------------------------------------
from ..selftest import V, run_battery  # noqa: E402

_W = "pyvolutionary/whales/whales_optimization.py"
_A = "pyvolutionary/abstract.py"
_H = "pyvolutionary/helpers.py"
_ANCHOR = "        leader_position = np.array(self._best_agent.position)\n"
_IMP = "import numpy as np\n\nfrom ..helpers import parse_obj_doc  # type: ignore\n"
_MO = "pyvolutionary/models.py"
VARIANTS = [
    V("label-sort-key-loses-tie-break", _MO, "        self.__unique_labels__ = sorted(set(y), key=lambda x: (isinstance(x, (int, float)), x))",
      "        self.__unique_labels__ = sorted(set(y), key=lambda x: isinstance(x, (int, float)))", "C07.R5"),
    V("label-order-from-set", _MO, "        self.__unique_labels__ = sorted(set(y), key=lambda x: (isinstance(x, (int, float)), x))",
      "        self.__unique_labels__ = list(set(y))", "C07.R5"),
    V("twin-labels-sorted-plain", _MO, "        self.__unique_labels__ = sorted(set(y), key=lambda x: (isinstance(x, (int, float)), x))",
      "        self.__unique_labels__ = sorted(set(y), key=lambda x: (not isinstance(x, str), x))", None),
    V("stdlib-shuffle-in-optimizer", _W, _ANCHOR, _ANCHOR + "        random.shuffle(self._population)\n", "C07.R1",
      more=[(_W, _IMP, "import random\n" + _IMP)]),
    V("default-rng-per-cycle", _W, _ANCHOR, _ANCHOR + "        rng = np.random.default_rng()\n        jitter = rng.random()\n", "C07.R1"),
    V("seed-after-before-initialization", _A,
      "        np.random.seed(task.seed)\n        evolution: list[Population] = []\n",
      "        evolution: list[Population] = []\n", "C07.R2",
      more=[(_A, "        self.before_initialization()\n", "        self.before_initialization()\n        np.random.seed(task.seed)\n")]),
    V("seed-removed", _A, "        np.random.seed(task.seed)\n", "", "C07.R2"),
    V("constructor-draw", _W, "        super().__init__(config, debug)\n",
      "        super().__init__(config, debug)\n        self.__phase = np.random.uniform()\n", "C07.R3"),
    V("twin-generator-seeded-from-task", _W, _ANCHOR, _ANCHOR + "        rng = np.random.default_rng(self._task.seed)\n", None),
    V("reseed-in-step", _W, _ANCHOR, _ANCHOR + "        np.random.seed(0)\n", "C07.R2"),
    V("wall-clock-jitter", _H, "    r = np.random.random()\n    c = np.cumsum(p)\n",
      "    r = np.random.random() + (time.time() % 1e-9)\n    c = np.cumsum(p)\n", "C07.R1",
      more=[(_H, "import math\nimport numpy as np\n", "import math\nimport time\nimport numpy as np\n")]),
    V("seed-constant", _A, "        np.random.seed(task.seed)\n", "        np.random.seed(1234)\n", "C07.R2"),
    V("module-level-draw", _W, "class WhalesOptimization(OptimizationAbstract):\n",
      "_PHASE = np.random.uniform()\n\n\nclass WhalesOptimization(OptimizationAbstract):\n", "C07.R3"),
    # benign twins
    V("twin-npr-alias", _W, _ANCHOR, _ANCHOR + "        z = npr.uniform()\n", None,
      more=[(_W, _IMP, "from numpy import random as npr\n" + _IMP)]),
    V("twin-guarded-seed", _A, "        np.random.seed(task.seed)\n",
      "        if task.seed is not None:\n            np.random.seed(task.seed)\n", None),
]


def selftest(res: Result, tier: str, seed: int) -> None:
    run_battery(__name__, VARIANTS, res, tier, seed)
