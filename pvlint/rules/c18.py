"""C18 - uniform construction / configuration API of all exported optimizers."""
from __future__ import annotations

import ast

from ..alias import AliasCtx
from ..callgraph import Resolver, call_path, own_nodes, reachable
from ..flow import top_level_stmts
from ..guard import closed_world
from ..model import PKG, FuncInfo, Program, construct_key, dotted, norm, parent
from ..report import Finding, Result

EXPLANATION = (
    "Shape and effect rules evaluated for each of the 84 exported optimizer classes: (R1) __init__ has a default for "
    "every parameter and, transitively through everything it references, never dereferences self._config or its "
    "`config` parameter (attribute, subscript, iteration, truth test, call argument other than super().__init__), so "
    "construction without a configuration cannot fail and nothing configuration-derived is cached at construction; "
    "(R2) set_config_parameters is exactly `self._config = K(**parameters)` with K the class in the constructor's "
    "`config` annotation, a BaseOptimizationConfig subclass; (R3) optimize is not overridden and its first statement is "
    "the configuration test raising ValueError; (R4) `configuration` returns self._config."
)
ASSUMPTIONS = ["pydantic validates K(**d) at construction (out-of-range values raise there)", "closed-world guard R0"]
TRUSTED = ["python ast", "pydantic BaseModel construction semantics"]
ABSTRACT = f"{PKG}.abstract.OptimizationAbstract"


def run(prog: Program, res: Result) -> None:
    P = "C18"
    res.rules = ["R1 constructor: all defaults, no dereference of the configuration (transitively)",
                 "R2 set_config_parameters == `self._config = <annotated config class>(**parameters)`",
                 "R3 optimize sealed; configuration test first", "R4 configuration property returns self._config"]
    res.undecided = ["equality of two whole runs (follows from R1/R2 plus C08's per-run initialisation analysis)"]
    closed_world(prog, res)
    opts = prog.exported_optimizers()
    res.count("exported-optimizers", len(opts))
    res.floor("exported-optimizers", 84)
    base = prog.cls(ABSTRACT)

    # R3
    opt = prog.func(f"{ABSTRACT}.optimize")
    body = top_level_stmts(opt.node)
    first = body[0] if body else None
    ok = (isinstance(first, ast.If) and isinstance(first.test, ast.UnaryOp) and isinstance(first.test.op, ast.Not)
          and dotted(first.test.operand) == "self._config" and len(first.body) == 1 and isinstance(first.body[0], ast.Raise)
          and isinstance(first.body[0].exc, ast.Call) and dotted(first.body[0].exc.func) == "ValueError" and not first.orelse)
    if not ok and isinstance(first, ast.If) and isinstance(first.test, ast.Compare) and dotted(first.test.left) == "self._config" \
            and len(first.test.ops) == 1 and isinstance(first.test.ops[0], ast.Is) and isinstance(first.test.comparators[0], ast.Constant) \
            and first.test.comparators[0].value is None and len(first.body) == 1 and isinstance(first.body[0], ast.Raise) \
            and isinstance(first.body[0].exc, ast.Call) and dotted(first.body[0].exc.func) == "ValueError":
        ok = True
    res.ob(ok, f"{opt.loc()} {norm(first) if first is not None else ''}", construct_key(prog, first or opt.node, opt.module))
    if not ok:
        res.add(Finding(P, "C18.R3-config-test-first", construct_key(prog, first or opt.node, opt.module), opt.loc(),
                        "optimize() does not start with `if not self._config: raise ValueError(...)`"))
    prop = base.methods.get("configuration")
    okp = prop is not None and "property" in prop.decorators and len(top_level_stmts(prop.node)) == 1 and \
        isinstance(top_level_stmts(prop.node)[0], ast.Return) and dotted(top_level_stmts(prop.node)[0].value) == "self._config"
    res.ob(okp, None, "abstract.configuration")
    if not okp:
        res.add(Finding(P, "C18.R4-configuration-property", "abstract.OptimizationAbstract.configuration", base.loc(),
                        "the `configuration` property no longer returns self._config"))
    # base constructor stores config by reference in _config only
    binit = prog.func(f"{ABSTRACT}.__init__")
    stores = [n for n in own_nodes(binit) if isinstance(n, ast.Assign) and any(dotted(t) == "self._config" for t in n.targets)]
    okb = len(stores) == 1 and isinstance(stores[0].value, ast.Name) and stores[0].value.id == "config"
    res.ob(okb, f"{binit.loc()} {norm(stores[0]) if stores else ''}", "abstract.__init__")
    if not okb:
        res.add(Finding(P, "C18.R1-constructor", "abstract.OptimizationAbstract.__init__::self._config", binit.loc(),
                        "the base constructor does not store `config` as self._config"))

    from .c08 import memoised_methods
    for (mc, m, txt) in memoised_methods(prog):
        derefs = [n for n in ast.walk(m.node) if isinstance(n, ast.Attribute) and dotted(n) == "self._config"]
        if derefs:
            res.ob(False)
            res.add(Finding(P, "C18.R1-constructor", f"{mc.qualname[len(PKG) + 1:]}.{m.name}::@{txt}", m.loc(),
                            f"{mc.name}.{m.name} caches a configuration-derived value with `@{txt}`: it survives "
                            f"set_config_parameters, so a reconfigured instance does not run like a freshly configured one"))
    for ci in opts:
        resolver = Resolver(prog, ci)
        # sealed methods
        for m in ("optimize", "configuration", "name"):
            if m in ci.methods or any(m in c.methods for c in prog.mro(ci)[:-1] if c is not base and c is not ci):
                f = prog.lookup_method(ci, m)
                res.ob(False)
                res.add(Finding(P, "C18.R3-optimize-sealed", construct_key(prog, f.node, f.module), f.loc(),
                                f"{ci.name} overrides {m}: HyperTuner/Multitask drive optimizers through the base implementation"))
        init = prog.lookup_method(ci, "__init__")
        scp = prog.lookup_method(ci, "set_config_parameters")
        if init is None or scp is None or scp.cls is base:
            res.ob(False)
            res.add(Finding(P, "C18.R2-set-config-parameters", f"{ci.qualname[len(PKG)+1:]}::set_config_parameters", ci.loc(),
                            f"{ci.name} does not implement set_config_parameters / __init__"))
            continue
        # R1a defaults
        a = init.node.args
        n_pos = len(a.posonlyargs) + len(a.args) - 1
        okd = len(a.defaults) >= n_pos and all(d is not None for d in a.kw_defaults) and a.vararg is None
        res.ob(okd, None, f"{ci.name}.__init__ defaults")
        if not okd:
            res.add(Finding(P, "C18.R1-constructor", construct_key(prog, init.node, init.module) + "::defaults", init.loc(),
                            f"{ci.name}.__init__ has a parameter without default: the class cannot be constructed empty"))
        # R1b no dereference of config, transitively
        seen = reachable(prog, ci, [init], resolver)

        def is_root(fi: FuncInfo, e: ast.AST):
            if isinstance(e, ast.Attribute) and isinstance(e.value, ast.Name) and e.value.id == "self" and e.attr == "_config":
                return "config"
            if isinstance(e, ast.Name) and e.id == "config":
                top = fi
                while top.outer is not None:
                    top = top.outer
                if top.name == "__init__" and "config" in top.params:
                    return "config"
            return None
        actx = AliasCtx(resolver, is_root)
        for f in seen:
            if f.cls is None or not prog.is_subclass(f.cls, ABSTRACT):
                continue
            for n in own_nodes(f):
                bad = None
                if isinstance(n, (ast.Attribute, ast.Subscript)) and isinstance(n.ctx, ast.Load):
                    r = actx.rooted(f, n.value)
                    if r is not None:
                        bad = f"dereferences the configuration: `{norm(n, 60)}`"
                elif isinstance(n, ast.Name) and isinstance(n.ctx, ast.Load) and is_root(f, n):
                    p = parent(n)
                    # allowed: positional/keyword argument of super().__init__(...), or RHS of `self._config = config`
                    if isinstance(p, ast.Call) and isinstance(p.func, ast.Attribute) and p.func.attr == "__init__" \
                            and isinstance(p.func.value, ast.Call) and dotted(p.func.value.func) == "super":
                        continue
                    if isinstance(p, ast.keyword):
                        pp = parent(p)
                        if isinstance(pp, ast.Call) and isinstance(pp.func, ast.Attribute) and pp.func.attr == "__init__":
                            continue
                    if isinstance(p, ast.Assign) and p.value is n and all(dotted(t) == "self._config" for t in p.targets):
                        continue
                    bad = f"uses the `config` argument outside super().__init__: `{norm(p, 70)}`"
                if bad:
                    key = construct_key(prog, n, f.module)
                    res.ob(False, None, key)
                    res.add(Finding(P, "C18.R1-constructor", key, f"{f.module.relpath}:{n.lineno}",
                                    f"{ci.name} constructor {bad}; construction without a configuration fails or a "
                                    f"configuration-derived value is cached and survives set_config_parameters",
                                    call_path(seen, f)))
        res.ob(True, f"{ci.name}.__init__: {len(seen)} functions reachable, no configuration dereference"
               if len(res.samples) < 8 else None, f"{ci.name}.__init__")
        # R2
        ann = None
        for x in a.posonlyargs + a.args + a.kwonlyargs:
            if x.arg == "config" and x.annotation is not None:
                ann = x.annotation
        k_ann = None
        if ann is not None:
            for sub in ast.walk(ann):
                if isinstance(sub, ast.Name) and sub.id not in ("None", "Optional"):
                    t = prog.resolve_name(init.module, sub.id)
                    if t.kind == "class":
                        k_ann = t.ref
        body = top_level_stmts(scp.node)
        ok2, why = False, "body is not the single statement `self._config = K(**parameters)`"
        pname = scp.params[1] if len(scp.params) > 1 else None
        stmts = list(body)
        val = None
        if len(stmts) == 2 and isinstance(stmts[0], ast.Assign) and len(stmts[0].targets) == 1 \
                and isinstance(stmts[0].targets[0], ast.Name) and isinstance(stmts[1], ast.Assign) \
                and isinstance(stmts[1].value, ast.Name) and stmts[1].value.id == stmts[0].targets[0].id:
            val, tgt = stmts[0].value, stmts[1].targets
        elif len(stmts) == 1 and isinstance(stmts[0], ast.Assign):
            val, tgt = stmts[0].value, stmts[0].targets
        if val is not None and len(tgt) == 1 and dotted(tgt[0]) == "self._config" and isinstance(val, ast.Call) \
                and not val.args and len(val.keywords) == 1 and val.keywords[0].arg is None \
                and isinstance(val.keywords[0].value, ast.Name) and val.keywords[0].value.id == pname:
            t = prog.resolve_dotted(scp.module, val.func)
            if t.kind != "class":
                why = f"`{norm(val.func)}` is not a class of the package"
            elif not prog.is_subclass(prog.classes[t.ref], prog.BASECONFIG):
                why = f"{t.ref} is not a BaseOptimizationConfig subclass"
            elif k_ann is None:
                why = "constructor has no class annotation on `config` to compare with"
            elif t.ref != k_ann:
                why = f"builds {t.ref.rsplit('.', 1)[1]} but the constructor is annotated with {k_ann.rsplit('.', 1)[1]}"
            else:
                ok2 = True
        res.ob(ok2, f"{scp.loc()} {ci.name}: {norm(stmts[0]) if stmts else ''}" if len(res.samples) < 16 else None,
               construct_key(prog, scp.node, scp.module))
        if not ok2:
            res.add(Finding(P, "C18.R2-set-config-parameters", construct_key(prog, scp.node, scp.module) + f"::{ci.name}",
                            scp.loc(), f"{ci.name}.set_config_parameters: {why}"))


# ---------------------------------------------------------------------------------------------
from ..selftest import V, run_battery  # noqa: E402

_W = "pyvolutionary/whales/whales_optimization.py"
_A = "pyvolutionary/abstract.py"
_CTOR = "        super().__init__(config, debug)\n\n    def set_config_parameters"
VARIANTS = [
    V("wrong-config-class", _W, "        self._config = WhalesOptimizationConfig(**parameters)\n",
      "        self._config = BaseOptimizationConfig(**parameters)\n", "C18.R2",
      more=[(_W, "from .models import WhalesOptimizationConfig, Whale\n",
             "from .models import WhalesOptimizationConfig, Whale\nfrom ..models import BaseOptimizationConfig\n")]),
    V("ctor-caches-config-value", _W, _CTOR,
      "        super().__init__(config, debug)\n        self.__half = config.population_size // 2 if config else 0\n\n    def set_config_parameters", "C18.R1"),
    V("ctor-required-arg", _W, "    def __init__(self, config: WhalesOptimizationConfig | None = None, debug: bool | None = False):",
      "    def __init__(self, config: WhalesOptimizationConfig | None, debug: bool | None = False):", "C18.R1"),
    V("ctor-deref-through-helper", _W, _CTOR,
      "        super().__init__(config, debug)\n        self.__prepare()\n\n    def __prepare(self):\n        self.__n = self._config.max_cycles\n\n    def set_config_parameters", "C18.R1"),
    V("config-test-removed", _A, "        if not self._config:\n            raise ValueError(\"Invalid configuration\")\n\n", "", "C18.R3"),
    V("config-test-after-seed", _A,
      "        if not self._config:\n            raise ValueError(\"Invalid configuration\")\n\n        np.random.seed(task.seed)\n",
      "        np.random.seed(task.seed)\n        if not self._config:\n            raise ValueError(\"Invalid configuration\")\n\n", "C18.R3"),
    V("set-config-also-derives", _W, "        self._config = WhalesOptimizationConfig(**parameters)\n",
      "        self._config = WhalesOptimizationConfig(**parameters)\n        self._cached = self._config.max_cycles\n", "C18.R2"),
    V("set-config-merges-old", _W, "        self._config = WhalesOptimizationConfig(**parameters)\n",
      "        self._config = WhalesOptimizationConfig(**{**(self._config.model_dump() if self._config else {}), **parameters})\n", "C18.R2"),
    V("twin-two-step-set-config", _W, "        self._config = WhalesOptimizationConfig(**parameters)\n",
      "        cfg = WhalesOptimizationConfig(**parameters)\n        self._config = cfg\n", None),
    V("twin-is-none-test", _A, "        if not self._config:\n", "        if self._config is None:\n", None),
]


def selftest(res: Result, tier: str, seed: int) -> None:
    run_battery(__name__, VARIANTS, res, tier, seed)
