"""C11 - thread/process modes change scheduling, not guarantees: schedule-independent structure."""
from __future__ import annotations

import ast

from ..alias import MUTATORS
from ..callgraph import Resolver, call_path, own_nodes, reachable
from ..guard import closed_world
from ..model import PKG, FuncInfo, Program, ancestors, construct_key, dotted, mangle, norm, parent
from ..report import Finding, Result
from .c07 import classify

EXPLANATION = (
    "Schedule-independent structure of the pooled paths (the interleavings themselves are not explored; these rules hold for "
    "every completion order because they do not mention it). (1) Exactly-once hand-off: every executor.submit site builds one "
    "future per work item in an unfiltered comprehension, and get_pool_results appends the result of every future exactly once "
    "(single unconditional append in a loop over as_completed without break/continue/filter). (2) Pairing at submission: the "
    "incumbent and the challenger are both arguments of the submitted greedy selection, and no consumer of get_pool_results "
    "indexes or zips the completion-ordered result against a submission-ordered list. (3) Worker purity: for each of the 84 "
    "class contexts everything reachable from a submitted callable stores into no optimizer field and mutates no field's "
    "container. (4) Stream distinctness: a submitted callable that can draw from the global RNG must receive an argument that "
    "varies per submission (the random material is drawn by the parent) - otherwise forked workers replay one stream and the "
    "initial population contains duplicates. (5) Only package methods are submitted, so workers run the C01/C02 generators."
)
ASSUMPTIONS = ["concurrent.futures: one Future per submit, as_completed yields each future once, result() returns the worker's value",
               "pickling preserves agent fields", "interleavings / completion orders are not explored (no static argument beyond the above)",
               "auxiliary random fields drawn inside a worker's _init_agent override may still replay a forked stream (noted, outside the stated observable)",
               "closed-world guard R0"]
TRUSTED = ["python ast", "concurrent.futures semantics"]
ABSTRACT = f"{PKG}.abstract.OptimizationAbstract"
ALLOWED_SUBMITTED = {"_init_agent", "_greedy_select_agent"}


def run(prog: Program, res: Result) -> None:
    P = "C11"
    res.rules = ["R1 exactly-once hand-off (submit sites, get_pool_results)", "R2 pairing at submission / no positional use of gathered results",
                 "R3 worker purity per class context", "R4 stream distinctness of RNG-drawing workers", "R5 only package methods are submitted"]
    res.undecided = ["the interleavings / completion orders themselves", "replay of auxiliary random fields drawn inside overridden _init_agent in forked workers"]
    closed_world(prog, res)
    resolver = Resolver(prog, None)
    # ------------------------------------------------------------------ submit sites
    submits = []
    for fi in prog.all_functions():
        for n in own_nodes(fi):
            if isinstance(n, ast.Call) and isinstance(n.func, ast.Attribute) and n.func.attr in ("submit", "map", "apply_async", "imap", "starmap") \
                    and fi.module.name in (f"{PKG}.abstract",) or (
                    isinstance(n, ast.Call) and isinstance(n.func, ast.Attribute) and n.func.attr == "submit"
                    and fi.cls is not None and prog.is_subclass(fi.cls, ABSTRACT)):
                if isinstance(n, ast.Call) and isinstance(n.func, ast.Attribute) and n.func.attr in ("submit", "map"):
                    submits.append((fi, n))
    res.count("submit-sites", len(submits))
    res.floor("submit-sites", 2)
    submitted_methods = set()
    for fi, n in submits:
        key = construct_key(prog, n, fi.module)
        loc = f"{fi.module.relpath}:{n.lineno}"
        # R5 what is submitted
        f0 = n.args[0] if n.args else None
        okm = isinstance(f0, ast.Attribute) and isinstance(f0.value, ast.Name) and f0.value.id == "self" and f0.attr in ALLOWED_SUBMITTED
        if not okm and isinstance(f0, (ast.Name, ast.Starred)) and (
                isinstance(f0, ast.Starred) or f0.id in fi.params or prog.resolve_name(fi.module, f0.id).kind in ("unknown", "var")):
            # a callable handed in through a parameter / local: which method runs in the worker is not decided here
            res.errors.append(f"{loc}: submitted callable `{norm(f0)}` is a parameter or local of {fi.qualname}; the worker's "
                              f"method cannot be identified (undecided)")
            continue
        res.ob(okm, f"{loc} {norm(n, 90)}", key)
        if not okm:
            res.add(Finding(P, "C11.R5-submitted-callable", key, loc,
                            f"`{norm(f0) if f0 is not None else None}` is submitted to the pool: only self._init_agent / "
                            f"self._greedy_select_agent are covered by the agent-generator invariants"))
            continue
        submitted_methods.add(f0.attr)
        # R1 one future per item, unfiltered comprehension
        comp = parent(n)
        okc = isinstance(comp, ast.ListComp) and comp.elt is n and len(comp.generators) == 1 and not comp.generators[0].ifs
        res.ob(okc, None, key + "::comprehension")
        if not okc:
            res.add(Finding(P, "C11.R1-one-future-per-item", key, loc,
                            f"`{norm(n, 70)}` is not the element of an unfiltered single-generator comprehension: a work item can be "
                            f"lost or submitted twice"))
            continue
        gen = comp.generators[0]
        # the futures list goes, unmodified, to get_pool_results whose result is stored wholesale
        st = parent(comp)
        fut = None
        if isinstance(st, ast.Assign) and isinstance(st.targets[0], ast.Name):
            fut = st.targets[0].id
        elif isinstance(st, ast.AnnAssign) and isinstance(st.target, ast.Name):
            fut = st.target.id
        uses = [m for m in own_nodes(fi) if isinstance(m, ast.Name) and m.id == fut and isinstance(m.ctx, ast.Load)] if fut else []

        def gather_call(u):
            p_ = parent(u)
            if isinstance(p_, ast.keyword):
                p_ = parent(p_)
            if isinstance(p_, ast.Call) and dotted(p_.func) == "get_pool_results" and len(p_.args) + len(p_.keywords) == 1:
                return p_
            return None
        direct = parent(comp) if isinstance(parent(comp), (ast.Call, ast.keyword)) else None
        if fut is None and direct is not None:
            uses = [comp]
        oku = len(uses) == 1 and gather_call(uses[0]) is not None
        res.ob(oku, None, key + "::gather")
        if not oku:
            res.add(Finding(P, "C11.R1-one-future-per-item", key + "::gather", loc,
                            f"the futures of `{norm(n, 60)}` are not handed, all and only, to get_pool_results"))
            continue
        gcall = gather_call(uses[0])
        gst = parent(gcall)
        if isinstance(gst, ast.AnnAssign) and gst.value is gcall:
            gst = ast.copy_location(ast.Assign(targets=[gst.target], value=gst.value), gst)
        if isinstance(gst, ast.Return):
            res.ob(True, None, key + "::consumer")      # handed back wholesale to the caller
            okg = True
            gst = None
        else:
            okg = isinstance(gst, ast.Assign) and gst.value is gcall and len(gst.targets) == 1
        rname = None
        if okg and gst is not None:
            t = gst.targets[0]
            if dotted(t) == "self._population":
                rname = None
            elif isinstance(t, ast.Name):
                rname = t.id
                ruses = [m for m in own_nodes(fi) if isinstance(m, ast.Name) and m.id == rname and isinstance(m.ctx, ast.Load)]
                okg = all(isinstance(parent(m), ast.Return) or (isinstance(parent(m), ast.Assign) and dotted(parent(m).targets[0]) == "self._population")
                          for m in ruses)
            else:
                okg = False
        res.ob(okg, None, key + "::consumer")
        if not okg:
            res.add(Finding(P, "C11.R2-no-positional-use-of-gathered-results", key + "::consumer", f"{fi.module.relpath}:{gcall.lineno}",
                            f"the completion-ordered result of get_pool_results is used other than wholesale (`{norm(parent(gcall), 80)}`): "
                            f"indexing or zipping it against a submission-ordered list re-pairs agents by schedule"))
        # R4 stream distinctness: does an argument vary per submission?
        loopvars = {x.id for x in ast.walk(gen.target) if isinstance(x, ast.Name)}
        varying = any(isinstance(x, ast.Name) and x.id in loopvars for a in n.args[1:] for x in ast.walk(a)) or \
            any(isinstance(x, ast.Name) and x.id in loopvars for k in n.keywords for x in ast.walk(k.value))
        draws = _may_draw(prog, f0.attr)
        okd = (not draws) or varying
        # the loop-variant argument must not be able to be None: `_init_agent(None)` draws the position inside the worker
        none_arg = None
        if draws and varying and f0.attr == "_init_agent":
            from ..flow import origin as _origin
            src = _origin(fi.node, gen.iter) if isinstance(gen.iter, ast.Name) else gen.iter
            if isinstance(src, (ast.ListComp, ast.GeneratorExp)) and isinstance(n.args[1] if len(n.args) > 1 else None, ast.Name) \
                    and isinstance(gen.target, ast.Name) and n.args[1].id == gen.target.id:
                el = src.elt
                cands = [el.body, el.orelse] if isinstance(el, ast.IfExp) else [el]
                if any(isinstance(c_, ast.Constant) and c_.value is None for c_ in cands):
                    none_arg = el
        if none_arg is not None:
            okd = False
        # the varying argument must itself be parent-drawn data, not just an index: accept any loop-variant argument
        res.ob(okd, f"{loc} submitted {f0.attr}: may draw RNG={bool(draws)}, per-submission argument={varying}", key + "::stream")
        if not okd and none_arg is not None:
            res.add(Finding(P, "C11.R4-stream-distinctness", key, loc,
                            f"the position handed to each submitted _init_agent is `{norm(none_arg, 60)}`, which can be None: the worker "
                            f"then draws the position itself, and forked workers replay the same random stream (duplicate agents)"))
        elif not okd:
            res.add(Finding(P, "C11.R4-stream-distinctness", key, loc,
                            f"`{norm(n, 70)}` submits a callable that draws from the global RNG ({draws[0]}) with no per-submission "
                            f"argument: with the fork start method every worker process replays the same stream and the initial "
                            f"population contains exact duplicates"))
    # serial and pooled creation agree on the number of agents (shared obligation with C10)
    from .c10 import check_generate_agents
    _n, issues = check_generate_agents(prog)
    res.ob(not issues, "_generate_agents: serial and pooled branches both yield one agent per element of range(0, n_agents)", "generate_agents-agree")
    for (node, msg) in issues:
        res.add(Finding(P, "C11.R1-same-count-as-serial", construct_key(prog, node, prog.modules[f"{PKG}.abstract"]),
                        f"pyvolutionary/abstract.py:{node.lineno}", msg))
    # ------------------------------------------------------------------ get_pool_results
    okh, why = check_get_pool_results(prog)
    gp = prog.func(f"{PKG}.helpers.get_pool_results")
    if okh is None:
        res.errors.append(f"{gp.loc()} get_pool_results: {why} (undecided)")
    else:
        res.ob(okh, f"{gp.loc()} get_pool_results: one result per completed future, unfiltered", "get_pool_results")
    if okh is False:
        res.add(Finding(P, "C11.R1-gather-exactly-once", "helpers.get_pool_results::loop", gp.loc(), f"get_pool_results: {why}"))
    # executor factory: thread -> ThreadPoolExecutor else ProcessPoolExecutor, both with n_workers
    ge = prog.func(f"{PKG}.helpers.get_pool_executor")
    names = {dotted(n) for n in own_nodes(ge) if isinstance(n, ast.Attribute)}
    oke = {"parallel.ThreadPoolExecutor", "parallel.ProcessPoolExecutor"} <= names
    res.ob(oke, f"{ge.loc()} get_pool_executor returns a Thread/ProcessPoolExecutor", "get_pool_executor")
    if not oke:
        res.add(Finding(P, "C11.R1-gather-exactly-once", "helpers.get_pool_executor::kinds", ge.loc(),
                        "get_pool_executor no longer returns concurrent.futures executors (the exactly-once argument relies on their semantics)"))

    # ------------------------------------------------------------------ R3 worker purity per class
    n_ctx = 0
    for ctx in prog.exported_optimizers():
        n_ctx += 1
        r = Resolver(prog, ctx)
        roots = [prog.lookup_method(ctx, m) for m in sorted(submitted_methods or ALLOWED_SUBMITTED)]
        seen = reachable(prog, ctx, [x for x in roots if x is not None], r)
        impure = []
        for f in seen:
            # the optimizer itself and the objects every worker shares with it: the task, its variables, their encoders
            shared_obj = f.cls is not None and (prog.is_subclass(f.cls, ABSTRACT) or prog.is_subclass(f.cls, prog.TASK)
                                                or prog.is_subclass(f.cls, prog.VARIABLE)
                                                or f.cls.qualname == f"{PKG}.models.LabelEncoder")
            if not shared_obj or f.name == "__init__":
                continue
            for n in own_nodes(f):
                hit = None
                if isinstance(n, (ast.Attribute, ast.Subscript)) and isinstance(n.ctx, (ast.Store, ast.Del)):
                    b = n
                    while isinstance(b, (ast.Attribute, ast.Subscript)):
                        b = b.value
                    if isinstance(b, ast.Name) and b.id == "self":
                        hit = n
                elif isinstance(n, ast.Call) and isinstance(n.func, ast.Attribute) and n.func.attr in MUTATORS:
                    b = n.func.value
                    depth = 0
                    while isinstance(b, (ast.Attribute, ast.Subscript)):
                        b = b.value
                        depth += 1
                    if isinstance(b, ast.Name) and b.id == "self" and depth >= 1:
                        hit = n
                if hit is not None:
                    impure.append((f, hit))
        for (f, hit) in impure:
            key = construct_key(prog, hit, f.module)
            res.ob(False, None, key)
            res.add(Finding(P, "C11.R3-worker-purity", key, f"{f.module.relpath}:{hit.lineno}",
                            f"{f.qualname} runs inside pool workers (context {ctx.name}) and writes optimizer state "
                            f"`{norm(parent(hit) if isinstance(hit, (ast.Attribute, ast.Subscript)) else hit, 70)}`: a data race in thread "
                            f"mode and a silently lost update in process mode", call_path(seen, f)))
        res.ob(not impure, f"{ctx.name}: {len(seen)} functions reachable from submitted callables, pure" if n_ctx % 14 == 1 else None,
               f"purity:{ctx.name}")
    res.count("optimizer-contexts", n_ctx)
    res.floor("optimizer-contexts", 84)


def check_get_pool_results(prog: Program) -> tuple:
    """Canonical form (after normalisation): the function returns an unfiltered comprehension `<f>.result()` over
    as_completed(<its parameter>) (or over the parameter itself); nothing else touches the list.  -> (ok, why)"""
    from ..flow import origin, returns_of
    gp = prog.func(f"{PKG}.helpers.get_pool_results")
    param = gp.params[0] if gp.params else None
    rets = returns_of(gp.node)
    if len(rets) != 1 or rets[0].value is None:
        return False, "not a single return of the gathered list"
    v = origin(gp.node, rets[0].value)
    if not isinstance(v, ast.ListComp):
        loops = [n for n in own_nodes(gp) if isinstance(n, (ast.For, ast.While))]
        if loops:
            jumps = [n for n in ast.walk(loops[0]) if isinstance(n, (ast.Break, ast.Continue, ast.If, ast.Try, ast.Return))]
            apps = [n for n in ast.walk(loops[0]) if isinstance(n, ast.Call) and isinstance(n.func, ast.Attribute) and n.func.attr in ("append", "extend", "insert")]
            if jumps or len(apps) != 1:
                return False, "results are not appended exactly once per future (filter, break, try/except or extra append)"
        return None, f"the returned value `{norm(v, 60)}` is not recognised as the list of every future's result"
    if len(v.generators) != 1:
        return False, "nested comprehension over the futures"
    g = v.generators[0]
    if g.ifs:
        return False, f"results are filtered (`if {norm(g.ifs[0], 50)}`): a pooled evaluation can be lost"
    it = origin(gp.node, g.iter) if isinstance(g.iter, ast.Name) and g.iter.id != param else g.iter
    ac_args = (list(it.args) + [k.value for k in it.keywords if k.arg == "fs"]) if isinstance(it, ast.Call) else []
    over = (isinstance(it, ast.Call) and dotted(it.func) in ("parallel.as_completed", "as_completed", "concurrent.futures.as_completed")
            and len(ac_args) == 1 and dotted(ac_args[0]) == param and all(k.arg in ("fs", "timeout") for k in it.keywords)) \
        or dotted(it) == param \
        or (isinstance(it, ast.Call) and dotted(it.func) in ("parallel.wait",) and False)
    if not over:
        sub = it.args[0] if isinstance(it, ast.Call) and it.args else it
        if isinstance(sub, ast.Subscript) and dotted(sub.value) == param:
            return False, f"the comprehension ranges over `{norm(it, 50)}`, not over every submitted future"
        return None, f"what the comprehension ranges over (`{norm(it, 50)}`) is not recognised as every submitted future"
    e = v.elt
    if not (isinstance(e, ast.Call) and isinstance(e.func, ast.Attribute) and e.func.attr == "result" and isinstance(g.target, ast.Name)
            and dotted(e.func.value) == g.target.id):
        return False, f"the element `{norm(e, 50)}` is not the future's own result()"
    # the list is not edited between the comprehension and the return
    name = rets[0].value.id if isinstance(rets[0].value, ast.Name) else None
    if name:
        for n in own_nodes(gp):
            if isinstance(n, ast.Call) and isinstance(n.func, ast.Attribute) and dotted(n.func.value) == name \
                    and n.func.attr in ("pop", "remove", "clear", "append", "extend", "insert", "sort", "reverse"):
                return False, f"the gathered list is edited afterwards (`{norm(n, 50)}`)"
            if isinstance(n, ast.Subscript) and dotted(n.value) == name and isinstance(n.ctx, (ast.Store, ast.Del)):
                return False, "the gathered list is edited afterwards"
    return True, ""


def _may_draw(prog: Program, method: str) -> list:
    """Can the base implementation of a submitted method (or anything it reaches) draw from the global RNG?"""
    base = prog.cls(ABSTRACT)
    m = base.methods.get(method)
    if m is None:
        return []
    r = Resolver(prog, base)
    seen = reachable(prog, base, [m], r)
    out = []
    for f in seen:
        for n in own_nodes(f):
            if isinstance(n, ast.Attribute) and isinstance(n.ctx, ast.Load):
                ext = r.ext_name(f, n)
                if ext and classify(ext)[0] == "draw":
                    out.append(f"{ext} in {f.qualname}")
    return out


# ---------------------------------------------------------------------------------------------
from ..selftest import V, run_battery  # noqa: E402

_A = "pyvolutionary/abstract.py"
_H = "pyvolutionary/helpers.py"
_B = "pyvolutionary/bee_colony/bee_colony_optimization.py"
VARIANTS = [
    V("conditional-append-in-gather", _H, "    for i in parallel.as_completed(executors):\n        res.append(i.result())\n",
      "    for i in parallel.as_completed(executors):\n        if i.exception() is None:\n            res.append(i.result())\n", "C11.R1"),
    V("break-in-gather", _H, "    for i in parallel.as_completed(executors):\n        res.append(i.result())\n",
      "    for i in parallel.as_completed(executors):\n        res.append(i.result())\n        if len(res) >= 64:\n            break\n", "C11.R1"),
    V("pair-after-gather", _A,
      "            executors = [executor.submit(\n                self._greedy_select_agent, agent, new_population[idx]\n            ) for idx, agent in enumerate(self._population)]\n            self._population = get_pool_results(executors)",
      "            executors = [executor.submit(\n                self._init_agent, new_population[idx].position\n            ) for idx, agent in enumerate(self._population)]\n            fresh = get_pool_results(executors)\n            self._population = [self._greedy_select_agent(a, b) for a, b in zip(self._population, fresh)]",
      "C11.R2"),
    V("worker-writes-field", _B, "        return new_agent if new_agent.cost < agent.cost else agent.model_copy(update={\"trials\": agent.trials + 1})",
      "        self._n_rejected = getattr(self, \"_n_rejected\", 0) + 1\n        return new_agent if new_agent.cost < agent.cost else agent.model_copy(update={\"trials\": agent.trials + 1})", "C11.R3"),
    V("filtered-submission", _A,
      "            ) for idx, agent in enumerate(self._population)]\n            self._population = get_pool_results(executors)",
      "            ) for idx, agent in enumerate(self._population) if idx < len(new_population)]\n            self._population = get_pool_results(executors)", "C11.R1"),
    V("lambda-submitted", _A, "executor.submit(self._init_agent, position) for position in positions]",
      "executor.submit(lambda p: self._init_agent(p), position) for position in positions]", "C11.R5"),
    V("argless-init-agent-submission", _A, "executor.submit(self._init_agent, position) for position in positions]",
      "executor.submit(self._init_agent) for _ in positions]", "C11.R4"),
    V("worker-appends-to-shared-list", _A, "        agent_copy = agent.model_copy()\n", "        agent_copy = agent.model_copy()\n        self._errors.append(0.0)\n", "C11.R3"),
    V("twin-results-via-local", _A, "            self._population = get_pool_results(executors)", "            gathered = get_pool_results(executors)\n            self._population = gathered", None),
]


def selftest(res: Result, tier: str, seed: int) -> None:
    run_battery(__name__, VARIANTS, res, tier, seed)
