"""C20 - Multitask runs everything with the designated mode: table-shape typing + loop completeness."""
from __future__ import annotations

import ast

from ..callgraph import own_nodes
from ..flow import origin
from ..guard import closed_world
from ..model import PKG, Program, ancestors, construct_key, dotted, norm, parent
from ..report import Finding, Result

EXPLANATION = (
    "Shape typing of Multitask.__check_input__: every return branch is evaluated over the domain {ELEM, SEQ[k], "
    "LIST[k](x), GENERATOR, FLAT[k]} with k in {n = #algorithms, m = #tasks, n*m} taken from the branch guard; the consumer "
    "__get_mode__ indexes self._modes[id_optimizer][id_task], so every branch must yield LIST[n](row of m) with rows = "
    "algorithms, and a generator expression may never be handed to deepcopy (always TypeError). __check_modes__ is called from "
    "__init__ after _modes is set and rejects unknown modes with ValueError. Path rule on execute(): two unconditional nested "
    "loops over enumerate(self._algorithms) x enumerate(self._tasks) whose body calls __parallelize__ with the loop's own "
    "optimizer and task, the mode of __get_mode__(id_optimizer, id_task) and a trial list of n_trials items, appending one "
    "DataFrame per algorithm built from a per-algorithm dict; __parallelize__ maps __run__ over the whole trial list with that "
    "optimizer/task/mode and keeps every result; __run__ calls optimize(task, mode=str(mode), ..). export_results: the directory "
    "used in iteration k has no loop-carried reaching definition."
)
ASSUMPTIONS = ["executor.map yields one result per trial in order", "pandas builds one column per dict key",
               "tasks of distinct classes (column names are <algorithm>_<task class>)", "closed-world guard R0"]
TRUSTED = ["python ast"]
MT = f"{PKG}.multitask.Multitask"


def _dim(e: ast.AST):
    d = dotted(e)
    if d == "self._n_algorithms":
        return "n"
    if d == "self._m_tasks":
        return "m"
    if isinstance(e, ast.BinOp) and isinstance(e.op, ast.Mult) and {_dim(e.left), _dim(e.right)} == {"n", "m"}:
        return "n*m"
    if isinstance(e, ast.Constant) and isinstance(e.value, int):
        return str(e.value)
    return None


def _range_dim(e: ast.AST):
    if isinstance(e, ast.Call) and isinstance(e.func, ast.Name) and e.func.id == "range":
        if len(e.args) == 1:
            return _dim(e.args[0])
        if len(e.args) == 2 and isinstance(e.args[0], ast.Constant) and e.args[0].value == 0:
            return _dim(e.args[1])
    return None


def shape(e: ast.AST, vals: str, guard_len, idx_dims: dict):
    """Abstract shape of an expression built from the parameter `vals`."""
    if isinstance(e, ast.Name) and e.id == vals:
        return ("FLAT", guard_len)
    if isinstance(e, ast.Subscript) and isinstance(e.value, ast.Name) and e.value.id == vals:
        if isinstance(e.slice, ast.Slice) and e.slice.step is not None:
            return ("SEQ", "strided")
        if isinstance(e.slice, ast.Slice):
            lo, hi = e.slice.lower, e.slice.upper
            # values[i*A:(i+1)*B] with A != B: the block width and the block stride disagree
            def _mult(x):
                if isinstance(x, ast.BinOp) and isinstance(x.op, ast.Mult):
                    for a_, b_ in ((x.left, x.right), (x.right, x.left)):
                        if isinstance(b_, ast.Attribute):
                            return a_, norm(b_)
                return None, None
            la, lw = _mult(lo) if lo is not None else (None, None)
            ha, hw = _mult(hi) if hi is not None else (None, None)
            if lw and hw and lw != hw and isinstance(la, ast.Name) and isinstance(ha, ast.BinOp) and isinstance(ha.op, ast.Add) \
                    and any(isinstance(z, ast.Name) and z.id == la.id for z in (ha.left, ha.right)):
                return ("SEQ", f"ragged:{lw}/{hw}")
            # values[i*m:(i+1)*m]
            txt = norm(e.slice)
            if "self._m_tasks" in txt and "self._n_algorithms" not in txt:
                # contiguous blocks of m: values[i*m:(i+1)*m] or values[start:start+m] with start stepping by m
                lo_names = ({x.id for x in ast.walk(lo) if isinstance(x, ast.Name)} - {"self"}) if lo is not None else set()
                if lo_names and all(idx_dims.get(nm, "?") in ("n", "start:m") for nm in lo_names):
                    return ("SEQ", "m")
                return ("SEQ", "?")
            return ("SEQ", "?")
        if isinstance(e.slice, ast.Name):
            return ("ELEM", idx_dims.get(e.slice.id, "?"))
        if isinstance(e.slice, ast.Constant):
            return ("ELEM", "const")
        # values[i * m + j]
        names = {n.id for n in ast.walk(e.slice) if isinstance(n, ast.Name)}
        if names:
            return ("ELEM", "+".join(sorted(idx_dims.get(x, "?") for x in names)))
        return ("ELEM", "?")
    if isinstance(e, ast.Call) and isinstance(e.func, ast.Name) and e.func.id in ("deepcopy", "copy", "list", "tuple"):
        if len(e.args) == 1:
            if isinstance(e.args[0], ast.GeneratorExp):
                if e.func.id in ("deepcopy", "copy"):
                    return ("GENERATOR-TO-DEEPCOPY",)
                g = e.args[0]
                return shape(ast.ListComp(elt=g.elt, generators=g.generators), vals, guard_len, idx_dims)
            inner = shape(e.args[0], vals, guard_len, idx_dims)
            if inner[0] == "FLAT":
                return ("SEQ", inner[1])
            return inner
    if isinstance(e, ast.Name) and e.id in idx_dims and idx_dims[e.id].startswith("elem:"):
        return ("ELEM", idx_dims[e.id][5:])
    if isinstance(e, (ast.ListComp, ast.GeneratorExp)) and len(e.generators) == 1 and not e.generators[0].ifs:
        g = e.generators[0]
        d = _range_dim(g.iter)
        idx = dict(idx_dims)
        if isinstance(g.iter, ast.Name) and g.iter.id == vals and isinstance(g.target, ast.Name):
            # iterating the tuple itself: one entry per element, the loop variable *is* the element
            idx[g.target.id] = f"elem:{guard_len}"
            inner = shape(e.elt, vals, guard_len, idx)
            return ("LIST", guard_len or "?", inner)
        if d is None and isinstance(g.iter, ast.Call) and isinstance(g.iter.func, ast.Name) and g.iter.func.id == "range" \
                and len(g.iter.args) == 3 and isinstance(g.iter.args[0], ast.Constant) and g.iter.args[0].value == 0 \
                and _dim(g.iter.args[1]) == "n*m" and _dim(g.iter.args[2]) == "m":
            d = "n"       # range(0, n*m, m) has n steps
            if isinstance(g.target, ast.Name):
                idx[g.target.id] = "start:m"
            inner = shape(e.elt, vals, guard_len, idx)
            return ("LIST", d, inner)
        if isinstance(g.target, ast.Name):
            idx[g.target.id] = d or "?"
        inner = shape(e.elt, vals, guard_len, idx)
        return ("LIST", d or "?", inner)
    if isinstance(e, ast.Constant) and e.value is None:
        return ("NONE",)
    return ("?", norm(e, 60))


def is_table(sh) -> tuple:
    """-> (ok, why).  A table is LIST[n] of rows of m with rows = algorithms."""
    if sh[0] != "LIST":
        return False, f"returns {show(sh)}, not a nested list"
    if sh[1] != "n":
        return False, f"the outer list has {sh[1]} entries, not one row per algorithm"
    row = sh[2]
    if row[0] == "LIST":
        if row[1] != "m":
            return False, f"rows have {row[1]} entries, not one per task"
        el = row[2]
        if el[0] != "ELEM":
            return False, f"row entries are {show(el)}"
        return True, ""
    if row[0] == "SEQ":
        if row[1] == "strided":
            return False, "each row is a strided slice of the tuple (every k-th entry): the per-pair modes are read transposed"
        if str(row[1]).startswith("ragged:"):
            a_, b_ = row[1][7:].split("/")
            return False, (f"row k starts at k * {a_} but ends at (k + 1) * {b_}: the rows overlap or run short unless the two "
                           f"counts are equal, pairs run in a neighbouring pair's mode")
        if row[1] != "m":
            return False, f"each row is a sequence of {row[1]} modes, not one per task"
        return True, ""
    if row[0] == "GENERATOR-TO-DEEPCOPY":
        return False, "each row is deepcopy(<generator expression>): TypeError (cannot pickle 'generator' object)"
    return False, f"rows are {show(row)}"


def show(sh) -> str:
    if sh[0] == "LIST":
        return f"LIST[{sh[1]}]({show(sh[2])})"
    if sh[0] in ("SEQ", "FLAT", "ELEM"):
        return f"{sh[0]}[{sh[1]}]"
    return str(sh[0]) + (f"({sh[1]})" if len(sh) > 1 else "")


def run(prog: Program, res: Result) -> None:
    P = "C20"
    res.rules = ["R1 every branch of __check_input__ yields an n x m table (rows = algorithms); no generator to deepcopy",
                 "R2 __check_modes__ runs at construction and rejects unknown modes", "R3 execute(): complete nested loops with own "
                 "optimizer/task/mode and n_trials trials; one table per algorithm", "R4 __parallelize__/__run__ forward optimizer, task, mode",
                 "R5 export path has no loop-carried definition"]
    res.undecided = []
    closed_world(prog, res)
    ci = prog.cls(MT)
    mod = ci.module

    def bad(rule, node, msg, key=None):
        res.ob(False)
        res.add(Finding(P, f"C20.{rule}", key or construct_key(prog, node, mod), f"{mod.relpath}:{getattr(node, 'lineno', 0)}", msg))

    # ------------------------------------------------------------------ R1
    chk = prog.func(f"{MT}.__check_input__")
    vals = chk.params[3] if len(chk.params) > 3 else "values"
    n_br = 0
    for st in chk.node.body:
        if isinstance(st, ast.If) and len(st.body) == 1 and isinstance(st.body[0], ast.Return):
            t = st.test
            guard_len = None
            if isinstance(t, ast.Compare) and len(t.ops) == 1 and isinstance(t.ops[0], ast.Eq) and isinstance(t.left, ast.Call) \
                    and dotted(t.left.func) == "len" and dotted(t.left.args[0]) == vals:
                guard_len = _dim(t.comparators[0])
            r = st.body[0]
            if r.value is None or (isinstance(r.value, ast.Constant) and r.value.value is None):
                continue
            if guard_len is None:
                continue
            n_br += 1
            sh = shape(r.value, vals, guard_len, {})
            ok, why = is_table(sh)
            if not ok and "?" in repr(sh):
                res.errors.append(f"__check_input__ branch len == {guard_len}: shape {show(sh)} not understood (undecided)")
                continue
            # orientation: per-algorithm (guard n) rows index values by the outer variable; per-task rows are the whole sequence
            if ok and guard_len == "n" and not (sh[2][0] == "LIST" and sh[2][2] in (("ELEM", "n"),)):
                ok, why = False, "with one mode per algorithm, row k must repeat values[k] for every task"
            if ok and guard_len == "m" and not (sh[2][0] == "SEQ" or (sh[2][0] == "LIST" and sh[2][2] == ("ELEM", "m"))):
                ok, why = False, "with one mode per task, every row must be the sequence of per-task modes"
            if ok and guard_len == "1" and not (sh[2][0] == "LIST" and sh[2][2] == ("ELEM", "const")):
                ok, why = False, "with a single mode every entry must be that mode"
            key = f"multitask.Multitask.__check_input__::branch len(values) == {guard_len}"
            res.ob(ok, f"{mod.relpath}:{r.lineno} branch len == {guard_len}: {show(sh)}", key)
            if not ok:
                bad("R1-modes-table-shape", r, f"branch `len({vals}) == {guard_len}` of __check_input__: {why}; "
                                                f"__get_mode__ indexes self._modes[id_optimizer][id_task]", key=key)
    res.count("check_input-branches", n_br)
    res.floor("check_input-branches", 4)
    for n in ast.walk(ci.node):
        if isinstance(n, ast.Call) and dotted(n.func) in ("deepcopy", "copy.deepcopy") and n.args and isinstance(n.args[0], ast.GeneratorExp):
            key = construct_key(prog, n, mod)
            if not any(f.key.endswith("len(values) == n") for f in res.findings):
                bad("R1-no-generator-to-deepcopy", n, f"`{norm(n, 80)}` deep-copies a generator expression: TypeError at construction")
    # consumer orientation
    gm = prog.func(f"{MT}.__get_mode__")
    subs = [n for n in own_nodes(gm) if isinstance(n, ast.Subscript) and isinstance(n.value, ast.Subscript) and dotted(n.value.value) == "self._modes"]
    okc = len(subs) == 1 and isinstance(subs[0].value.slice, ast.Name) and subs[0].value.slice.id == gm.params[1] \
        and isinstance(subs[0].slice, ast.Name) and subs[0].slice.id == gm.params[2]
    res.ob(okc, f"{gm.loc()} __get_mode__ reads self._modes[{gm.params[1]}][{gm.params[2]}]", "get_mode-orientation")
    if not okc:
        bad("R1-modes-table-shape", gm.node, "__get_mode__ does not index self._modes[id_optimizer][id_task]", key="multitask.Multitask.__get_mode__::orientation")
    # default when modes is None is serial; invalid mode raises ValueError
    okd = any(isinstance(n, ast.Constant) and n.value == "serial" for n in own_nodes(gm)) or \
        any(dotted(n) == "ModeSolver.SERIAL" for n in own_nodes(gm))
    res.ob(okd, None, "get_mode-default")
    if not okd:
        bad("R1-modes-table-shape", gm.node, "__get_mode__ no longer defaults to 'serial' when no modes were given", key="multitask.Multitask.__get_mode__::default")

    # ------------------------------------------------------------------ R2
    init = prog.func(f"{MT}.__init__")
    a_modes = [n for n in init.node.body if isinstance(n, ast.Assign) and dotted(n.targets[0]) == "self._modes"]
    c_modes = [n for n in init.node.body if isinstance(n, ast.Expr) and isinstance(n.value, ast.Call) and dotted(n.value.func) == "self.__check_modes__"]
    ok2 = len(a_modes) == 1 and len(c_modes) == 1 and a_modes[0].lineno < c_modes[0].lineno \
        and isinstance(a_modes[0].value, ast.Call) and dotted(a_modes[0].value.func) == "self.__check_input__" \
        and len(a_modes[0].value.args) == 3 and dotted(a_modes[0].value.args[2]) == "modes"
    res.ob(ok2, f"{init.loc()} __init__: self._modes = __check_input__(.., modes) then __check_modes__()", "init-check")
    if not ok2:
        bad("R2-modes-validated-at-construction", init.node, "__init__ does not build self._modes from `modes` and validate it with __check_modes__()",
            key="multitask.Multitask.__init__::check_modes")
    cm = prog.func(f"{MT}.__check_modes__")
    verdict, why_cm = _check_modes_verdict(cm)
    if verdict == "undecided":
        res.errors.append(f"{cm.loc()} __check_modes__: {why_cm} (undecided)")
    else:
        okr = verdict == "ok"
        res.ob(okr, f"{cm.loc()} __check_modes__: an entry outside ModeSolver anywhere in the table raises ValueError", "check_modes")
        if not okr:
            bad("R2-check-modes-rejects-unknown", cm.node,
                f"__check_modes__ does not reject a table containing an unknown mode with ValueError: {why_cm}",
                key="multitask.Multitask.__check_modes__::shape")

    # ------------------------------------------------------------------ R3
    ex = prog.func(f"{MT}.execute")
    outer = [st for st in ex.node.body if isinstance(st, ast.For)]
    ok3 = len(outer) == 1
    if ok3:
        o = outer[0]
        def enum_of(loop, attr):
            it = loop.iter
            return (isinstance(it, ast.Call) and isinstance(it.func, ast.Name) and it.func.id == "enumerate" and len(it.args) == 1
                    and dotted(it.args[0]) == attr and isinstance(loop.target, ast.Tuple) and len(loop.target.elts) == 2
                    and all(isinstance(e, ast.Name) for e in loop.target.elts))
        inner = [st for st in o.body if isinstance(st, ast.For)]
        ok3 = enum_of(o, "self._algorithms") and len(inner) == 1 and enum_of(inner[0], "self._tasks")
        for n in ast.walk(o):
            if isinstance(n, (ast.Break, ast.Continue, ast.Return)):
                bad("R3-execute-complete", n, f"`{norm(n)}` inside execute()'s loops: an (algorithm, task) pair can be skipped")
            if isinstance(n, ast.If):
                bad("R3-execute-complete", n, f"conditional `{norm(n.test, 60)}` inside execute()'s loops: a pair may be skipped or run differently")
        if ok3:
            i_o, v_o = [e.id for e in o.target.elts]
            i_t, v_t = [e.id for e in inner[0].target.elts]
            calls = [n for n in ast.walk(inner[0]) if isinstance(n, ast.Call) and dotted(n.func) == "self.__parallelize__"]
            pz_ = prog.func(f"{MT}.__parallelize__")
            okc = len(calls) == 1
            if okc:
                bound = {}
                for pn, av in zip(pz_.params[1:], calls[0].args):
                    bound[pn] = av
                for k in calls[0].keywords:
                    bound[k.arg] = k.value
                okc = all(pn in bound for pn in pz_.params[1:6])
            if okc:
                a = [bound[pn] for pn in pz_.params[1:6]]
                mode_src = origin(ex.node, a[2])
                gm_ = prog.func(f"{MT}.__get_mode__")
                gargs = {}
                if isinstance(mode_src, ast.Call) and dotted(mode_src.func) == "self.__get_mode__":
                    for pn, av in zip(gm_.params[1:], mode_src.args):
                        gargs[pn] = av
                    for k in mode_src.keywords:
                        gargs[k.arg] = k.value
                okc = isinstance(a[0], ast.Name) and a[0].id == v_o and isinstance(a[1], ast.Name) and a[1].id == v_t \
                    and len(gargs) == 2 and dotted(gargs.get(gm_.params[1])) == i_o and dotted(gargs.get(gm_.params[2])) == i_t
                tl = origin(ex.node, a[4])
                tl_in = tl.args[0] if isinstance(tl, ast.Call) and isinstance(tl.func, ast.Name) and tl.func.id == "list" and tl.args else tl
                okt = isinstance(tl_in, ast.Call) and isinstance(tl_in.func, ast.Name) and tl_in.func.id == "range" and \
                    norm(tl_in) in ("range(1, n_trials + 1)", "range(0, n_trials)", "range(n_trials)")
                res.ob(okt, f"{mod.relpath}: trial list = {norm(tl)}", "trial-list")
                if not okt:
                    bad("R3-n-trials", calls[0], f"the trial list `{norm(tl, 60)}` does not hold exactly n_trials trials", key="multitask.Multitask.execute::trial-list")
            res.ob(okc, f"{mod.relpath}: __parallelize__({v_o}, {v_t}, __get_mode__({i_o}, {i_t}), ..)", "parallelize-call")
            if not okc:
                bad("R3-execute-own-pair-and-mode", calls[0] if calls else inner[0],
                    "the loop body does not call __parallelize__ with its own optimizer and task and the mode of __get_mode__(id_optimizer, id_task)",
                    key="multitask.Multitask.execute::parallelize-call")
            # per algorithm dict + one DataFrame per algorithm
            resets = [st for st in o.body if isinstance(st, (ast.Assign, ast.AnnAssign)) and isinstance(st.value, ast.Dict) and not st.value.keys]
            appends = [st for st in o.body if isinstance(st, ast.Expr) and isinstance(st.value, ast.Call) and dotted(st.value.func) == "self._df2.append"]
            okdf = len(resets) == 1 and len(appends) == 1 and o.body.index(resets[0]) < o.body.index(inner[0]) < o.body.index(appends[0])
            if okdf:
                dname = (resets[0].targets[0] if isinstance(resets[0], ast.Assign) else resets[0].target).id
                arg = appends[0].value.args[0]
                arg = origin(ex.node, arg) if isinstance(arg, ast.Name) else arg
                df_src = arg.args[0] if isinstance(arg, ast.Call) and arg.args else None
                from ..flow import alias_root
                df_src = alias_root(ex.node, df_src) if isinstance(df_src, ast.Name) else df_src
                okdf = isinstance(arg, ast.Call) and dotted(arg.func) in ("pd.DataFrame", "pandas.DataFrame") and dotted(df_src) == dname
                stores = [n for n in ast.walk(inner[0]) if isinstance(n, ast.Subscript) and isinstance(n.ctx, ast.Store) and dotted(n.value) == dname]
                def _names_of_slice(sl):
                    sl = origin(ex.node, sl) if isinstance(sl, ast.Name) else sl
                    return {x.id for x in ast.walk(sl) if isinstance(x, ast.Name)}
                okdf = okdf and len(stores) == 1 and v_t in _names_of_slice(stores[0].slice)
            res.ob(okdf, f"{mod.relpath}: one DataFrame per algorithm from a per-algorithm dict keyed by task", "per-algorithm-table")
            if not okdf:
                bad("R3-one-table-per-algorithm", o, "execute() does not build one DataFrame per algorithm with one column per task",
                    key="multitask.Multitask.execute::per-algorithm-table")
    if not ok3:
        bad("R3-execute-complete", ex.node, "execute() is not two nested loops over enumerate(self._algorithms) x enumerate(self._tasks)",
            key="multitask.Multitask.execute::loops")
    else:
        res.ob(True, f"{ex.loc()} execute(): nested loops over algorithms x tasks, unconditional", "execute-loops")

    # ------------------------------------------------------------------ R4
    pz = prog.func(f"{MT}.__parallelize__")
    maps = [n for n in own_nodes(pz) if isinstance(n, ast.Call) and isinstance(n.func, ast.Attribute) and n.func.attr == "map"]
    ok4 = len(maps) == 1 and len(maps[0].args) == 2
    if ok4:
        f0, seq = maps[0].args
        f0 = origin(pz.node, f0) if isinstance(f0, ast.Name) else f0
        kws = {k.arg: dotted(k.value) for k in f0.keywords} if isinstance(f0, ast.Call) else {}
        ok4 = isinstance(f0, ast.Call) and dotted(f0.func) == "partial" and f0.args and dotted(f0.args[0]) == "self.__run__" \
            and kws == {"optimizer": pz.params[1], "task": pz.params[2], "mode": pz.params[3]} and dotted(seq) == pz.params[5]
    loops = [n for n in own_nodes(pz) if isinstance(n, ast.For)]
    keep = ok4 and len(loops) == 1 and not any(isinstance(n, (ast.Break, ast.Continue, ast.If)) for n in ast.walk(loops[0])) \
        and any(isinstance(n, ast.Call) and isinstance(n.func, ast.Attribute) and n.func.attr == "append" for n in ast.walk(loops[0]))
    res.ob(bool(keep), f"{pz.loc()} __parallelize__: map(partial(__run__, optimizer, task, mode), trial_list), every result kept", "parallelize")
    if not keep:
        bad("R4-forwarding", pz.node, "__parallelize__ does not map __run__ over the whole trial list with the given optimizer, task and mode, keeping every result",
            key="multitask.Multitask.__parallelize__::shape")
    rn = prog.func(f"{MT}.__run__")
    calls = [n for n in own_nodes(rn) if isinstance(n, ast.Call) and isinstance(n.func, ast.Attribute) and n.func.attr == "optimize"]
    okrn = len(calls) == 1 and dotted(calls[0].func.value) == rn.params[2] and calls[0].args and dotted(calls[0].args[0]) == rn.params[3]
    if okrn:
        kws = {k.arg: k.value for k in calls[0].keywords}
        mv = kws.get("mode") or (calls[0].args[1] if len(calls[0].args) > 1 else None)     # optimize(task, mode, workers)
        mv = origin(rn.node, mv) if isinstance(mv, ast.Name) else mv
        okrn = mv is not None and any(isinstance(x, ast.Name) and x.id == rn.params[4] for x in ast.walk(mv))
    res.ob(okrn, f"{rn.loc()} __run__: optimizer.optimize(task, mode=str(mode), ..)", "__run__")
    if not okrn:
        bad("R4-forwarding", rn.node, "__run__ does not call optimizer.optimize(task, mode=<the designated mode>, ..)", key="multitask.Multitask.__run__::shape")

    # ---- R4 (the receiving end): optimize() runs in the mode it is given
    opt = prog.func(f"{PKG}.abstract.OptimizationAbstract.optimize")
    from ..sem import path_conditions
    mparam = opt.params[2] if len(opt.params) > 2 else "mode"
    n_mode_stores = 0
    for n in own_nodes(opt):
        if isinstance(n, ast.Assign) and any(dotted(t) == "self._mode" for t in n.targets):
            n_mode_stores += 1
            uses_mode = any(isinstance(x, ast.Name) and x.id == mparam for x in ast.walk(n.value))
            # enclosing branch conditions only: the early `raise` guards before it do not make the store conditional
            conds = [(a.test, True) for a in ancestors(n) if isinstance(a, (ast.If, ast.IfExp, ast.While))]
            cond_mentions_mode = all(any(isinstance(x, ast.Name) and x.id == mparam for x in ast.walk(t)) for (t, _pol) in conds)
            okm = uses_mode or not conds or cond_mentions_mode
            res.ob(okm, f"{opt.module.relpath}:{n.lineno} `{norm(n, 60)}` " + ("from the mode argument" if uses_mode else "default before the argument is read"),
                   construct_key(prog, n, opt.module))
            if not okm:
                res.ob(False)
                res.add(Finding(P, "C20.R4-mode-honoured", construct_key(prog, n, opt.module), f"{opt.module.relpath}:{n.lineno}",
                                f"optimize() overrides the solver mode with `{norm(n.value, 40)}` under `{norm(conds[0][0], 50)}`, a "
                                f"condition that does not depend on the `mode` argument: a pair designated thread/process can be run "
                                f"in another mode"))
    res.count("optimize-mode-stores", n_mode_stores)
    res.floor("optimize-mode-stores", 1)

    # ---- R2 (the membership test itself): `x in ModeSolver` is membership among the *values*
    me = prog.functions.get(f"{PKG}.enums.MetaEnum.__contains__")
    if me is None:
        res.errors.append("enums.MetaEnum.__contains__ vanished")
    else:
        by_name = [n for n in ast.walk(me.node) if isinstance(n, ast.Attribute) and n.attr in ("__members__", "_member_names_", "_member_map_", "__dict__")]
        by_name += [n for n in ast.walk(me.node) if isinstance(n, ast.Call) and isinstance(n.func, ast.Name) and n.func.id in ("hasattr", "getattr", "dir", "vars")]
        by_value = [n for n in ast.walk(me.node) if (isinstance(n, ast.Call) and isinstance(n.func, ast.Name) and n.func.id == me.params[0])
                    or (isinstance(n, ast.Attribute) and n.attr in ("_value2member_map_", "value"))]
        if by_name:
            res.ob(False)
            res.add(Finding(P, "C20.R2-membership-by-value", construct_key(prog, by_name[0], me.module), f"{me.module.relpath}:{by_name[0].lineno}",
                            f"`x in ModeSolver` looks the item up among the member *names* (`{norm(by_name[0], 40)}`): 'THREAD' passes the "
                            f"construction-time validation although ModeSolver('THREAD') is not a mode, and execute() fails later"))
        elif by_value:
            res.ob(True, f"{me.loc()} MetaEnum.__contains__ decides membership by value", "enum-membership")
        else:
            res.errors.append(f"{me.loc()} MetaEnum.__contains__ has a shape that is not understood (undecided)")

    # ---- R3 (per instance): the result tables live on the instance
    from ..shared_state import class_level_shared
    for (attr, node, hit, m) in class_level_shared(prog, ci):
        res.ob(False)
        res.add(Finding(P, "C20.R3-tables-per-instance", f"multitask.Multitask::{attr}", f"{mod.relpath}:{node.lineno}",
                        f"`{attr}` is a class-level mutable object that {m.name}() changes in place (`{norm(hit, 50)}`) and __init__ never "
                        f"re-binds: every Multitask instance appends to the same object, a later instance exports earlier instances' tables"))
    res.ob(True, f"{ci.loc()} no class-level mutable state mutated through self", "per-instance-tables")

    # ------------------------------------------------------------------ R5
    er = prog.func(f"{MT}.export_results")
    floops = [n for n in own_nodes(er) if isinstance(n, ast.For)]
    n_lc = 0
    for lp in floops:
        for st in ast.walk(lp):
            if isinstance(st, ast.Assign) and len(st.targets) == 1 and isinstance(st.targets[0], ast.Name):
                name = st.targets[0].id
                reads_self = any(isinstance(x, ast.Name) and x.id == name and isinstance(x.ctx, ast.Load) for x in ast.walk(st.value))
                if not reads_self:
                    continue
                # loop-carried unless the name is (re)defined from loop-invariant data earlier in the same iteration
                earlier = [s for s in lp.body if isinstance(s, ast.Assign) and s.lineno < st.lineno
                           and any(isinstance(t, ast.Name) and t.id == name for t in s.targets)
                           and not any(isinstance(x, ast.Name) and x.id == name for x in ast.walk(s.value))]
                if earlier:
                    continue
                loopvars = {x.id for x in ast.walk(lp.target) if isinstance(x, ast.Name)}
                uses_loopvar = any(isinstance(x, ast.Name) and x.id in loopvars for x in ast.walk(st.value))
                idempotent = isinstance(st.value, ast.IfExp) and isinstance(st.value.body, ast.Name) and st.value.body.id == name
                if idempotent and not uses_loopvar:
                    continue
                n_lc += 1
                bad("R5-export-path-not-loop-carried", st,
                    f"`{norm(st, 80)}` inside the export loop redefines `{name}` from its own previous value: algorithm k's folder is "
                    f"nested inside algorithm k-1's instead of <save_path>/<algorithm name>/")
    res.ob(n_lc == 0, f"{er.loc()} export_results: {len(floops)} loop(s), {n_lc} loop-carried path definitions", "export-loop")
    mk = [n for n in own_nodes(er) if isinstance(n, ast.Call) and isinstance(n.func, ast.Attribute) and n.func.attr == "mkdir"]
    def _is_exporter(name_node):
        src = origin(er.node, name_node)
        return isinstance(src, ast.Call) and isinstance(src.func, ast.Name) and src.func.id == "getattr" and src.args \
            and dotted(src.args[0]) == "self"
    exp = [n for n in own_nodes(er) if isinstance(n, ast.Call) and isinstance(n.func, ast.Name) and _is_exporter(n.func)]
    oke = len(floops) == 1 and len(mk) == 1 and len(exp) == 1 and any(lp is a for a in ancestors(exp[0]) for lp in floops)
    if oke:
        a0 = exp[0].args[0] if exp[0].args else None
        it = floops[0].iter
        iv = floops[0].target.elts[0].id if isinstance(floops[0].target, ast.Tuple) else None
        oke = isinstance(a0, ast.Subscript) and dotted(a0.value) == "self._df2" and isinstance(a0.slice, ast.Name) and a0.slice.id == iv \
            and isinstance(it, ast.Call) and dotted(it.func) == "enumerate" and dotted(it.args[0]) == "self._algorithms"
    for mk_ in mk:
        kw_ = {k.arg: k.value for k in mk_.keywords}
        ex_ok = kw_.get("exist_ok")
        okx = isinstance(ex_ok, ast.Constant) and ex_ok.value is True
        res.ob(okx, f"{mod.relpath}:{mk_.lineno} {norm(mk_, 60)}", construct_key(prog, mk_, mod))
        if not okx:
            bad("R5-export-folder-reusable", mk_,
                f"`{norm(mk_, 70)}` creates the per-algorithm folder without exist_ok=True: the second export into the same "
                f"<save_path> (another format, another run) raises FileExistsError and writes nothing")
    res.ob(oke, f"{er.loc()} export_results writes self._df2[k] once per algorithm", "export-each")
    if not oke:
        bad("R5-export-each-algorithm", er.node, "export_results does not write self._df2[k] exactly once for every algorithm k",
            key="multitask.Multitask.export_results::each")


def _flat_iter(e, fnode):
    """-> 'all' when e enumerates every entry of every row of self._modes, 'part' when it provably enumerates a part of the
    table (a subscript / slice of it), None when not understood"""
    e = origin(fnode, e) if isinstance(e, ast.Name) else e
    while isinstance(e, ast.Call) and isinstance(e.func, ast.Name) and e.func.id in ("list", "tuple", "iter") and len(e.args) == 1:
        e = e.args[0]
        e = origin(fnode, e) if isinstance(e, ast.Name) else e
    if isinstance(e, ast.Call) and dotted(e.func) in ("chain.from_iterable", "itertools.chain.from_iterable") and len(e.args) == 1:
        a = e.args[0]
        if dotted(a) == "self._modes":
            return "all"
        if isinstance(a, ast.Subscript) and dotted(a.value) == "self._modes":
            return "part"
        return None
    if isinstance(e, ast.Call) and dotted(e.func) in ("chain", "itertools.chain") and len(e.args) == 1 \
            and isinstance(e.args[0], ast.Starred) and dotted(e.args[0].value) == "self._modes":
        return "all"
    if isinstance(e, ast.Subscript) and dotted(e.value) == "self._modes":
        return "part"
    if isinstance(e, (ast.ListComp, ast.GeneratorExp)) and len(e.generators) == 2 and not e.generators[0].ifs \
            and not e.generators[1].ifs and isinstance(e.generators[0].target, ast.Name) \
            and dotted(e.generators[1].iter) == e.generators[0].target.id and isinstance(e.elt, ast.Name) \
            and isinstance(e.generators[1].target, ast.Name) and e.elt.id == e.generators[1].target.id:
        it0 = e.generators[0].iter
        if dotted(it0) == "self._modes":
            return "all"
        if isinstance(it0, ast.Subscript) and dotted(it0.value) == "self._modes":
            return "part"
    return None


def _member_pred(e, var: str):
    """+1: `var in ModeSolver`, -1: `var not in ModeSolver`, None otherwise"""
    if isinstance(e, ast.UnaryOp) and isinstance(e.op, ast.Not):
        r = _member_pred(e.operand, var)
        return None if r is None else -r
    if isinstance(e, ast.Compare) and len(e.ops) == 1 and isinstance(e.left, ast.Name) and e.left.id == var \
            and dotted(e.comparators[0]) == "ModeSolver":
        if isinstance(e.ops[0], ast.In):
            return +1
        if isinstance(e.ops[0], ast.NotIn):
            return -1
    return None


def _quantified(e, fnode):
    """condition -> ('exists-bad' | 'forall-good', coverage) or None.  coverage in ('all', 'part', None)"""
    e = origin(fnode, e) if isinstance(e, ast.Name) else e
    if isinstance(e, ast.UnaryOp) and isinstance(e.op, ast.Not):
        q = _quantified(e.operand, fnode)
        if q is None:
            return None
        flip = {"exists-bad": "forall-good", "forall-good": "exists-bad", "exists-good": "forall-bad", "forall-bad": "exists-good"}
        return (flip[q[0]], q[1])
    if isinstance(e, ast.Compare) and len(e.ops) == 1 and isinstance(e.left, ast.Call) and isinstance(e.left.func, ast.Name) \
            and e.left.func.id == "len" and len(e.left.args) == 1 and isinstance(e.comparators[0], ast.Constant) \
            and e.comparators[0].value == 0 and isinstance(e.ops[0], (ast.Gt, ast.NotEq)):
        return _quantified(e.left.args[0], fnode)
    if isinstance(e, ast.Call) and isinstance(e.func, ast.Name) and e.func.id in ("all", "any") and len(e.args) == 1 and not e.keywords:
        c = e.args[0]
        c = origin(fnode, c) if isinstance(c, ast.Name) else c
        while isinstance(c, ast.Call) and isinstance(c.func, ast.Name) and c.func.id in ("list", "tuple") and len(c.args) == 1:
            c = c.args[0]
        if isinstance(c, (ast.ListComp, ast.GeneratorExp)) and not any(g.ifs for g in c.generators):
            var = c.generators[-1].target.id if isinstance(c.generators[-1].target, ast.Name) else None
            pol = _member_pred(c.elt, var) if var else None
            if pol is None:
                return None
            if len(c.generators) == 1:
                cov = _flat_iter(c.generators[0].iter, fnode)
            elif len(c.generators) == 2 and isinstance(c.generators[0].target, ast.Name) \
                    and dotted(c.generators[1].iter) == c.generators[0].target.id:
                it0 = c.generators[0].iter
                cov = "all" if dotted(it0) == "self._modes" else ("part" if isinstance(it0, ast.Subscript) and dotted(it0.value) == "self._modes" else None)
            else:
                return None
            if e.func.id == "all" and pol == +1:
                return ("forall-good", cov)
            if e.func.id == "any" and pol == -1:
                return ("exists-bad", cov)
            if e.func.id == "any" and pol == +1:
                return ("exists-good", cov)
            if e.func.id == "all" and pol == -1:
                return ("forall-bad", cov)
            return None
        return None
    # truthiness of the list of offending entries
    if isinstance(e, (ast.ListComp,)) and len(e.generators) in (1, 2) and isinstance(e.generators[-1].target, ast.Name):
        g = e.generators[-1]
        if len(g.ifs) == 1 and not any(x.ifs for x in e.generators[:-1]) and _member_pred(g.ifs[0], g.target.id) == -1:
            if len(e.generators) == 1:
                cov = _flat_iter(g.iter, fnode)
            else:
                it0 = e.generators[0].iter
                cov = None
                if isinstance(e.generators[0].target, ast.Name) and dotted(g.iter) == e.generators[0].target.id:
                    cov = "all" if dotted(it0) == "self._modes" else ("part" if isinstance(it0, ast.Subscript) and dotted(it0.value) == "self._modes" else None)
            return ("exists-bad", cov)
    return None


def _check_modes_verdict(cm) -> tuple:
    """'ok' | 'bad' | 'undecided' for: whenever the table holds an entry outside ModeSolver, ValueError is raised.
    A violation is reported only for a positively identified deviation (part of the table, another exception, no raise)."""
    raises = [n for n in own_nodes(cm) if isinstance(n, ast.Raise)]
    if not raises:
        return "bad", "it never raises"
    if len(raises) != 1:
        return "undecided", "several raise statements"
    r = raises[0]
    exc = dotted(r.exc.func) if isinstance(r.exc, ast.Call) else dotted(r.exc) if r.exc is not None else None
    from ..model import parent as _parent
    p = _parent(r)
    if not (isinstance(p, ast.If) and r in p.body):
        return "undecided", "the raise is not directly guarded by an if"
    # the guarding `if` sits at the top level of the function or inside `if self._modes is not None:` blocks
    holder, blocks = _parent(p), []
    cur_ = p
    while holder is not cm.node:
        if not (isinstance(holder, ast.If) and cur_ in holder.body and isinstance(holder.test, ast.Compare)
                and dotted(holder.test.left) == "self._modes" and isinstance(holder.test.ops[0], ast.IsNot) and not holder.orelse):
            return "undecided", "the raise is not directly guarded by one top-level if"
        blocks.append((holder.body, cur_))
        cur_, holder = holder, _parent(holder)
    blocks.append((cm.node.body, cur_))
    # earlier statements: only `if self._modes is None: return` and plain assignments
    for (blk, upto) in blocks:
        for st in blk[:blk.index(upto)]:
            if isinstance(st, (ast.Assign, ast.AnnAssign)) or (isinstance(st, ast.Expr) and isinstance(st.value, ast.Constant)):
                continue
            if isinstance(st, ast.If) and not st.orelse and len(st.body) == 1 and isinstance(st.body[0], ast.Return) \
                    and isinstance(st.test, ast.Compare) and dotted(st.test.left) == "self._modes" and isinstance(st.test.ops[0], ast.Is):
                continue
            return "undecided", f"statement `{norm(st, 50)}` before the test is not understood"
    test = p.test
    if isinstance(test, ast.BoolOp) and isinstance(test.op, ast.And):
        rest = [v for v in test.values if not (isinstance(v, ast.Compare) and dotted(v.left) == "self._modes"
                                               and isinstance(v.ops[0], ast.IsNot))]
        if len(rest) == 1:
            test = rest[0]
    q = _quantified(test, cm.node)
    if q is None:
        return "undecided", f"the rejection test `{norm(p.test, 60)}` is not understood"
    kind, cov = q
    if kind == "forall-bad":
        return "bad", "the table is rejected only when *every* entry is unknown: one valid mode lets unknown ones through"
    if kind != "exists-bad":
        return "bad", "the table is rejected when it holds known modes"
    if cov == "part":
        return "bad", "only a part of the table (a subscript of self._modes) is examined"
    if cov != "all":
        return "undecided", "which entries are examined is not understood"
    if exc != "ValueError":
        return "bad", f"an unknown mode raises {exc}, not ValueError"
    return "ok", ""


# ---------------------------------------------------------------------------------------------
from ..selftest import V, run_battery  # noqa: E402

_F = "pyvolutionary/multitask.py"
VARIANTS = [
    V("flat-return-second-branch", _F, "            return [deepcopy(values) for _ in range(0, self._n_algorithms)]", "            return deepcopy(values)", "C20.R1"),
    V("break-in-task-loop", _F, "                best_fit_optimizer_results[f\"{optimizer.name}_{task.name}\"] = best_fit_trials\n",
      "                best_fit_optimizer_results[f\"{optimizer.name}_{task.name}\"] = best_fit_trials\n                if id_task > 5:\n                    break\n", "C20.R3"),
    V("swapped-index-order", _F, "            mode = self._modes[id_optimizer][id_prob]", "            mode = self._modes[id_prob][id_optimizer]", "C20.R1"),
    V("mode-of-first-task", _F, "                mode = self.__get_mode__(id_optimizer, id_task)", "                mode = self.__get_mode__(id_optimizer, 0)", "C20.R3"),
    V("trial-list-short", _F, "        trial_list = list(range(1, n_trials + 1))", "        trial_list = list(range(1, n_trials))", "C20.R3"),
    V("mode-forced-serial-for-one-worker", "pyvolutionary/abstract.py", "        self._task = task\n\n        self.before_initialization()\n",
      "        if self._workers == 1:\n            self._mode = ModeSolver.SERIAL\n        self._task = task\n\n        self.before_initialization()\n", "C20.R4"),
    V("enum-membership-by-name", "pyvolutionary/enums.py", "        try:\n            cls(item)  # pylint: disable=E1120\n        except ValueError:\n            return False\n        return True",
      "        return item in cls.__members__ or item in cls._value2member_map_", "C20.R2"),
    V("twin-enum-membership-by-value-map", "pyvolutionary/enums.py", "        try:\n            cls(item)  # pylint: disable=E1120\n        except ValueError:\n            return False\n        return True",
      "        return isinstance(item, cls) or item in cls._value2member_map_", None),
    V("tables-class-level", _F, "        self._df2: list[pd.DataFrame] = []\n", "", "C20.R3",
      more=[(_F, "    def __init__(\n        self,\n        algorithms", "    _df2: list = []\n\n    def __init__(\n        self,\n        algorithms")]),
    V("export-folder-not-reusable", _F, "mkdir(parents=True, exist_ok=True)", "mkdir(parents=True)", "C20.R5"),
    V("check-modes-not-called", _F, "        self._df2: list[pd.DataFrame] = []\n\n        self.__check_modes__()\n", "        self._df2: list[pd.DataFrame] = []\n", "C20.R2"),
    V("run-ignores-mode", _F, "        result = optimizer.optimize(task, mode=str(mode), workers=self._n_workers)", "        result = optimizer.optimize(task, workers=self._n_workers)", "C20.R4"),
    V("single-dataframe-for-all", _F, "            self._df2.append(pd.DataFrame(best_fit_optimizer_results))", "        self._df2.append(pd.DataFrame(best_fit_optimizer_results))", "C20.R3"),
    V("single-mode-table-transposed", _F, "            return [[deepcopy(values[0]) for _ in range(0, self._m_tasks)] for _ in range(0, self._n_algorithms)]",
      "            return [[deepcopy(values[0]) for _ in range(0, self._n_algorithms)] for _ in range(0, self._m_tasks)]", "C20.R1"),
    V("parallelize-first-result-only", _F, "            for result in list_results:\n                best_fit_trials.append(result)\n",
      "            for result in list_results:\n                best_fit_trials.append(result)\n                break\n", "C20.R4"),
    V("twin-table-by-loops", _F, "            return [deepcopy(values) for _ in range(0, self._n_algorithms)]", "            return [list(values) for _ in range(0, self._n_algorithms)]", None),
]


def selftest(res: Result, tier: str, seed: int) -> None:
    run_battery(__name__, VARIANTS, res, tier, seed)
