"""C14 - the task's description of its space is consistent: arity/shape agreement (SHP)."""
from __future__ import annotations

import ast

from .. import chain
from .. import variables as V_
from ..callgraph import own_nodes
from ..flow import origin, reaching_def, returns_of
from ..guard import closed_world
from ..model import PKG, AnalysisError, FuncInfo, Program, ancestors, construct_key, dotted, norm, parent
from ..report import Finding, Result

EXPLANATION = (
    "Shape typing of the Variable protocol against what Task unpacks. For each of the seven kinds the return shape of "
    "get_bounds / randomize / get is inferred from the source (SCALAR, LIST, PAIR(a, b), LIST[a]) using field annotations and "
    "numpy constructor summaries, and must match the discriminator has_children(): PAIR(SCALAR, SCALAR) / SCALAR when false, "
    "PAIR(LIST, LIST) / LIST when true (PermutationVariable is the declared exception: one coordinate holding a vector). The "
    "four Task flatteners (get_variables, get_bounds, empty_solution, transform_solution) must all iterate self.variables and "
    "choose list-vs-scalar handling by the same discriminator `v.has_children()`; space_dimension is the sum of v.size(); "
    "transform_solution slices x by size() with a running counter, keys by v.name and has no path that bypasses the "
    "discriminator; correct_solution zips every coordinate with get_variables()."
)
ASSUMPTIONS = ["field annotations are the field types (pydantic validates them)", "numpy constructors by summary (zeros/ones/array -> LIST)",
               "closed-world guard R0"]
TRUSTED = ["python ast", "pydantic field validation"]
TASK = f"{PKG}.models.Task"
SHAPE_EXCEPTIONS = {"PermutationVariable": "one coordinate whose value is a vector; get_bounds returns a pair of vectors although has_children() is false"}

S, Lst = "SCALAR", "LIST"


def field_shape(prog: Program, ci, name: str):
    for c in prog.mro(ci):
        if name in c.fields:
            ann = norm(c.fields[name].annotation)
            if ann.startswith(("list", "tuple", "List", "Tuple")) or "list[" in ann or "ndarray" in ann:
                return Lst
            if any(t in ann for t in ("float", "int", "str")):
                return S
    return None


def shape_of(prog: Program, ci, fi: FuncInfo, e: ast.AST, depth: int = 12):
    if e is None or depth <= 0:
        return "?"
    if isinstance(e, ast.Tuple):
        if len(e.elts) == 2:
            return ("PAIR", shape_of(prog, ci, fi, e.elts[0], depth - 1), shape_of(prog, ci, fi, e.elts[1], depth - 1))
        return ("TUPLE", len(e.elts))
    if isinstance(e, ast.Constant):
        return S
    if isinstance(e, ast.Name):
        if e.id == "self":
            return "SELF"
        # comprehension variable: element of the iterated list
        for a in ancestors(e):
            if isinstance(a, (ast.ListComp, ast.GeneratorExp, ast.SetComp)):
                for g in a.generators:
                    names = [t for t in ast.walk(g.target) if isinstance(t, ast.Name) and t.id == e.id]
                    if not names:
                        continue
                    its = shape_of(prog, ci, fi, g.iter, depth - 1)
                    elem = its[1] if isinstance(its, tuple) and its[0] == "LIST" else (S if its == Lst else "?")
                    if isinstance(g.target, ast.Name):
                        return elem
                    if isinstance(g.target, ast.Tuple) and isinstance(elem, tuple) and elem[0] == "PAIR" and len(g.target.elts) == 2:
                        for i, t in enumerate(g.target.elts):
                            if isinstance(t, ast.Name) and t.id == e.id:
                                return elem[1 + i]
                    return "?"
        # a list built by appending in a loop: acc = [] (or a, b = [], []) ... acc.append(X)
        from ..flow import store_sites
        sites = store_sites(fi.node, e.id)
        if sites and all(k in ("assign", "unpack") for (_s, _v, k) in sites):
            empty = False
            for (st_, v_, k_) in sites:
                if k_ == "assign" and isinstance(v_, ast.List) and not v_.elts:
                    empty = True
                if k_ == "unpack" and isinstance(st_, ast.Assign) and isinstance(st_.value, ast.Tuple) and isinstance(st_.targets[0], ast.Tuple):
                    for t_, x_ in zip(st_.targets[0].elts, st_.value.elts):
                        if isinstance(t_, ast.Name) and t_.id == e.id and isinstance(x_, ast.List) and not x_.elts:
                            empty = True
            apps = [n for n in own_nodes(fi) if isinstance(n, ast.Call) and isinstance(n.func, ast.Attribute) and n.func.attr == "append"
                    and isinstance(n.func.value, ast.Name) and n.func.value.id == e.id and len(n.args) == 1]
            if empty and apps and len(sites) == 1:
                shapes = {repr(shape_of(prog, ci, fi, a.args[0], depth - 1)) for a in apps}
                if len(shapes) == 1:
                    return ("LIST", shape_of(prog, ci, fi, apps[0].args[0], depth - 1))
        o = origin(fi.node, e)
        if o is not e:
            return shape_of(prog, ci, fi, o, depth - 1)
        rd0 = reaching_def(fi.node, e, e.id)
        if rd0 is not None and rd0[2] == "unpack" and isinstance(rd0[1], ast.Assign) and isinstance(rd0[1].targets[0], ast.Tuple):
            # a, b = <call returning a pair>
            src = shape_of(prog, ci, fi, rd0[1].value, depth - 1)
            if isinstance(src, tuple) and src[0] == "PAIR" and len(rd0[1].targets[0].elts) == 2:
                for i_, t_ in enumerate(rd0[1].targets[0].elts):
                    if isinstance(t_, ast.Name) and t_.id == e.id:
                        return src[1 + i_]
        rd = reaching_def(fi.node, e, e.id)
        if rd is not None and rd[2] == "unpack":
            return "?"
        return "?"
    if isinstance(e, ast.Attribute) and isinstance(e.value, ast.Name) and e.value.id == "self":
        if e.attr == "_children":
            return Lst
        fs = field_shape(prog, ci, e.attr)
        return fs or "?"
    if isinstance(e, ast.Attribute) and e.attr in ("eps", "pi", "inf", "e", "tiny", "max", "min") and not (
            isinstance(e.value, ast.Name) and e.value.id == "self"):
        return S
    if isinstance(e, (ast.ListComp, ast.List)):
        if isinstance(e, ast.ListComp):
            return ("LIST", shape_of(prog, ci, fi, e.elt, depth - 1))
        return Lst
    if isinstance(e, ast.Call):
        d = dotted(e.func) or ""
        if d in ("np.zeros", "np.ones", "np.array", "numpy.zeros", "numpy.ones", "numpy.array", "np.full", "numpy.full", "np.repeat",
                 "np.zeros_like", "np.ones_like", "np.full_like", "np.empty"):
            return Lst
        if d in ("len", "int", "float", "np.random.uniform", "np.random.choice", "np.random.randint", "min", "max") and \
                not any(k.arg == "size" for k in e.keywords):
            return S
        if isinstance(e.func, ast.Attribute) and e.func.attr == "tolist":
            inner = shape_of(prog, ci, fi, e.func.value, depth - 1)
            return inner if inner != "?" else Lst
        if d in ("np.random.permutation", "numpy.random.permutation"):
            return Lst
        if isinstance(e.func, ast.Attribute) and e.func.attr in ("get_bounds", "randomize", "get") and isinstance(e.func.value, ast.Name):
            # a child's protocol method: children are scalar kinds
            return ("PAIR", S, S) if e.func.attr == "get_bounds" else S
        return "?"
    if isinstance(e, ast.BinOp) and isinstance(e.op, ast.Mult) and (isinstance(e.left, ast.List) or isinstance(e.right, ast.List)):
        return Lst      # [x] * n
    if isinstance(e, ast.BinOp):
        l, r = shape_of(prog, ci, fi, e.left, depth - 1), shape_of(prog, ci, fi, e.right, depth - 1)
        if Lst in (l, r):
            return Lst
        if l == S and r == S:
            return S
        return "?"
    return "?"


def flat(shape):
    """('LIST', SCALAR) -> LIST (a flat list), recursively inside pairs."""
    if isinstance(shape, tuple) and shape[0] == "LIST" and shape[1] == S:
        return Lst
    if isinstance(shape, tuple) and shape[0] == "PAIR":
        return ("PAIR", flat(shape[1]), flat(shape[2]))
    if isinstance(shape, tuple) and shape[0] == "LIST":
        return ("LIST", flat(shape[1]))
    return shape


def run(prog: Program, res: Result) -> None:
    P = "C14"
    res.rules = ["R1 space_dimension = sum of sizes", "R2 per-kind return shapes agree with has_children()",
                 "R3 the four flatteners use the same discriminator", "R4 transform_solution slices by size() and keys by name",
                 "R5 correct_solution / initial_solution chain shape"]
    res.undecided = ["numpy edge-value behaviour"]
    closed_world(prog, res)
    vfs = V_.collect(prog)
    task = prog.cls(TASK)
    mod = task.module

    def bad(rule, node, key, msg):
        res.ob(False)
        res.add(Finding(P, f"C14.{rule}", key, f"{mod.relpath}:{getattr(node, 'lineno', 0)}", msg))

    # ------------------------------------------------------------------ R1
    init = prog.func(f"{TASK}.__init__")

    def _variables_source(e):
        e = origin(init.node, e) if isinstance(e, ast.Name) else e
        return (isinstance(e, ast.Call) and dotted(e.func) == "kwargs.get" and e.args and isinstance(e.args[0], ast.Constant)
                and e.args[0].value == "variables") or (isinstance(e, ast.Subscript) and dotted(e.value) == "kwargs"
                                                        and isinstance(e.slice, ast.Constant) and e.slice.value == "variables")

    def _dimension_verdict(v):
        """True: sum of v.size() over the declared variables; a string: understood and something else; None: not understood"""
        v = origin(init.node, v) if isinstance(v, ast.Name) else v
        if isinstance(v, ast.Call) and isinstance(v.func, ast.Name) and v.func.id == "len" and len(v.args) == 1 and _variables_source(v.args[0]):
            return "the number of declared variables, not the sum of their sizes"
        if isinstance(v, ast.Constant):
            return f"the constant {v.value!r}"
        if not (isinstance(v, ast.Call) and isinstance(v.func, ast.Name) and v.func.id == "sum" and len(v.args) == 1 and not v.keywords):
            return None
        c = origin(init.node, v.args[0]) if isinstance(v.args[0], ast.Name) else v.args[0]
        if not (isinstance(c, (ast.ListComp, ast.GeneratorExp)) and len(c.generators) == 1 and isinstance(c.generators[0].target, ast.Name)):
            return None
        g, e = c.generators[0], c.elt
        if not _variables_source(g.iter):
            return None
        if g.ifs:
            return f"a sum over the variables filtered by `{norm(g.ifs[0], 40)}`"
        if isinstance(e, ast.Call) and isinstance(e.func, ast.Attribute) and e.func.attr == "size" and isinstance(e.func.value, ast.Name) \
                and e.func.value.id == g.target.id and not e.args:
            return True
        if isinstance(e, ast.Constant):
            return f"a sum of the constant {e.value!r} per variable"
        return None

    stored = [n.value for n in own_nodes(init)
              if isinstance(n, ast.Assign) and isinstance(n.targets[0], ast.Subscript) and dotted(n.targets[0].value) == "kwargs"
              and isinstance(n.targets[0].slice, ast.Constant) and n.targets[0].slice.value == "space_dimension"]
    verdicts = [_dimension_verdict(v) for v in stored]
    # positively conditional derivations: the caller's own `space_dimension` wins
    for n in own_nodes(init):
        if isinstance(n, ast.Call) and dotted(n.func) == "kwargs.setdefault" and n.args and isinstance(n.args[0], ast.Constant) \
                and n.args[0].value == "space_dimension":
            verdicts.append("only a default (`kwargs.setdefault`): a value passed by the caller replaces the sum of the sizes")
        if isinstance(n, ast.Assign) and n.value in stored:
            for a_ in ancestors(n):
                if isinstance(a_, ast.If) and any(isinstance(c_, ast.Constant) and c_.value == "space_dimension" for c_ in ast.walk(a_.test)):
                    verdicts.append(f"derived only when `{norm(a_.test, 50)}`: a value passed by the caller replaces the sum of the sizes")
    ok = bool(verdicts) and all(x is True for x in verdicts)
    wrong = [x for x in verdicts if isinstance(x, str)]
    if wrong:
        res.ob(False)
        bad("R1-dimension-is-sum-of-sizes", init.node, "models.Task.__init__::space_dimension",
            f"space_dimension is not computed as the sum of v.size() over the declared variables: it is {wrong[0]}")
    elif not ok:
        res.errors.append(f"{init.loc()} Task.__init__: how space_dimension is derived from the variables is not understood "
                          f"({'no store of kwargs[\'space_dimension\']' if not stored else norm(stored[0], 60)}) (undecided)")
    else:
        res.ob(True, f"{init.loc()} space_dimension = sum(v.size() for v in variables)", "space_dimension")

    # ------------------------------------------------------------------ R2 shapes per kind
    n_shapes = 0
    for name, vf in sorted(vfs.items()):
        hc = vf.has_children
        if hc is None:
            res.errors.append(f"{name}.has_children() is not a constant")
            continue
        for meth in ("get_bounds", "randomize", "get"):
            f = vf.methods[meth]
            rv = V_.single_return(f)
            sh = flat(shape_of(prog, vf.cls, f, rv))
            n_shapes += 1
            if meth == "get_bounds":
                want = ("PAIR", Lst, Lst) if hc else ("PAIR", S, S)
            elif meth == "get":
                want = Lst if hc else "SELF"
            else:
                want = Lst if hc else S
            okk = sh == want
            if not okk and name in SHAPE_EXCEPTIONS and meth in ("get_bounds", "randomize"):
                res.note(f"{name}.{meth} has shape {sh} (declared exception: {SHAPE_EXCEPTIONS[name]})")
                res.ob(True, f"{name}.{meth}: {sh} (declared exception)", f"{name}.{meth}")
                continue
            if "?" in repr(sh):
                res.errors.append(f"cannot infer the return shape of {name}.{meth}: `{norm(rv) if rv is not None else None}`")
                continue
            res.ob(okk, f"{name}.{meth}: {sh} (has_children={hc})", f"{name}.{meth}")
            if not okk:
                bad("R2-shape-agrees-with-discriminator", f.node, f"models.{name}.{meth}::shape",
                    f"{name}.{meth}() returns shape {sh} but has_children() is {hc}: Task expects {want} "
                    f"(Task.get_bounds unpacks `lb_, ub_ = v.get_bounds()` and extends with lb_ / [lb_] by has_children())")
    res.count("protocol-shapes-inferred", n_shapes)
    res.floor("protocol-shapes-inferred", 21)

    # ------------------------------------------------------------------ R3 discriminators
    flatteners = {}
    for m in ("get_variables", "get_bounds", "empty_solution", "transform_solution"):
        f = prog.func(f"{TASK}.{m}")
        flatteners[m] = f
        # loop variable over self.variables
        loop_vars = set()
        for n in own_nodes(f):
            if isinstance(n, ast.For) and dotted(n.iter) == "self.variables" and isinstance(n.target, ast.Name):
                loop_vars.add(n.target.id)
            if isinstance(n, ast.comprehension) and dotted(n.iter) == "self.variables" and isinstance(n.target, ast.Name):
                loop_vars.add(n.target.id)
        if not loop_vars:
            bad("R3-same-discriminator", f.node, f"models.Task.{m}::iteration", f"Task.{m} does not iterate over self.variables")
            continue
        # branches (conditional expressions or if statements) inside the iteration that mention the loop variable
        def _test_of(n_):
            t_ = n_.test
            if isinstance(t_, ast.UnaryOp) and isinstance(t_.op, ast.Not):
                t_ = t_.operand
            return origin(f.node, t_) if isinstance(t_, ast.Name) else t_      # a local holding the discriminator
        ifexps = [n for n in own_nodes(f) if isinstance(n, (ast.IfExp, ast.If))
                  and any(isinstance(x, ast.Name) and x.id in loop_vars for x in ast.walk(_test_of(n)))]
        n_disc = 0
        for ie in ifexps:
            t = _test_of(ie)
            if isinstance(t, ast.UnaryOp) and isinstance(t.op, ast.Not):
                t = t.operand
            okd = isinstance(t, ast.Call) and isinstance(t.func, ast.Attribute) and t.func.attr == "has_children" \
                and isinstance(t.func.value, ast.Name) and t.func.value.id in loop_vars and not t.args
            n_disc += 1
            key = construct_key(prog, ie, mod)
            res.ob(okd, f"{mod.relpath}:{ie.lineno} Task.{m}: list-vs-scalar by `{norm(t)}`", key)
            if not okd:
                bad("R3-same-discriminator", ie, f"models.Task.{m}::discriminator {norm(t, 50)}",
                    f"Task.{m} chooses list-vs-scalar handling by `{norm(t)}` where its siblings use `v.has_children()`: "
                    f"variables with children and size 1 (BinaryVariable(n_vars=1), one-element multi-variables) take the wrong branch")
            else:
                # then-branch handles the list, else-branch wraps/unwraps the scalar
                pass
        if n_disc == 0:
            bad("R3-same-discriminator", f.node, f"models.Task.{m}::discriminator",
                f"Task.{m} has no list-vs-scalar discriminator at all")
    res.count("flatteners", len(flatteners))
    # the bounds a composite variable reports are its children's bounds (decided by C13's rule module; Task.get_bounds hands
    # them on unchanged, so a composite that over-reports makes the task's bounds disagree with the owning coordinate's)
    from . import c13 as _c13
    _sub = Result(prop="C13")
    _c13.run(prog, _sub)
    for f_ in _sub.findings:
        if f_.rule in ("C13.R4-bounds-of-children",):
            res.ob(False)
            res.add(Finding(P, "C14.domain.R4-bounds-of-children", f_.key, f_.loc,
                            f"{f_.msg} - Task.get_bounds reports, for that coordinate, a bound its owning variable does not have"))
    res.ob(True, "composite bounds = children's bounds (C13.R4 re-evaluated)", "composite-bounds")

    # ------------------------------------------------------------------ R4 transform_solution
    ts = flatteners["transform_solution"]
    x = ts.params[1] if len(ts.params) > 1 else None
    # positive-only site rule (any shape of the function): the flat position is indexed / sliced at the *ordinal* of the
    # variable in self.variables - right only while every earlier variable has size 1
    ordinals = set()
    for n in ast.walk(ts.node):
        tgt = it = None
        if isinstance(n, ast.For):
            tgt, it = n.target, n.iter
        elif isinstance(n, ast.comprehension):
            tgt, it = n.target, n.iter
        if it is not None and isinstance(it, ast.Call) and isinstance(it.func, ast.Name) and it.func.id == "enumerate" \
                and len(it.args) == 1 and not it.keywords and dotted(it.args[0]) in ("self.variables",) \
                and isinstance(tgt, ast.Tuple) and len(tgt.elts) == 2 and isinstance(tgt.elts[0], ast.Name):
            ordinals.add(tgt.elts[0].id)
    for n in ast.walk(ts.node):
        if isinstance(n, ast.Subscript) and isinstance(n.value, ast.Name) and n.value.id == x and isinstance(n.ctx, ast.Load):
            at = n.slice.lower if isinstance(n.slice, ast.Slice) else n.slice
            if isinstance(at, ast.Name) and at.id in ordinals:
                bad("R4-offset-is-variable-ordinal", n, f"models.Task.transform_solution::{norm(n, 50)}",
                    f"transform_solution reads `{norm(n, 50)}`: `{at.id}` is the ordinal of the variable in self.variables, not the sum of "
                    f"the sizes of the variables before it - every variable after a composite of size > 1 is decoded from the wrong coordinates")
    fors = [n for n in own_nodes(ts) if isinstance(n, ast.For) and dotted(n.iter) == "self.variables"]
    if len(fors) == 1:
        loop = fors[0]
        v = loop.target.id
        # early returns before the loop bypass the per-variable discriminator
        for st in ts.node.body:
            if st is loop:
                break
            for n in ast.walk(st):
                if isinstance(n, ast.Return):
                    bad("R4-transform-solution", n, f"models.Task.transform_solution::early {norm(parent(n).test, 40) if isinstance(parent(n), ast.If) else 'return'}",
                        f"transform_solution returns early (`{norm(parent(n).test) if isinstance(parent(n), ast.If) else ''}`) before the per-variable "
                        f"loop: a one-coordinate position of a variable *with children* is decoded as a scalar")
        slices = [n for n in ast.walk(loop) if isinstance(n, ast.Subscript) and isinstance(n.slice, ast.Slice) and dotted(n.value) == x]
        oks = False
        counter = None

        def _is_size(p_):
            return isinstance(p_, ast.Call) and isinstance(p_.func, ast.Attribute) and p_.func.attr == "size" \
                and isinstance(p_.func.value, ast.Name) and p_.func.value.id == v and not p_.args

        def _counter_plus_size(e_, cname):
            """`counter + v.size()` (either order), through single-assignment locals of the loop body"""
            e_ = origin(ts.node, e_) if isinstance(e_, ast.Name) and e_.id != cname else e_
            if isinstance(e_, ast.BinOp) and isinstance(e_.op, ast.Add):
                ps = [origin(ts.node, q_) if isinstance(q_, ast.Name) and q_.id != cname else q_ for q_ in (e_.left, e_.right)]
                return any(isinstance(q_, ast.Name) and q_.id == cname for q_ in ps) and any(_is_size(q_) for q_ in ps)
            return False
        if len(slices) == 1:
            sl = slices[0].slice
            if isinstance(sl.lower, ast.Name) and sl.upper is not None and sl.step is None:
                counter = sl.lower.id
                oks = _counter_plus_size(sl.upper, counter)
        # the counter advances by v.size() once per variable: `counter += v.size()` or `counter = <counter + v.size()>`
        incs = [n for n in loop.body if isinstance(n, ast.AugAssign) and isinstance(n.target, ast.Name) and n.target.id == counter
                and isinstance(n.op, ast.Add) and _is_size(origin(ts.node, n.value) if isinstance(n.value, ast.Name) else n.value)]
        incs += [n for n in loop.body if isinstance(n, ast.Assign) and len(n.targets) == 1 and isinstance(n.targets[0], ast.Name)
                 and n.targets[0].id == counter and _counter_plus_size(n.value, counter)]
        other_stores = [n for n in ast.walk(loop) if isinstance(n, ast.Name) and n.id == counter and isinstance(n.ctx, ast.Store)]
        init0 = [n for n in ts.node.body if isinstance(n, ast.Assign) and isinstance(n.targets[0], ast.Name) and n.targets[0].id == counter
                 and isinstance(n.value, ast.Constant) and n.value.value == 0]
        oks = oks and len(incs) == 1 and len(other_stores) == 1 and len(init0) == 1
        res.ob(oks, f"{ts.loc()} transform_solution slices x[counter:counter + v.size()] with counter += v.size()", "ts.slice")
        if not oks:
            bad("R4-transform-solution", loop, "models.Task.transform_solution::slice",
                "transform_solution does not slice the position by a running counter of v.size()")
        stores = [n for n in ast.walk(loop) if isinstance(n, ast.Subscript) and isinstance(n.ctx, ast.Store)]
        okk = len(stores) == 1 and dotted(stores[0].slice) == f"{v}.name"
        if okk:
            st = parent(stores[0])
            val = st.value if isinstance(st, ast.Assign) else None
            val = origin(ts.node, val) if isinstance(val, ast.Name) else val

            def is_decode(e):
                if isinstance(e, ast.IfExp):
                    return is_decode(e.body) and is_decode(e.orelse)
                return isinstance(e, ast.Call) and isinstance(e.func, ast.Attribute) and e.func.attr == "decode" \
                    and isinstance(e.func.value, ast.Name) and e.func.value.id == v
            okk = val is not None and is_decode(val)
        res.ob(okk, f"{ts.loc()} solution[v.name] = v.decode(..)", "ts.key")
        if not okk:
            bad("R4-transform-solution", loop, "models.Task.transform_solution::key", "transform_solution does not store v.decode(slice) under v.name for every variable")
    else:
        bad("R4-transform-solution", ts.node, "models.Task.transform_solution::loop", "transform_solution has no single loop over self.variables")

    # get_bounds of Task: lb_, ub_ = v.get_bounds() then extend with the same discriminator on both
    gb = flatteners["get_bounds"]
    unpack = [n for n in own_nodes(gb) if isinstance(n, ast.Assign) and isinstance(n.targets[0], ast.Tuple) and len(n.targets[0].elts) == 2
              and isinstance(n.value, ast.Call) and isinstance(n.value.func, ast.Attribute) and n.value.func.attr == "get_bounds"]
    exts = [n for n in own_nodes(gb) if isinstance(n, ast.Call) and isinstance(n.func, ast.Attribute) and n.func.attr == "extend"]
    okg = len(unpack) == 1 and len(exts) == 2
    if okg:
        a, b = [t.id for t in unpack[0].targets[0].elts]
        seen = {}
        for e in exts:
            arg = e.args[0] if e.args else None
            if isinstance(arg, ast.IfExp) and isinstance(arg.body, ast.Name) and isinstance(arg.orelse, ast.List) and len(arg.orelse.elts) == 1 \
                    and isinstance(arg.orelse.elts[0], ast.Name) and arg.orelse.elts[0].id == arg.body.id:
                seen[arg.body.id] = dotted(e.func.value)
        okg = set(seen) == {a, b} and seen[a] != seen[b]
        rv = V_.single_return(gb)
        if okg and isinstance(rv, ast.Tuple) and len(rv.elts) == 2:
            els = [origin(gb.node, x) if isinstance(x, ast.Name) else x for x in rv.elts]
            outs = [dotted(x.args[0]) if isinstance(x, ast.Call) and x.args else dotted(x) for x in els]
            okg = outs == [seen[a], seen[b]]
    res.ob(okg, f"{gb.loc()} Task.get_bounds: lower/upper extended in step, returned as (lower, upper)", "task.get_bounds")
    if not okg:
        bad("R4-task-get-bounds", gb.node, "models.Task.get_bounds::pairing",
            "Task.get_bounds does not extend the lower list with the lower bounds and the upper list with the upper bounds of every variable, in that order")

    # ------------------------------------------------------------------ R5 chain
    chain.check_correct_solution(prog, res, P)
    chain.check_initial_solution(prog, res, P)


# ---------------------------------------------------------------------------------------------
from ..selftest import V, run_battery  # noqa: E402

_M = "pyvolutionary/models.py"
VARIANTS = [
    V("transform-solution-offset-is-ordinal", _M,
      "        counter = 0\n        solution = {}\n        for v in self.variables:\n            temp = x[counter:(counter + v.size())]\n            solution[v.name] = v.decode(temp if v.has_children() else temp[0])\n            counter += v.size()\n        return solution",
      "        return {\n            v.name: v.decode(x[idx:(idx + v.size())] if v.has_children() else x[idx])\n            for idx, v in enumerate(self.variables)\n        }",
      "C14.R4-offset"),
    V("binary-bounds-list-of-pairs", _M, "        lb = np.zeros(self.n_vars)\n        ub = (2 - np.finfo(float).eps) * np.ones(self.n_vars)\n        return lb, ub",
      "        return [(0, 2 - np.finfo(float).eps) for _ in range(self.n_vars)]", "C14.R2"),
    V("flattener-uses-size", _M, "        return [item for v in self.variables for item in (v.get() if v.has_children() else [v.get()])]",
      "        return [item for v in self.variables for item in (v.get() if v.size() > 1 else [v.get()])]", "C14.R3"),
    V("empty-solution-uses-isinstance", _M,
      "        solution = [item for v in self.variables for item in (v.randomize() if v.has_children() else [v.randomize()])]",
      "        solution = [item for v in self.variables for item in (v.randomize() if isinstance(v.randomize(), list) else [v.randomize()])]", "C14.R3"),
    V("dimension-counts-variables", _M, "        kwargs[\"space_dimension\"] = sum([v.size() for v in variables])",
      "        kwargs[\"space_dimension\"] = len(variables)", "C14.R1"),
    V("bounds-upper-lower-swapped", _M, "        return np.array(lb), np.array(ub)", "        return np.array(ub), np.array(lb)", "C14.R4"),
    V("transform-counter-by-one", _M, "            counter += v.size()\n", "            counter += 1\n", "C14.R4"),
    V("continuous-multi-bounds-scalar", _M,
      "class ContinuousMultiVariable(Variable):", "class ContinuousMultiVariable(Variable):  # variant", "C14.R2",
      more=[(_M, "    def get_bounds(self) -> tuple[tuple[float] | list[float], tuple[float] | list[float]]:\n        return self.lower_bounds, self.upper_bounds\n\n    def correct(self, value: list):\n        return [v.correct(value[idx]) for idx, v in enumerate(self._children)]\n\n    def decode(self, value: list) -> list:\n        return [v.decode(value[idx]) for idx, v in enumerate(self._children)]\n\n    def size(self) -> int:\n        return len(self.lower_bounds)\n\n    def has_children(self) -> bool:\n        return True\n\n\nclass DiscreteVariable",
             "    def get_bounds(self) -> tuple[tuple[float] | list[float], tuple[float] | list[float]]:\n        return self.lower_bounds, self.upper_bounds\n\n    def correct(self, value: list):\n        return [v.correct(value[idx]) for idx, v in enumerate(self._children)]\n\n    def decode(self, value: list) -> list:\n        return [v.decode(value[idx]) for idx, v in enumerate(self._children)]\n\n    def size(self) -> int:\n        return len(self.lower_bounds)\n\n    def has_children(self) -> bool:\n        return False\n\n\nclass DiscreteVariable")]),
    V("correct-solution-truncates", _M, "        return [v.correct(c) for c, v in zip(solution, variables)]",
      "        return [v.correct(c) for c, v in zip(solution, variables) if c is not None]", "C14.chain"),
    V("twin-tuple-vs-list-bounds", _M, "        lb = np.zeros(self.n_vars)\n        ub = (2 - np.finfo(float).eps) * np.ones(self.n_vars)\n        return lb, ub",
      "        lb = np.zeros(self.n_vars).tolist()\n        ub = ((2 - np.finfo(float).eps) * np.ones(self.n_vars)).tolist()\n        return lb, ub", None),
]


def selftest(res: Result, tier: str, seed: int) -> None:
    run_battery(__name__, VARIANTS, res, tier, seed)
