"""C12 - maximising f is minimising -f: non-interference of direction and fitness with the search."""
from __future__ import annotations

import ast

from .. import packaging
from ..callgraph import Resolver, own_nodes
from ..guard import closed_world
from ..model import PKG, FuncInfo, Program, ancestors, construct_key, dotted, norm, parent
from ..report import Finding, Result

EXPLANATION = (
    "Non-interference analysis. Every reference to the task direction (`.minmax`, `TaskType`, a `task_type` argument) "
    "and every read of `.fitness` in the package is enumerated and its sink classified: direction may only flow into "
    "(a) the sign selection of _fcn, (b) the direction argument of calculate_fitness (which only fills Agent.fitness), "
    "(c) task_type= of the Population/OptimizationResult packaging calls, (d) the debug print, (e) HyperTuner's ranking; "
    "fitness may only be read by average_fitness (rates) and by AntLion (the exception the property names). Algorithm "
    "code may not pass a direction to the sort/selection helpers. __should_stop__ uses the rates only under the "
    "`fitness_error is not None` / `early_stopping is not None` guards. With the sign parity of _fcn and the two "
    "restoration closures (partial evaluation under MIN and MAX) both runs execute the same operations on the same "
    "internal costs and report exact negatives."
)
ASSUMPTIONS = ["-1 * f(x) and (-f)(x) are the same float (IEEE negation is exact)", "closed-world guard R0",
               "single-objective tasks (multi-objective maximisation is C06's finding)"]
TRUSTED = ["python ast"]

ABSTRACT = f"{PKG}.abstract.OptimizationAbstract"
FITNESS_READERS = {
    f"{PKG}.helpers.average_fitness": "rates only",
    f"{PKG}.ant_lion.ant_lion_optimization.AntLionOptimization.optimization_step":
        "Ant Lion weighs by fitness - the one exception named by the property (outside its domain)",
}
DEFINING_MODULES = {f"{PKG}.models", f"{PKG}.helpers", f"{PKG}.enums", PKG}


def _in_debug_block(n: ast.AST) -> bool:
    for a in ancestors(n):
        if isinstance(a, ast.If) and dotted(a.test) == "self._debug":
            return True
        if isinstance(a, ast.If) and isinstance(a.test, ast.BoolOp) and any(dotted(v) == "self._debug" for v in a.test.values) \
                and isinstance(a.test.op, ast.And):
            return True
    return False


def _param_only_feeds_fitness(prog: Program, fi: FuncInfo, pname: str) -> bool:
    """Every use of parameter pname in fi is the direction argument of calculate_fitness."""
    uses = [n for n in own_nodes(fi) if isinstance(n, ast.Name) and n.id == pname and isinstance(n.ctx, ast.Load)]
    if not uses:
        return True
    return all(_is_fitness_dir_arg(u) for u in uses)


def _is_fitness_dir_arg(n: ast.AST) -> bool:
    p = parent(n)
    if isinstance(p, ast.Call) and isinstance(p.func, ast.Name) and p.func.id == "calculate_fitness":
        return len(p.args) >= 2 and p.args[1] is n
    if isinstance(p, ast.keyword) and p.arg == "task_type":
        pp = parent(p)
        return isinstance(pp, ast.Call) and isinstance(pp.func, ast.Name) and pp.func.id == "calculate_fitness"
    return False


def _printed_stmt(n: ast.AST) -> bool:
    for a_ in ancestors(n):
        if isinstance(a_, ast.stmt):
            return isinstance(a_, ast.Expr) and isinstance(a_.value, ast.Call) and isinstance(a_.value.func, ast.Name) \
                and a_.value.func.id == "print"
    return False


def _returned_text_only_printed(fi: FuncInfo, n: ast.AST) -> bool:
    """n sits in the `return <f-string>` of a local closure whose every reference in the enclosing function is a call that is
    only printed (or sits in a debug block): the direction only shapes a message"""
    outer = getattr(fi, "outer", None)
    if outer is None:
        return False
    ret = None
    for a_ in ancestors(n):
        if isinstance(a_, ast.stmt):
            ret = a_ if isinstance(a_, ast.Return) else None
            break
    if ret is None or not isinstance(ret.value, ast.JoinedStr):
        return False
    refs = []
    stack = [outer]
    while stack:
        f = stack.pop()
        refs.extend(m for m in own_nodes(f) if isinstance(m, ast.Name) and m.id == fi.name and isinstance(m.ctx, ast.Load))
        stack.extend(f.nested.values())
    if not refs:
        return False
    for r in refs:
        c = parent(r)
        if not (isinstance(c, ast.Call) and c.func is r):
            return False
        if not (_printed_stmt(c) or _in_debug_block(c) and _printed_stmt(c)):
            return False
    return True


def _sink_ok(prog: Program, resolver: Resolver, fi: FuncInfo, n: ast.AST, depth: int = 3) -> tuple:
    """Is the use `n` (an expression carrying the direction) an allowed sink?  -> (ok, why)"""
    q = fi.qualname
    if q == f"{ABSTRACT}._fcn":
        return True, "_fcn sign selection (SGN-evaluated)"
    if q.startswith(f"{PKG}.hypertuner.HyperTuner."):
        return True, "HyperTuner ranking (C19 decides its polarity)"
    if _in_debug_block(n):
        return True, "debug print"
    for a_ in ancestors(n):
        if isinstance(a_, ast.stmt):
            if isinstance(a_, ast.Expr) and isinstance(a_.value, ast.Call) and isinstance(a_.value.func, ast.Name) \
                    and a_.value.func.id == "print":
                return True, "only printed"
            break
    if _is_fitness_dir_arg(n):
        return True, "direction argument of calculate_fitness"
    if _returned_text_only_printed(fi, n):
        return True, "text returned by a local helper that is only printed"
    p = parent(n)
    if isinstance(p, ast.keyword) and p.arg == "task_type":
        pp = parent(p)
        if isinstance(pp, ast.Call) and isinstance(pp.func, ast.Name) and pp.func.id in ("Population", "OptimizationResult"):
            return True, "packaging"
    if isinstance(p, ast.Assign) and p.value is n and len(p.targets) == 1 and isinstance(p.targets[0], ast.Name) and depth > 0:
        name = p.targets[0].id
        # all uses of the local (also in closures of this function) must be allowed sinks
        uses = []
        stack = [fi]
        while stack:
            f = stack.pop()
            for m in own_nodes(f):
                if isinstance(m, ast.Name) and m.id == name and isinstance(m.ctx, ast.Load):
                    uses.append((f, m))
            stack.extend(f.nested.values())
        for (f, u) in uses:
            ok, why = _sink_ok(prog, resolver, f, u, depth - 1)
            if not ok:
                return False, f"local `{name}` carrying the direction: {why}"
        return True, f"local `{name}` only feeds allowed sinks"
    # argument of a package function whose parameter only feeds calculate_fitness
    call = p if isinstance(p, ast.Call) else (parent(p) if isinstance(p, ast.keyword) else None)
    if isinstance(call, ast.Call):
        for t in resolver.callee(fi, call):
            if isinstance(t, FuncInfo):
                params = t.params
                off = 1 if (t.is_method and not t.is_static and params and params[0] in ("self", "cls")) else 0
                pname = None
                if isinstance(p, ast.keyword):
                    pname = p.arg
                elif n in call.args:
                    i = call.args.index(n) + off
                    pname = params[i] if i < len(params) else None
                if pname and t.module.name not in DEFINING_MODULES and _param_only_feeds_fitness(prog, t, pname):
                    return True, f"parameter `{pname}` of {t.qualname} only feeds calculate_fitness"
    return False, f"direction flows into `{norm(p, 80)}`"


def run(prog: Program, res: Result) -> None:
    P = "C12"
    res.rules = ["R1 direction reads confined to allow-listed sinks", "R2 fitness read only by average_fitness (+AntLion)",
                 "R3 rates enter the stop decision only under the two optional criteria", "R4 sign parity in/out (SGN)",
                 "R5 algorithm code passes no direction to sort/selection helpers"]
    res.undecided = ["multi-objective maximisation (fails up front: C06 finding)"]
    closed_world(prog, res)
    from .. import chain as _chain
    _chain.check_solve_returns_objective(prog, res, P)      # a value substituted inside solve() is not mirrored by the sign flip
    resolver = Resolver(prog, None)
    helpers_with_dir = {f.qualname: f for f in prog.modules[f"{PKG}.helpers"].functions.values() if "task_type" in f.params and f.name != "calculate_fitness"}
    res.count("helpers-with-direction-parameter", len(helpers_with_dir))
    res.floor("helpers-with-direction-parameter", 10)

    n_dir = n_fit = 0
    for mod in prog.modules.values():
        if mod.name in DEFINING_MODULES:
            continue
        for n in ast.walk(mod.tree):
            fi = prog.func_of_node(n)
            # R1
            if isinstance(n, ast.Attribute) and n.attr == "minmax" and isinstance(n.ctx, ast.Load):
                n_dir += 1
                if fi is None:
                    ok, why = False, "module/class level"
                else:
                    ok, why = _sink_ok(prog, resolver, fi, n)
                key = construct_key(prog, n, mod)
                res.ob(ok, f"{mod.relpath}:{n.lineno} {norm(n)} -> {why}", key)
                if not ok:
                    res.add(Finding(P, "C12.R1-direction-read", key, f"{mod.relpath}:{n.lineno}",
                                    f"the task direction is consulted outside the allow-listed sinks: {why}"))
            elif isinstance(n, ast.Attribute) and n.attr == "minmax" and isinstance(n.ctx, ast.Store):
                res.add(Finding(P, "C12.R1-direction-read", construct_key(prog, n, mod), f"{mod.relpath}:{n.lineno}",
                                "the task direction is written"))
            elif isinstance(n, ast.Name) and n.id == "TaskType" and isinstance(n.ctx, ast.Load):
                n_dir += 1
                p = parent(n)
                ok = False
                why = ""
                if fi is None or isinstance(p, ast.arg) or any(isinstance(a, ast.arg) for a in ancestors(n)) \
                        or any(isinstance(a, ast.arguments) for a in ancestors(n)):
                    ok = True       # annotation / import level
                elif fi.qualname == f"{ABSTRACT}._fcn" or fi.qualname.startswith(f"{PKG}.hypertuner.HyperTuner.") or _in_debug_block(n):
                    ok = True
                elif any(isinstance(a_, ast.Expr) and isinstance(a_.value, ast.Call) and isinstance(a_.value.func, ast.Name)
                         and a_.value.func.id == "print" for a_ in ancestors(n) if isinstance(a_, ast.stmt)):
                    ok = True       # only printed
                elif isinstance(fi.node.returns, ast.AST) and any(x is n for x in ast.walk(fi.node.returns)):
                    ok = True
                elif _returned_text_only_printed(fi, n):
                    ok = True
                else:
                    why = f"TaskType referenced in {fi.qualname}"
                key = construct_key(prog, n, mod)
                res.ob(ok, None, key)
                if not ok:
                    res.add(Finding(P, "C12.R1-direction-read", key, f"{mod.relpath}:{n.lineno}",
                                    f"{why}: algorithm code must compare internal (always-minimised) costs only"))
            # R2
            elif isinstance(n, ast.Attribute) and n.attr == "fitness" and isinstance(n.ctx, (ast.Load, ast.Store, ast.Del)):
                n_fit += 1
                q = fi.qualname if fi is not None else mod.name
                top = fi
                while top is not None and top.outer is not None:
                    top = top.outer
                ok = (top is not None and top.qualname in FITNESS_READERS) and isinstance(n.ctx, ast.Load)
                key = construct_key(prog, n, mod)
                res.ob(ok, f"{mod.relpath}:{n.lineno} {norm(parent(n), 80)} ({FITNESS_READERS.get(top.qualname) if ok else 'NOT ALLOWED'})", key)
                if not ok:
                    res.add(Finding(P, "C12.R2-fitness-read", key, f"{mod.relpath}:{n.lineno}",
                                    f"Agent.fitness is consulted in {q}: fitness differs between max f and min -f, so the "
                                    f"two searches diverge"))
            # R5
            elif isinstance(n, ast.Call) and fi is not None and fi.cls is not None and prog.is_subclass(fi.cls, ABSTRACT):
                for t in resolver.callee(fi, n):
                    if isinstance(t, FuncInfo) and t.qualname in helpers_with_dir:
                        idx = t.params.index("task_type")
                        passed = len(n.args) > idx or any(k.arg == "task_type" for k in n.keywords) or \
                            any(k.arg is None for k in n.keywords) or any(isinstance(a, ast.Starred) for a in n.args)
                        res.ob(not passed, None, construct_key(prog, n, mod))
                        res.count("helper-calls-from-algorithms")
                        if passed:
                            res.add(Finding(P, "C12.R5-helper-direction", construct_key(prog, n, mod), f"{mod.relpath}:{n.lineno}",
                                            f"{fi.qualname} passes a direction to {t.name}: algorithms rank internal costs, "
                                            f"which are always minimised"))
    # helpers.average_fitness must still be the reader
    hf = prog.modules[f"{PKG}.helpers"]
    for n in ast.walk(hf.tree):
        if isinstance(n, ast.Attribute) and n.attr == "fitness":
            fi = prog.func_of_node(n)
            n_fit += 1
            ok = fi is not None and fi.qualname in FITNESS_READERS
            res.ob(ok, f"{hf.relpath}:{n.lineno} {norm(parent(n), 80)}", construct_key(prog, n, hf))
            if not ok:
                res.add(Finding(P, "C12.R2-fitness-read", construct_key(prog, n, hf), f"{hf.relpath}:{n.lineno}",
                                f"Agent.fitness is consulted by helper {fi.qualname if fi else '?'}"))
    # any helper other than the direction-parameterised selection helpers reading a direction
    for f in hf.functions.values():
        for n in own_nodes(f):
            if isinstance(n, ast.Attribute) and n.attr == "minmax":
                res.add(Finding(P, "C12.R1-direction-read", construct_key(prog, n, hf), f"{hf.relpath}:{n.lineno}",
                                f"helper {f.name} reads a task direction"))
    res.count("direction-references", n_dir)
    res.count("fitness-references", n_fit)
    res.floor("direction-references", 8)
    res.floor("fitness-references", 2)
    res.floor("helper-calls-from-algorithms", 25)

    # R3: rates only under the optional criteria
    ss = prog.func(f"{ABSTRACT}.__should_stop__")
    guards = {}
    from ..optmodel import simple_assigns
    for (nm, val, _st) in simple_assigns(ss.node):
        d = dotted(val)
        if d in ("self._config.fitness_error", "self._config.early_stopping"):
            guards[nm] = d
    rate_params = set(ss.params[1:])
    for n in own_nodes(ss):
        is_rate = (isinstance(n, ast.Name) and n.id in rate_params and isinstance(n.ctx, ast.Load)) or \
                  (isinstance(n, ast.Attribute) and dotted(n) in ("self._errors", "self._error_diffs"))
        if not is_rate:
            continue
        ok = False
        from ..sem import path_conditions
        for (test, pol) in path_conditions(ss.node, n):
            # the use sits where an optional criterion is known to be configured: inside `if X is not None`, in the else of
            # `if X is None`, or after an `if X is None: return ..` sibling
            tests = [test]
            if isinstance(test, ast.BoolOp) and isinstance(test.op, ast.And) and pol:
                tests = list(test.values)
            elif isinstance(test, ast.BoolOp) and isinstance(test.op, ast.Or) and not pol:
                tests = list(test.values)
            for t in tests:
                if isinstance(t, ast.Compare) and len(t.ops) == 1 and isinstance(t.ops[0], (ast.IsNot, ast.Is)) \
                        and isinstance(t.comparators[0], ast.Constant) and t.comparators[0].value is None:
                    l = t.left
                    if (isinstance(l, ast.Name) and l.id in guards) or dotted(l) in ("self._config.fitness_error", "self._config.early_stopping"):
                        if isinstance(t.ops[0], ast.IsNot) == pol:
                            ok = True
        key = construct_key(prog, n, ss.module)
        res.ob(ok, f"{ss.module.relpath}:{n.lineno} {norm(n)} guarded={ok}", key)
        if not ok:
            res.add(Finding(P, "C12.R3-rates-only-under-optional-criteria", key, f"{ss.module.relpath}:{n.lineno}",
                            f"`{norm(n)}` (a fitness-derived rate) influences the stop decision outside the "
                            f"`fitness_error is not None` / `early_stopping is not None` guards"))
    # R4
    packaging.check_sign_parity(prog, res, P)
    packaging.check_packaging(prog, res, P)


# ---------------------------------------------------------------------------------------------
from ..selftest import V, run_battery  # noqa: E402

_W = "pyvolutionary/whales/whales_optimization.py"
_A = "pyvolutionary/abstract.py"
_M = "pyvolutionary/models.py"
_G = "pyvolutionary/grey_wolf/grey_wolf_optimization.py"
_ANCHOR = "        leader_position = np.array(self._best_agent.position)\n"
VARIANTS = [
    V("sort-with-task-direction", _W, _ANCHOR,
      _ANCHOR + "        ranked = sort_by_cost(self._population, task_type=self._task.minmax)\n", "C12.R",
      more=[(_W, "from ..helpers import parse_obj_doc  # type: ignore\n", "from ..helpers import parse_obj_doc, sort_by_cost  # type: ignore\n")]),
    V("fitness-weighted-roulette", _W, _ANCHOR,
      _ANCHOR + "        w = np.array([a.fitness for a in self._population])\n        leader_position = leader_position * (w[0] / w.sum())\n", "C12.R2"),
    V("direction-keyed-reverse", _W, _ANCHOR,
      _ANCHOR + "        ranked = sorted(self._population, key=lambda a: a.cost, reverse=(self._task.minmax == TaskType.MAX))\n", "C12.R1",
      more=[(_W, "from ..abstract import OptimizationAbstract\n", "from ..abstract import OptimizationAbstract\nfrom ..enums import TaskType\n")]),
    V("fcn-sign-slip", _A, "isinstance(value, list) else -value", "isinstance(value, list) else +value", "C12.SGN-fcn"),
    V("restore-only-population", _M,
      "        def refine_best_solution(a: Agent, tt: TaskType) -> Agent:\n            if tt == TaskType.MIN:\n                return a\n            # return the agent with the position multiplied by -1\n            return a.model_copy(update={\"cost\": -a.cost})",
      "        def refine_best_solution(a: Agent, tt: TaskType) -> Agent:\n            return a", "C12.SGN-restore"),
    V("rates-always-stop", _A, "        if fitness_error is not None:\n            has_to_stop |= current_error <= fitness_error\n",
      "        has_to_stop |= current_error <= (fitness_error or 0.0)\n", "C12.R3"),
    V("direction-local-leaks", _W, _ANCHOR,
      _ANCHOR + "        tt = self._task.minmax\n        bias = 1.0 if str(tt) == 'max' else -1.0\n", "C12.R1"),
    V("greedy-on-fitness", _A, "        return new_agent if new_agent.cost < agent_copy.cost else agent_copy",
      "        return new_agent if new_agent.fitness > agent_copy.fitness else agent_copy", "C12.R2"),
    V("population-ignores-direction", _A,
      "            evolution.append(Population(agents=self._population, task_type=task.minmax))\n\n            (self._best_agent",
      "            evolution.append(Population(agents=self._population))\n\n            (self._best_agent", "C12.PKG-optimize"),
    # twins
    V("twin-fcn-if-style", _A,
      "        value = self._task.solve(x)\n        if self._task.minmax == TaskType.MIN:\n            return value\n        return [-v for v in value] if isinstance(value, list) else -value",
      "        value = self._task.solve(x)\n        if self._task.minmax == TaskType.MAX:\n            return [-1 * v for v in value] if isinstance(value, list) else -1 * value\n        return value", None),
    V("twin-debug-fitness-free", _W, _ANCHOR, _ANCHOR + "        if self._debug:\n            print(self._task.minmax)\n", None),
]


def selftest(res: Result, tier: str, seed: int) -> None:
    run_battery(__name__, VARIANTS, res, tier, seed)
