"""C15 - faithful history, truthful trend utilities."""
from __future__ import annotations

import ast

from .. import agents, packaging
from ..callgraph import Resolver, own_nodes
from ..alias import AliasCtx
from ..guard import closed_world
from ..model import PKG, FuncInfo, Program, construct_key, dotted, norm, parent
from ..report import Finding, Result
from .c01 import apply_agent_facts

EXPLANATION = (
    "(a) Recorded generations share Agent objects with the live population, so history fidelity needs the core state of "
    "existing agents to be immutable: no store/setattr on position/cost/fitness anywhere, no in-place mutation of a "
    "position list through any alias, model_copy never rewrites a core field, sign restoration is by copy, and the "
    "snapshot list itself is a new list per generation (Population(...) copies `agents`; evolution is only appended to). "
    "(b) Direction typing: values reachable from an OptimizationResult carry the user's sign; every sort/selection "
    "helper applied to them must receive a direction that originates from the result/task, and the result must record "
    "the direction it was packaged with."
)
ASSUMPTIONS = ["pydantic list[Agent] validation copies the list and keeps the model instances by reference",
               "auxiliary (non-core) fields of agents are not part of the recorded observable", "closed-world guard R0"]
TRUSTED = ["python ast", "pydantic v2 model semantics (DESIGN 3.6)"]

ABSTRACT = f"{PKG}.abstract.OptimizationAbstract"
CORE_RULES = {"core-store", "position-mutated", "model-copy-core", "model-copy-shape", "agent-class"}


def run(prog: Program, res: Result) -> None:
    P = "C15"
    res.rules = ["R1 core fields / position lists of existing agents are never modified (ORG)",
                 "R2 evolution is append-only and every snapshot is packaged from the live population",
                 "R3 ranking of result data is direction-typed"]
    res.undecided = []
    closed_world(prog, res)
    facts = agents.scan(prog)
    n_ok = facts.model_copies + facts.core_store_sites_examined + facts.position_alias_sites
    res.obligations += n_ok
    res.discharged += n_ok
    res.constructs.update({f"site{i}" for i in range(n_ok)})
    res.count("position-alias-sites", facts.position_alias_sites)
    res.count("model_copy-sites", facts.model_copies)
    res.floor("position-alias-sites", 50)
    res.floor("model_copy-sites", 10)
    apply_agent_facts(prog, res, P, facts, only=CORE_RULES, rule_map={k: "R1-recorded-core-immutable" for k in CORE_RULES})
    sp = packaging.check_sign_parity(prog, res, P)
    packaging.check_packaging(prog, res, P, need_fresh=True)

    # auxiliary-field in-place updates of agents: notes, not violations
    resolver = Resolver(prog, None)
    aux = 0
    for fi in prog.all_functions():
        if fi.cls is None or not prog.is_subclass(fi.cls, ABSTRACT):
            continue
        for n in own_nodes(fi):
            if isinstance(n, ast.Attribute) and isinstance(n.ctx, ast.Store) and n.attr not in agents.CORE \
                    and not (isinstance(n.value, ast.Name) and n.value.id == "self"):
                aux += 1
                if aux <= 12:
                    res.note(f"{fi.module.relpath}:{n.lineno}: auxiliary field updated in place: {norm(parent(n), 70)}")
    res.count("auxiliary-inplace-updates(noted)", aux)

    # R2 evolution append-only inside optimize
    from ..optmodel import extract, is_population_call
    om = extract(prog)
    opt = om.fn
    hist = om.history
    ev_uses = [n for n in own_nodes(opt) if isinstance(n, ast.Name) and n.id == hist]
    res.count("evolution-uses", len(ev_uses))
    res.floor("evolution-uses", 2)
    for n in ev_uses:
        p = parent(n)
        ok = False
        if isinstance(n.ctx, ast.Store):
            st = p
            ok = isinstance(st, (ast.Assign, ast.AnnAssign)) and isinstance(st.value, ast.List) and (
                not st.value.elts or (len(st.value.elts) == 1 and is_population_call(st.value.elts[0])))
        elif isinstance(p, ast.Attribute) and p.attr == "append" and isinstance(parent(p), ast.Call):
            c = parent(p)
            ok = len(c.args) == 1 and is_population_call(c.args[0])
        elif isinstance(p, ast.keyword) and p.arg == "evolution":
            ok = True
        res.ob(ok, f"{opt.module.relpath}:{n.lineno} {norm(parent(p) if isinstance(p, ast.Attribute) else p, 80)}",
               construct_key(prog, n, opt.module))
        if not ok:
            res.add(Finding(P, "C15.R2-evolution-append-only", construct_key(prog, n, opt.module),
                            f"{opt.module.relpath}:{n.lineno}",
                            f"`{norm(p, 80)}`: the recorded history is used other than by appending a packaged Population"))
    # nobody else touches the evolution of a result
    for mod in prog.modules.values():
        for n in ast.walk(mod.tree):
            if isinstance(n, ast.Attribute) and n.attr in ("evolution", "agents") and isinstance(n.ctx, (ast.Store, ast.Del)):
                res.add(Finding(P, "C15.R2-evolution-append-only", construct_key(prog, n, mod), f"{mod.relpath}:{n.lineno}",
                                f"`{norm(parent(n), 80)}` rewrites recorded history"))
            if isinstance(n, ast.Call) and isinstance(n.func, ast.Attribute) and n.func.attr in ("append", "extend", "insert", "pop", "remove", "sort", "reverse", "clear") \
                    and isinstance(n.func.value, ast.Attribute) and n.func.value.attr in ("evolution", "agents"):
                res.add(Finding(P, "C15.R2-evolution-append-only", construct_key(prog, n, mod), f"{mod.relpath}:{n.lineno}",
                                f"`{norm(n, 80)}` edits recorded history in place"))
            if isinstance(n, ast.Subscript) and isinstance(n.ctx, (ast.Store, ast.Del)) and isinstance(n.value, ast.Attribute) \
                    and n.value.attr in ("evolution", "agents"):
                fi = prog.func_of_node(n)
                if fi is not None and fi.qualname == f"{PKG}.models.Population.__setitem__":
                    continue
                res.add(Finding(P, "C15.R2-evolution-append-only", construct_key(prog, n, mod), f"{mod.relpath}:{n.lineno}",
                                f"`{norm(parent(n), 80)}` rewrites recorded history"))

    # R3 direction typing of the trend utilities
    utils = prog.modules.get(f"{PKG}.utils")
    if utils is None:
        res.errors.append("pyvolutionary/utils.py vanished")
        return
    helpers_dir = {f.name: f for f in prog.modules[f"{PKG}.helpers"].functions.values() if "task_type" in f.params
                   and f.name != "calculate_fitness"}
    result_cls = prog.cls(f"{PKG}.models.OptimizationResult")
    has_dir_field = "task_type" in result_cls.fields
    n_calls = 0
    for f in utils.functions.values():
        rparam = f.params[0] if f.params else None
        for n in own_nodes(f):
            if isinstance(n, ast.Call) and isinstance(n.func, ast.Name) and n.func.id in helpers_dir:
                h = helpers_dir[n.func.id]
                # is the ranked data result data?
                # every function of utils.py that takes a result ranks result data (user-sign costs)
                ann = f.node.args.args[0].annotation if f.node.args.args else None
                if not (rparam == "result" or (ann is not None and "OptimizationResult" in norm(ann))):
                    continue
                n_calls += 1
                idx = h.params.index("task_type")
                d = None
                if len(n.args) > idx:
                    d = n.args[idx]
                for k in n.keywords:
                    if k.arg == "task_type":
                        d = k.value
                ok = d is not None and any(isinstance(x, ast.Name) and x.id == rparam for x in ast.walk(d)) and has_dir_field
                key = construct_key(prog, n, utils)
                res.ob(ok, f"{utils.relpath}:{n.lineno} {norm(n, 90)}", key)
                if not ok:
                    why = ("no direction is passed: the helper ranks ascending, so for a maximisation task the 'best' agent is "
                           "the worst one" if d is None else
                           "the direction does not originate from the result" if has_dir_field else
                           "OptimizationResult records no direction to pass")
                    res.add(Finding(P, "C15.R3-direction-typed-ranking", key, f"{utils.relpath}:{n.lineno}",
                                    f"{f.name} ranks user-sign costs of a result with {h.name}: {why}"))
    res.count("utils-ranking-calls", n_calls)
    res.floor("utils-ranking-calls", 1)
    # the requested iterations are reported one entry per request, in the requested order: nothing may sort / deduplicate /
    # reverse the `iters` argument on its way to the generation index
    n_it = 0
    REORDER = {"sorted", "reversed", "set", "frozenset", "np.unique", "np.sort", "numpy.unique", "numpy.sort", "dict.fromkeys"}
    for f in utils.functions.values():
        it_params = [p_ for p_ in f.params if p_ in ("iters", "iterations", "generations")]
        if not it_params:
            continue
        n_it += 1
        for n in own_nodes(f):
            hit = None
            if isinstance(n, ast.Call) and (dotted(n.func) or "") in REORDER and any(
                    isinstance(x, ast.Name) and x.id in it_params for a in n.args for x in ast.walk(a)):
                hit = n
            elif isinstance(n, ast.Call) and isinstance(n.func, ast.Attribute) and n.func.attr in ("sort", "reverse") \
                    and isinstance(n.func.value, ast.Name) and n.func.value.id in it_params:
                hit = n
            elif isinstance(n, ast.Subscript) and isinstance(n.value, ast.Name) and n.value.id in it_params \
                    and isinstance(n.slice, ast.Slice) and n.slice.step is not None and isinstance(n.ctx, ast.Load):
                hit = n
            if hit is not None:
                key = construct_key(prog, hit, utils)
                res.ob(False)
                res.add(Finding(P, "C15.R3-iterations-as-requested", key, f"{utils.relpath}:{hit.lineno}",
                                f"{f.name} passes the requested iterations through `{norm(hit, 40)}`: entry j of the returned trend is "
                                f"no longer the value at generation iters[j] (order / duplicates of the request are lost)"))
    res.count("utils-functions-taking-iterations", n_it)
    res.floor("utils-functions-taking-iterations", 2)
    if has_dir_field:
        # the field must be filled from the packaging direction: kwargs passes task_type through super().__init__(**kwargs)
        res.ob(True, f"{result_cls.loc()} OptimizationResult.task_type field present", "OptimizationResult.task_type")


# ---------------------------------------------------------------------------------------------
from ..selftest import V, run_battery  # noqa: E402

_W = "pyvolutionary/whales/whales_optimization.py"
_A = "pyvolutionary/abstract.py"
_M = "pyvolutionary/models.py"
_U = "pyvolutionary/utils.py"
_ANCHOR = "        leader_position = np.array(self._best_agent.position)\n"
VARIANTS = [
    V("trend-sorts-requested-iterations", "pyvolutionary/utils.py",
      "    return [sort_by_cost(result.evolution[i].agents, result.task_type)[idx].cost for i in iters]",
      "    return [sort_by_cost(result.evolution[i].agents, result.task_type)[idx].cost for i in sorted(iters)]", "C15.R3"),
    V("cost-store-on-loop-member", _W, _ANCHOR,
      _ANCHOR + "        for w in self._population:\n            w.cost = w.cost * 1.0\n", "C15.R1"),
    V("position-element-store", _W, _ANCHOR,
      _ANCHOR + "        for w in self._population:\n            w.position[0] = float(leader_position[0])\n", "C15.R1"),
    V("refine-agent-negates-in-place", _M,
      "            # return the agent with the position multiplied by -1\n            return a.model_copy(update={\"cost\": -a.cost})\n\n        task_type = kwargs.get(\"task_type\", TaskType.MIN)\n        agents",
      "            a.cost = -a.cost\n            return a\n\n        task_type = kwargs.get(\"task_type\", TaskType.MIN)\n        agents", "C15."),
    V("third-ranking-without-direction", _U, "def best_agent_trend(",
      "def worst_agent_trend(result: OptimizationResult) -> list[float]:\n    return [sort_by_cost(g.agents)[-1].cost for g in result.evolution]\n\n\ndef best_agent_trend(", "C15.R3"),
    V("utils-direction-dropped", _U, "sort_by_cost(result.evolution[i].agents, result.task_type)[idx].cost", "sort_by_cost(result.evolution[i].agents)[idx].cost", "C15.R3"),
    V("snapshot-shares-one-population", _A,
      "            evolution.append(Population(agents=self._population, task_type=task.minmax))\n\n            (self._best_agent",
      "            evolution[-1] = Population(agents=self._population, task_type=task.minmax)\n\n            (self._best_agent", "C15."),
    V("result-direction-field-removed", _M, "    best_solution: Agent | None = None\n    task_type: TaskType = TaskType.MIN\n", "    best_solution: Agent | None = None\n", "C15.R3"),
    V("velocity-style-inplace-position", _W, _ANCHOR, _ANCHOR + "        self._best_agent.position.reverse()\n", "C15.R1"),
    # twins
    V("twin-aux-field-update", _W, _ANCHOR, _ANCHOR + "        for w in self._population:\n            w.age = 1\n", None),
    V("twin-noncore-copy", _W, _ANCHOR, _ANCHOR + "        clones = [w.model_copy(update={\"tag\": 1}) for w in self._population]\n", None),
]


def selftest(res: Result, tier: str, seed: int) -> None:
    run_battery(__name__, VARIANTS, res, tier, seed)
