"""C09 - optimize() does not modify the caller's configuration or task: who-may-write."""
from __future__ import annotations

import ast

from ..alias import MUTATORS, AliasCtx
from ..callgraph import Resolver, call_path, own_nodes, reachable, run_roots
from ..guard import closed_world
from ..model import PKG, ClassInfo, FuncInfo, Program, construct_key, dotted, norm, parent
from ..report import Finding, Result

EXPLANATION = (
    "Who-may-write analysis. In every function of every class deriving from OptimizationAbstract (nested closures "
    "included) no store, augmented store, delete, constant-name setattr or mutating method call may target a value that "
    "is rooted - directly, through a local alias, a closure variable, a loop variable, a view, or an alias field - at "
    "self._config, self._task or the `task` parameter; such a value may not be passed to a package function whose "
    "parameter-write summary (fixpoint over the call graph) writes that parameter; and no method of Task / Variable / "
    "LabelEncoder / config models that stores into its own `self` is reachable from optimize() of any of the exported "
    "optimizers. A hit is a write into an object the caller owns."
)
ASSUMPTIONS = [
    "the user's objective_function does not mutate the task (outside the analysis)",
    "numpy/pydantic summaries: a call result is a fresh value unless listed as a view (reshape/ravel/asarray/...)",
    "closed-world guard R0",
]
TRUSTED = ["python ast", "DESIGN.md 3.6 summaries"]

ABSTRACT = f"{PKG}.abstract.OptimizationAbstract"
ROOT_FIELDS = {"_config": "config", "_task": "task"}
_MUTABLE_HINTS = ("list", "dict", "set", "ndarray", "Any", "List", "Dict", "Set", "array", "object", "EarlyStopping",
                  "Variable")


def _optimizer_classes(prog: Program) -> list:
    return [prog.cls(ABSTRACT)] + prog.subclasses(ABSTRACT)


def _field_mutable(prog: Program, attr: str) -> bool:
    """Is a config/task field of that name annotated with a mutable type?  Unknown -> True."""
    found = False
    for ci in prog.classes.values():
        if not (prog.is_subclass(ci, prog.BASECONFIG) or ci.qualname in (prog.TASK, f"{PKG}.models.EarlyStopping")):
            continue
        if attr in ci.fields:
            found = True
            ann = norm(ci.fields[attr].annotation)
            if any(h in ann for h in _MUTABLE_HINTS):
                return True
    return not found


def run(prog: Program, res: Result) -> None:
    P = "C09"
    res.rules = ["R1 no store/aug/del/setattr through self._config / self._task / task (aliases followed)",
                 "R2 no mutating method call on a part of them",
                 "R3 not passed to a callee that writes its parameter (summaries by fixpoint)",
                 "R4 no self-writing Task/Variable/config/LabelEncoder method reachable from optimize()"]
    res.undecided = ["mutation of the task by the user's own objective_function"]
    closed_world(prog, res)
    resolver = Resolver(prog, None)
    opt_classes = _optimizer_classes(prog)
    opt_nodes = {id(c.node) for c in opt_classes}

    # alias fields: self.X = <rooted expr> anywhere in an optimizer class
    alias_fields: dict = {}

    def is_root(fi: FuncInfo, e: ast.AST):
        if fi.cls is None or id(fi.cls.node) not in opt_nodes:
            return None
        if isinstance(e, ast.Attribute) and isinstance(e.value, ast.Name) and e.value.id == "self":
            if e.attr in ROOT_FIELDS:
                return ROOT_FIELDS[e.attr]
            if (fi.cls.qualname, e.attr) in alias_fields:
                return alias_fields[(fi.cls.qualname, e.attr)]
        if isinstance(e, ast.Name):
            top = fi
            while top.outer is not None:
                top = top.outer
            if top.name == "optimize" and e.id == "task" and "task" in top.params and \
                    not any(e.id in resolver.locals_of(s) and s is not top for s in _scopes(fi)):
                return "task"
            if top.name == "__init__" and e.id == "config" and "config" in top.params:
                return None   # constructors may not run on the optimize() path; C18 looks at them
        return None

    actx = AliasCtx(resolver, is_root)
    funcs = [f for f in prog.all_functions() if f.cls is not None and id(f.cls.node) in opt_nodes]
    res.count("functions-in-optimizer-classes", len(funcs))
    res.floor("functions-in-optimizer-classes", 400)

    # pass 0: alias fields (two rounds for chains)
    for _ in range(2):
        for fi in funcs:
            for n in own_nodes(fi):
                if isinstance(n, ast.Assign):
                    for t in n.targets:
                        if isinstance(t, ast.Attribute) and isinstance(t.value, ast.Name) and t.value.id == "self" \
                                and t.attr not in ROOT_FIELDS:
                            r = actx.rooted(fi, n.value)
                            if r is not None:
                                alias_fields[(fi.cls.qualname, t.attr)] = r[0]
    res.count("alias-fields", len(alias_fields))

    # parameter-write summaries for all package functions
    pw = _param_writes(prog, resolver)

    def report(rule, fi, node, what, root):
        key = construct_key(prog, node, fi.module)
        res.add(Finding(P, rule, key, f"{fi.module.relpath}:{node.lineno}",
                        f"{what}: writes into the caller's {root[0]} object through `{root[1]}` in {fi.qualname}"))

    n_sites = 0
    for fi in funcs:
        for n in own_nodes(fi):
            # R1 stores
            tgt, kind = None, None
            if isinstance(n, (ast.Attribute, ast.Subscript)) and isinstance(n.ctx, (ast.Store, ast.Del)):
                tgt, kind = n, "store"
            elif isinstance(n, ast.Call) and isinstance(n.func, ast.Name) and n.func.id == "setattr" and len(n.args) >= 2:
                r = actx.rooted(fi, n.args[0])
                n_sites += 1
                res.ob(r is None, None, construct_key(prog, n, fi.module))
                if r is not None:
                    report("C09.R1-store", fi, n, "setattr", r)
                continue
            if tgt is not None:
                n_sites += 1
                r = actx.rooted(fi, tgt.value)
                ok = r is None
                res.ob(ok, f"{fi.module.relpath}:{n.lineno} {norm(parent(n) if isinstance(parent(n), ast.stmt) else n, 90)}"
                       if (not ok or n_sites % 40 == 0) else None, construct_key(prog, n, fi.module))
                if not ok:
                    report("C09.R1-store", fi, n, "attribute/subscript store", r)
                continue
            # augmented assignment on a local alias of a mutable field
            if isinstance(n, ast.AugAssign) and isinstance(n.target, ast.Name):
                for val in actx.name_values(fi, n.target):
                    r = actx.rooted(fi, val) if val is not None else None
                    if r is not None and isinstance(val, (ast.Attribute, ast.Subscript)):
                        attr = val.attr if isinstance(val, ast.Attribute) else None
                        if attr is None or _field_mutable(prog, attr):
                            report("C09.R1-store", fi, n, "in-place augmented assignment on an alias", r)
                continue
            if isinstance(n, ast.Call):
                # R2 mutating method
                if isinstance(n.func, ast.Attribute) and n.func.attr in MUTATORS:
                    r = actx.rooted(fi, n.func.value)
                    n_sites += 1
                    res.ob(r is None, None, construct_key(prog, n, fi.module))
                    if r is not None:
                        report("C09.R2-mutating-call", fi, n, f"mutating call .{n.func.attr}()", r)
                # R3 passing to a writer
                targets = [t for t in resolver.callee(fi, n) if isinstance(t, FuncInfo)]
                for t in targets:
                    written = pw.get(t, set())
                    if not written:
                        continue
                    params = t.params
                    off = 1 if (t.is_method and not t.is_static and params and params[0] in ("self", "cls")) else 0
                    for i, a in enumerate(n.args):
                        pname = params[i + off] if i + off < len(params) else None
                        if pname in written:
                            r = actx.rooted(fi, a)
                            if r is not None:
                                report("C09.R3-passed-to-writer", fi, n,
                                       f"passed to {t.qualname} which writes its parameter `{pname}`", r)
                    for kw in n.keywords:
                        if kw.arg in written:
                            r = actx.rooted(fi, kw.value)
                            if r is not None:
                                report("C09.R3-passed-to-writer", fi, n,
                                       f"passed to {t.qualname} which writes its parameter `{kw.arg}`", r)
    res.count("write-sites-examined", n_sites)
    res.floor("write-sites-examined", 100)

    # R4: self-writing methods of the caller-owned model classes on the run path
    owned = []
    for ci in prog.classes.values():
        if (prog.is_subclass(ci, prog.TASK) or prog.is_subclass(ci, prog.VARIABLE) or
                prog.is_subclass(ci, prog.BASECONFIG) or ci.qualname in (f"{PKG}.models.LabelEncoder",
                                                                         f"{PKG}.models.EarlyStopping")):
            owned.append(ci)
    writers = {}
    for ci in owned:
        for name, m in ci.methods.items():
            if name == "__init__" or any(d.endswith("validator") for d in m.decorators):
                continue
            for n in own_nodes(m):
                hit = None
                if isinstance(n, (ast.Attribute, ast.Subscript)) and isinstance(n.ctx, (ast.Store, ast.Del)):
                    base = n
                    while isinstance(base, (ast.Attribute, ast.Subscript)):
                        base = base.value
                    if isinstance(base, ast.Name) and base.id == "self":
                        hit = n
                elif isinstance(n, ast.Call) and isinstance(n.func, ast.Attribute) and n.func.attr in MUTATORS:
                    base = n.func.value
                    while isinstance(base, (ast.Attribute, ast.Subscript)):
                        base = base.value
                    if isinstance(base, ast.Name) and base.id == "self":
                        hit = n
                if hit is not None:
                    writers.setdefault(m, hit)
    res.count("self-writing-model-methods", len(writers))
    n_ctx = 0
    for ctx in prog.exported_optimizers():
        n_ctx += 1
        seen = reachable(prog, ctx, run_roots(prog, ctx))
        for m, hit in writers.items():
            ok = m not in seen
            res.ob(ok, None, f"{ctx.name}:{m.qualname}")
            if not ok:
                res.add(Finding(P, "C09.R4-model-method-writes-self", construct_key(prog, hit, m.module),
                                f"{m.module.relpath}:{hit.lineno}",
                                f"{m.qualname} stores into its own object and is reachable from {ctx.name}.optimize()",
                                call_path(seen, m)))
    res.count("optimizer-contexts", n_ctx)
    res.floor("optimizer-contexts", 84)


def _scopes(fi: FuncInfo):
    cur = fi
    while cur is not None:
        yield cur
        cur = cur.outer


def _param_writes(prog: Program, resolver: Resolver) -> dict:
    """FuncInfo -> set of parameter names the function may write through (transitively)."""
    pw: dict = {f: set() for f in prog.all_functions()}

    def param_root(fi: FuncInfo, e: ast.AST):
        cur = e
        while isinstance(cur, (ast.Attribute, ast.Subscript, ast.Starred)):
            cur = cur.value
        if isinstance(cur, ast.Name) and cur.id in fi.params and cur.id not in ("self", "cls"):
            # not rebound locally before? be conservative: any param name counts
            return cur.id
        return None

    for fi in prog.all_functions():
        for n in own_nodes(fi):
            if isinstance(n, (ast.Attribute, ast.Subscript)) and isinstance(n.ctx, (ast.Store, ast.Del)):
                p = param_root(fi, n.value)
                if p:
                    pw[fi].add(p)
            elif isinstance(n, ast.Call) and isinstance(n.func, ast.Attribute) and n.func.attr in MUTATORS:
                p = param_root(fi, n.func.value)
                if p:
                    pw[fi].add(p)
            elif isinstance(n, ast.AugAssign) and isinstance(n.target, ast.Name) and n.target.id in fi.params:
                # x += ... on a parameter mutates a list/ndarray argument in place
                ann = _param_annotation(fi, n.target.id)
                if ann is None or any(h in ann for h in _MUTABLE_HINTS):
                    pw[fi].add(n.target.id)
    changed = True
    rounds = 0
    while changed and rounds < 10:
        changed = False
        rounds += 1
        for fi in prog.all_functions():
            for n in own_nodes(fi):
                if not isinstance(n, ast.Call):
                    continue
                for t in resolver.callee(fi, n):
                    if not isinstance(t, FuncInfo) or not pw.get(t):
                        continue
                    params = t.params
                    off = 1 if (t.is_method and not t.is_static and params and params[0] in ("self", "cls")) else 0
                    for i, a in enumerate(n.args):
                        pname = params[i + off] if i + off < len(params) else None
                        if pname in pw[t]:
                            p = param_root(fi, a)
                            if p and p not in pw[fi]:
                                pw[fi].add(p)
                                changed = True
    return pw


def _param_annotation(fi: FuncInfo, name: str):
    a = fi.node.args
    for x in a.posonlyargs + a.args + a.kwonlyargs:
        if x.arg == name:
            return norm(x.annotation) if x.annotation is not None else None
    return None


# ---------------------------------------------------------------------------------------------
from ..selftest import V, run_battery  # noqa: E402

_W = "pyvolutionary/whales/whales_optimization.py"
_A = "pyvolutionary/abstract.py"
_H = "pyvolutionary/helpers.py"
_ANCHOR = "        leader_position = np.array(self._best_agent.position)\n"
VARIANTS = [
    V("decay-config-field", _W, _ANCHOR, _ANCHOR + "        self._config.max_cycles -= 0\n", "C09.R1"),
    V("task-data-store", _W, _ANCHOR, _ANCHOR + "        self._task.data['k'] = 1\n", "C09.R1"),
    V("alias-then-sort", _W, _ANCHOR, _ANCHOR + "        w = self._task.objective_weights\n        w.sort()\n", "C09.R2"),
    V("closure-alias-store", _W,
      "            size = self._config.population_size\n",
      "            size = self._config.population_size\n            cfg.population_size = size\n", "C09.R1",
      more=[(_W, _ANCHOR, _ANCHOR + "        cfg = self._config\n")]),
    V("task-param-store-in-optimize", _A, "        self._task = task\n", "        self._task = task\n        task.seed = None\n", "C09.R1"),
    V("helper-mutates-passed-config", _W, _ANCHOR, _ANCHOR + "        sort_and_patch(self._config)\n", "C09.R3",
      more=[(_W, "from ..abstract import OptimizationAbstract\n",
             "from ..abstract import OptimizationAbstract\n\n\ndef sort_and_patch(cfg):\n    cfg.population_size = cfg.population_size\n")]),
    V("variables-list-append", _W, _ANCHOR, _ANCHOR + "        self._task.variables.append(self._task.variables[0])\n", "C09.R2"),
    V("alias-field-store", _W, _ANCHOR, _ANCHOR + "        self._cfg2 = self._config\n        self._cfg2.max_cycles = 3\n", "C09.R1"),
    V("loop-var-part-of-task", _W, _ANCHOR, _ANCHOR + "        for v in self._task.variables:\n            v.name = 'x'\n", "C09.R1"),
    V("aug-on-list-alias", _W, _ANCHOR, _ANCHOR + "        ws = self._task.objective_weights\n        ws += [0.0]\n", "C09.R1"),
    # benign twins
    V("twin-copy-into-private-field", _W, _ANCHOR, _ANCHOR + "        self.__a = self._config.max_cycles\n        self.__a -= 1\n", None),
    V("twin-fresh-bounds-mutated", _W, _ANCHOR, _ANCHOR + "        lb, ub = self._task.get_bounds()\n        lb /= 2\n        ub[0] = 1\n", None),
    V("twin-scalar-alias-aug", _W, _ANCHOR, _ANCHOR + "        n = self._config.population_size\n        n -= 1\n", None),
    V("twin-copy-of-weights", _W, _ANCHOR, _ANCHOR + "        ws = list(self._task.objective_weights or [])\n        ws.append(1.0)\n", None),
]


def selftest(res: Result, tier: str, seed: int) -> None:
    run_battery(__name__, VARIANTS, res, tier, seed)
