"""C09 - optimize() does not modify the caller's configuration or task: who-may-write."""
from __future__ import annotations

import ast

from ..alias import MUTATORS, AliasCtx
from ..callgraph import Resolver, call_path, own_nodes, reachable, run_roots
from ..guard import closed_world
from ..model import PKG, ClassInfo, FuncInfo, Program, construct_key, dotted, norm, parent
from ..report import Finding, Result

EXPLANATION = (
    "Who-may-write analysis. In every function of every class deriving from OptimizationAbstract (nested closures "
    "included) no store, augmented store, delete, constant-name setattr or mutating method call may target a value that "
    "is rooted - directly, through a local alias, a closure variable, a loop variable, a view, or an alias field - at "
    "self._config, self._task or the `task` parameter; such a value may not be passed to a package function whose "
    "parameter-write summary (fixpoint over the call graph) writes that parameter; and no method of Task / Variable / "
    "LabelEncoder / config models that stores into its own `self` is reachable from optimize() of any of the exported "
    "optimizers. A hit is a write into an object the caller owns."
)
ASSUMPTIONS = [
    "the user's objective_function does not mutate the task (outside the analysis)",
    "numpy/pydantic summaries: a call result is a fresh value unless listed as a view (reshape/ravel/asarray/...)",
    "closed-world guard R0",
]
TRUSTED = ["python ast", "DESIGN.md 3.6 summaries"]

ABSTRACT = f"{PKG}.abstract.OptimizationAbstract"
ROOT_FIELDS = {"_config": "config", "_task": "task"}
_MUTABLE_HINTS = ("list", "dict", "set", "ndarray", "Any", "List", "Dict", "Set", "array", "object", "EarlyStopping",
                  "Variable")


def _optimizer_classes(prog: Program) -> list:
    return [prog.cls(ABSTRACT)] + prog.subclasses(ABSTRACT)


def _field_mutable(prog: Program, attr: str) -> bool:
    """Is a config/task field of that name annotated with a mutable type?  Unknown -> True."""
    found = False
    for ci in prog.classes.values():
        if not (prog.is_subclass(ci, prog.BASECONFIG) or ci.qualname in (prog.TASK, f"{PKG}.models.EarlyStopping")):
            continue
        if attr in ci.fields:
            found = True
            ann = norm(ci.fields[attr].annotation)
            if any(h in ann for h in _MUTABLE_HINTS):
                return True
    return not found


def run(prog: Program, res: Result) -> None:
    P = "C09"
    res.rules = ["R1 no store/aug/del/setattr through self._config / self._task / task (aliases followed)",
                 "R2 no mutating method call on a part of them",
                 "R3 not passed to a callee that writes its parameter (summaries by fixpoint)",
                 "R4 no self-writing Task/Variable/config/LabelEncoder method reachable from optimize()",
                 "R5 a task-method result that an optimizer changes in place is a fresh object (not state of the task)"]
    res.undecided = ["mutation of the task by the user's own objective_function"]
    closed_world(prog, res)
    resolver = Resolver(prog, None)
    opt_classes = _optimizer_classes(prog)
    opt_nodes = {id(c.node) for c in opt_classes}

    # alias fields: self.X = <rooted expr> anywhere in an optimizer class
    alias_fields: dict = {}

    def is_root(fi: FuncInfo, e: ast.AST):
        if fi.cls is None or id(fi.cls.node) not in opt_nodes:
            return None
        if isinstance(e, ast.Attribute) and isinstance(e.value, ast.Name) and e.value.id == "self":
            if e.attr in ROOT_FIELDS:
                return ROOT_FIELDS[e.attr]
            if (fi.cls.qualname, e.attr) in alias_fields:
                return alias_fields[(fi.cls.qualname, e.attr)]
        if isinstance(e, ast.Name):
            top = fi
            while top.outer is not None:
                top = top.outer
            if top.name == "optimize" and e.id == "task" and "task" in top.params and \
                    not any(e.id in resolver.locals_of(s) and s is not top for s in _scopes(fi)):
                return "task"
            if top.name == "__init__" and e.id == "config" and "config" in top.params:
                return None   # constructors may not run on the optimize() path; C18 looks at them
        return None

    actx = AliasCtx(resolver, is_root)
    funcs = [f for f in prog.all_functions() if f.cls is not None and id(f.cls.node) in opt_nodes]
    res.count("functions-in-optimizer-classes", len(funcs))
    res.floor("functions-in-optimizer-classes", 400)

    # pass 0: alias fields (two rounds for chains)
    for _ in range(2):
        for fi in funcs:
            for n in own_nodes(fi):
                if isinstance(n, ast.Assign):
                    for t in n.targets:
                        if isinstance(t, ast.Attribute) and isinstance(t.value, ast.Name) and t.value.id == "self" \
                                and t.attr not in ROOT_FIELDS:
                            r = actx.rooted(fi, n.value)
                            if r is not None:
                                alias_fields[(fi.cls.qualname, t.attr)] = r[0]
    res.count("alias-fields", len(alias_fields))

    # shallow copies of a rooted object (`<config>.model_copy()` without deep=True, copy.copy(<config>)): the copy is a new
    # object, but every mutable field value (lists, nested models, arrays) is still the caller's
    def shallow_of_root(fi: FuncInfo, v: ast.AST):
        if not isinstance(v, ast.Call):
            return None
        if isinstance(v.func, ast.Attribute) and v.func.attr in ("model_copy", "copy") and not v.args:
            deep = [k for k in v.keywords if k.arg == "deep"]
            if deep and not (isinstance(deep[0].value, ast.Constant) and deep[0].value.value is False):
                return None
            if v.func.attr == "copy" and not any(k.arg in ("update", "deep") for k in v.keywords) and v.keywords:
                return None
            return actx.rooted(fi, v.func.value)
        if dotted(v.func) in ("copy.copy", "copy") and len(v.args) == 1 and dotted(v.func) != "copy.deepcopy":
            return actx.rooted(fi, v.args[0])
        return None

    shallow_fields: dict = {}
    for fi in funcs:
        for n in own_nodes(fi):
            if isinstance(n, (ast.Assign, ast.AnnAssign)) and n.value is not None:
                targets = n.targets if isinstance(n, ast.Assign) else [n.target]
                for t in targets:
                    if isinstance(t, ast.Attribute) and isinstance(t.value, ast.Name) and t.value.id == "self":
                        r = shallow_of_root(fi, n.value)
                        if r is not None:
                            shallow_fields[(fi.cls.qualname, t.attr)] = r
    res.count("shallow-copy-fields", len(shallow_fields))

    def shallow_base(fi: FuncInfo, e: ast.AST):
        """e (the container being written) lies at least one field below a shallow copy of a rooted object -> root"""
        depth = 0
        cur = e
        while isinstance(cur, (ast.Attribute, ast.Subscript)):
            # is `cur` itself the shallow copy?
            if isinstance(cur, ast.Attribute) and isinstance(cur.value, ast.Name) and cur.value.id == "self" \
                    and fi.cls is not None:
                for ci_ in [fi.cls] + [b for b in prog.mro(fi.cls)] if hasattr(prog, "mro") else [fi.cls]:
                    r = shallow_fields.get((ci_.qualname, cur.attr))
                    if r is not None:
                        return r if depth >= 1 else None
            cur = cur.value
            depth += 1
        if isinstance(cur, ast.Name) and depth >= 1:
            for val in actx.name_values(fi, cur):
                r = shallow_of_root(fi, val) if val is not None else None
                if r is not None:
                    return r
        return None

    # parameter-write summaries for all package functions
    pw = _param_writes(prog, resolver)

    def report(rule, fi, node, what, root):
        key = construct_key(prog, node, fi.module)
        res.add(Finding(P, rule, key, f"{fi.module.relpath}:{node.lineno}",
                        f"{what}: writes into the caller's {root[0]} object through `{root[1]}` in {fi.qualname}"))

    n_sites = 0
    for fi in funcs:
        for n in own_nodes(fi):
            # R1 stores
            tgt, kind = None, None
            if isinstance(n, (ast.Attribute, ast.Subscript)) and isinstance(n.ctx, (ast.Store, ast.Del)):
                tgt, kind = n, "store"
            elif isinstance(n, ast.Call) and isinstance(n.func, ast.Name) and n.func.id == "setattr" and len(n.args) >= 2:
                r = actx.rooted(fi, n.args[0])
                n_sites += 1
                res.ob(r is None, None, construct_key(prog, n, fi.module))
                if r is not None:
                    report("C09.R1-store", fi, n, "setattr", r)
                continue
            if tgt is not None:
                n_sites += 1
                r = actx.rooted(fi, tgt.value)
                if r is None:
                    r = shallow_base(fi, tgt.value)
                    if r is not None:
                        r = (r[0], r[1] + " (shared by a shallow copy)")
                ok = r is None
                res.ob(ok, f"{fi.module.relpath}:{n.lineno} {norm(parent(n) if isinstance(parent(n), ast.stmt) else n, 90)}"
                       if (not ok or n_sites % 40 == 0) else None, construct_key(prog, n, fi.module))
                if not ok:
                    report("C09.R1-store", fi, n, "attribute/subscript store", r)
                continue
            # augmented assignment on a local alias of a mutable field
            if isinstance(n, ast.AugAssign) and isinstance(n.target, ast.Name):
                for val in actx.name_values(fi, n.target):
                    r = actx.rooted(fi, val) if val is not None else None
                    if r is not None and isinstance(val, (ast.Attribute, ast.Subscript)):
                        attr = val.attr if isinstance(val, ast.Attribute) else None
                        if attr is None or _field_mutable(prog, attr):
                            report("C09.R1-store", fi, n, "in-place augmented assignment on an alias", r)
                continue
            if isinstance(n, ast.Call):
                # R2 mutating method
                if isinstance(n.func, ast.Attribute) and n.func.attr in MUTATORS:
                    r = actx.rooted(fi, n.func.value)
                    if r is None:
                        r = shallow_base(fi, n.func.value)
                        if r is not None:
                            r = (r[0], r[1] + " (shared by a shallow copy)")
                    n_sites += 1
                    res.ob(r is None, None, construct_key(prog, n, fi.module))
                    if r is not None:
                        report("C09.R2-mutating-call", fi, n, f"mutating call .{n.func.attr}()", r)
                # R3 passing to a writer
                targets = [t for t in resolver.callee(fi, n) if isinstance(t, FuncInfo)]
                for t in targets:
                    written = pw.get(t, set())
                    if not written:
                        continue
                    params = t.params
                    off = 1 if (t.is_method and not t.is_static and params and params[0] in ("self", "cls")) else 0
                    for i, a in enumerate(n.args):
                        pname = params[i + off] if i + off < len(params) else None
                        if pname in written:
                            r = actx.rooted(fi, a)
                            if r is not None:
                                report("C09.R3-passed-to-writer", fi, n,
                                       f"passed to {t.qualname} which writes its parameter `{pname}`", r)
                    for kw in n.keywords:
                        if kw.arg in written:
                            r = actx.rooted(fi, kw.value)
                            if r is not None:
                                report("C09.R3-passed-to-writer", fi, n,
                                       f"passed to {t.qualname} which writes its parameter `{kw.arg}`", r)
    res.count("write-sites-examined", n_sites)
    res.floor("write-sites-examined", 100)

    # R5: what an optimizer changes in place after getting it from a task method must be a fresh object.  The alias analysis
    # above *assumes* a call result is fresh; for the task's own methods the assumption is checked here.
    mutated_results = {}
    for fi in funcs:
        got = {}     # local name -> (method name, call)
        for n in own_nodes(fi):
            if isinstance(n, ast.Assign) and isinstance(n.value, ast.Call) and isinstance(n.value.func, ast.Attribute) \
                    and dotted(n.value.func.value) in ("self._task", "task"):
                for t in n.targets:
                    for x in ([t] if isinstance(t, ast.Name) else list(t.elts) if isinstance(t, (ast.Tuple, ast.List)) else []):
                        if isinstance(x, ast.Name):
                            got[x.id] = (n.value.func.attr, n.value)
        if not got:
            continue
        scopes = [fi] + list(fi.nested.values())
        for sc in scopes:
            for n in own_nodes(sc):
                nm = None
                if isinstance(n, ast.AugAssign) and isinstance(n.target, ast.Name):
                    nm = n.target.id
                elif isinstance(n, ast.AugAssign) and isinstance(n.target, ast.Subscript) and isinstance(n.target.value, ast.Name):
                    nm = n.target.value.id
                elif isinstance(n, ast.Subscript) and isinstance(n.ctx, (ast.Store, ast.Del)) and isinstance(n.value, ast.Name):
                    nm = n.value.id
                elif isinstance(n, ast.Call) and isinstance(n.func, ast.Attribute) and n.func.attr in MUTATORS \
                        and isinstance(n.func.value, ast.Name):
                    nm = n.func.value.id
                if nm in got and (sc is fi or nm not in resolver.locals_of(sc)):
                    mutated_results.setdefault(got[nm][0], []).append((fi, n))
    res.count("task-method-results-mutated-in-place", sum(len(v) for v in mutated_results.values()))
    task_ci = prog.cls(prog.TASK)
    for mname, sites in sorted(mutated_results.items()):
        m = prog.lookup_method(task_ci, mname)
        if m is None:
            continue
        verdict, why = _returns_fresh(prog, m)
        fi0, n0 = sites[0]
        key = f"models.Task.{mname}::fresh-result"
        if verdict == "shared":
            res.ob(False)
            res.add(Finding(P, "C09.R5-mutated-result-is-fresh", key, m.loc(),
                            f"Task.{mname} hands out an object it keeps ({why}) and {fi0.qualname} changes that result in place "
                            f"(`{norm(n0, 50)}` at {fi0.module.relpath}:{n0.lineno}): the run rewrites the caller's task"))
        elif verdict == "unknown":
            res.errors.append(f"{m.loc()} Task.{mname}: cannot decide whether the returned object is fresh ({why}); "
                              f"{fi0.qualname} changes it in place (undecided)")
        else:
            res.ob(True, f"{m.loc()} Task.{mname} returns a fresh object ({len(sites)} in-place uses of its result in optimizers)", key)

    # R4: self-writing methods of the caller-owned model classes on the run path
    owned = []
    for ci in prog.classes.values():
        if (prog.is_subclass(ci, prog.TASK) or prog.is_subclass(ci, prog.VARIABLE) or
                prog.is_subclass(ci, prog.BASECONFIG) or ci.qualname in (f"{PKG}.models.LabelEncoder",
                                                                         f"{PKG}.models.EarlyStopping")):
            owned.append(ci)
    writers = {}
    for ci in owned:
        for name, m in ci.methods.items():
            if name == "__init__" or any(d.endswith("validator") for d in m.decorators):
                continue
            for n in own_nodes(m):
                hit = None
                if isinstance(n, (ast.Attribute, ast.Subscript)) and isinstance(n.ctx, (ast.Store, ast.Del)):
                    base = n
                    while isinstance(base, (ast.Attribute, ast.Subscript)):
                        base = base.value
                    if isinstance(base, ast.Name) and base.id == "self":
                        hit = n
                elif isinstance(n, ast.Call) and isinstance(n.func, ast.Attribute) and n.func.attr in MUTATORS:
                    base = n.func.value
                    while isinstance(base, (ast.Attribute, ast.Subscript)):
                        base = base.value
                    if isinstance(base, ast.Name) and base.id == "self":
                        hit = n
                if hit is not None:
                    writers.setdefault(m, hit)
    res.count("self-writing-model-methods", len(writers))
    n_ctx = 0
    for ctx in prog.exported_optimizers():
        n_ctx += 1
        seen = reachable(prog, ctx, run_roots(prog, ctx))
        for m, hit in writers.items():
            ok = m not in seen
            res.ob(ok, None, f"{ctx.name}:{m.qualname}")
            if not ok:
                res.add(Finding(P, "C09.R4-model-method-writes-self", construct_key(prog, hit, m.module),
                                f"{m.module.relpath}:{hit.lineno}",
                                f"{m.qualname} stores into its own object and is reachable from {ctx.name}.optimize()",
                                call_path(seen, m)))
    res.count("optimizer-contexts", n_ctx)
    res.floor("optimizer-contexts", 84)


def _returns_fresh(prog: Program, m: FuncInfo, depth: int = 3) -> tuple:
    """('fresh' | 'shared' | 'unknown', why) for the objects a method returns"""
    from ..flow import returns_of, store_sites

    def expr(e, d) -> tuple:
        if d <= 0:
            return "unknown", "too deep"
        if isinstance(e, (ast.Tuple, ast.List)):
            worst = "fresh"
            for x in e.elts:
                v, w = expr(x, d)
                if v == "shared":
                    return v, w
                if v == "unknown":
                    worst, why_ = v, w
            return (worst, "" if worst == "fresh" else why_)
        if isinstance(e, (ast.ListComp, ast.BinOp, ast.Constant, ast.DictComp, ast.SetComp, ast.Dict, ast.UnaryOp, ast.Compare)):
            return "fresh", ""
        if isinstance(e, ast.IfExp):
            a, b = expr(e.body, d), expr(e.orelse, d)
            for v in (a, b):
                if v[0] == "shared":
                    return v
            return a if a[0] != "fresh" else b
        if isinstance(e, ast.Attribute):
            base = e
            while isinstance(base, (ast.Attribute, ast.Subscript)):
                base = base.value
            if isinstance(base, ast.Name) and base.id == "self":
                return "shared", f"it returns `{norm(e, 40)}`, state of the task"
            return "unknown", f"`{norm(e, 40)}`"
        if isinstance(e, ast.Subscript):
            return expr(e.value, d)
        if isinstance(e, ast.Call):
            dn = dotted(e.func) or ""
            if dn.startswith(("np.", "numpy.")) or dn in ("list", "tuple", "dict", "set", "sorted", "zip", "range", "float", "int",
                                                          "copy.deepcopy", "deepcopy"):
                return "fresh", ""
            if isinstance(e.func, ast.Attribute) and e.func.attr in ("copy", "tolist", "model_copy", "astype"):
                return "fresh", ""
            if isinstance(e.func, ast.Attribute) and isinstance(e.func.value, ast.Name) and e.func.value.id == "self" and m.cls is not None:
                callee = prog.lookup_method(m.cls, e.func.attr)
                if callee is not None and callee is not m:
                    return _returns_fresh(prog, callee, d - 1)
            return "unknown", f"`{norm(e, 40)}`"
        if isinstance(e, ast.Name):
            sites = store_sites(m.node, e.id)
            if not sites:
                return "unknown", f"`{e.id}`"
            worst = ("fresh", "")
            for (_st, v, k) in sites:
                if k == "assign" and v is not None:
                    r = expr(v, d - 1)
                elif k in ("aug", "for"):
                    continue
                else:
                    r = ("unknown", f"`{e.id}` bound by {k}")
                if r[0] == "shared":
                    return r
                if r[0] == "unknown":
                    worst = r
            return worst
        return "unknown", f"`{norm(e, 40)}`"

    worst = ("fresh", "")
    for r in returns_of(m.node):
        if r.value is None:
            continue
        v = expr(r.value, depth)
        if v[0] == "shared":
            return v
        if v[0] == "unknown":
            worst = v
    return worst


def _scopes(fi: FuncInfo):
    cur = fi
    while cur is not None:
        yield cur
        cur = cur.outer


def _param_writes(prog: Program, resolver: Resolver) -> dict:
    """FuncInfo -> set of parameter names the function may write through (transitively)."""
    pw: dict = {f: set() for f in prog.all_functions()}

    def param_root(fi: FuncInfo, e: ast.AST):
        cur = e
        while isinstance(cur, (ast.Attribute, ast.Subscript, ast.Starred)):
            cur = cur.value
        if isinstance(cur, ast.Name) and cur.id in fi.params and cur.id not in ("self", "cls"):
            # not rebound locally before? be conservative: any param name counts
            return cur.id
        return None

    for fi in prog.all_functions():
        for n in own_nodes(fi):
            if isinstance(n, (ast.Attribute, ast.Subscript)) and isinstance(n.ctx, (ast.Store, ast.Del)):
                p = param_root(fi, n.value)
                if p:
                    pw[fi].add(p)
            elif isinstance(n, ast.Call) and isinstance(n.func, ast.Attribute) and n.func.attr in MUTATORS:
                p = param_root(fi, n.func.value)
                if p:
                    pw[fi].add(p)
            elif isinstance(n, ast.AugAssign) and isinstance(n.target, ast.Name) and n.target.id in fi.params:
                # x += ... on a parameter mutates a list/ndarray argument in place
                ann = _param_annotation(fi, n.target.id)
                if ann is None or any(h in ann for h in _MUTABLE_HINTS):
                    pw[fi].add(n.target.id)
    changed = True
    rounds = 0
    while changed and rounds < 10:
        changed = False
        rounds += 1
        for fi in prog.all_functions():
            for n in own_nodes(fi):
                if not isinstance(n, ast.Call):
                    continue
                for t in resolver.callee(fi, n):
                    if not isinstance(t, FuncInfo) or not pw.get(t):
                        continue
                    params = t.params
                    off = 1 if (t.is_method and not t.is_static and params and params[0] in ("self", "cls")) else 0
                    for i, a in enumerate(n.args):
                        pname = params[i + off] if i + off < len(params) else None
                        if pname in pw[t]:
                            p = param_root(fi, a)
                            if p and p not in pw[fi]:
                                pw[fi].add(p)
                                changed = True
    return pw


def _param_annotation(fi: FuncInfo, name: str):
    a = fi.node.args
    for x in a.posonlyargs + a.args + a.kwonlyargs:
        if x.arg == name:
            return norm(x.annotation) if x.annotation is not None else None
    return None


# ---------------------------------------------------------------------------------------------
from ..selftest import V, run_battery  # noqa: E402

_W = "pyvolutionary/whales/whales_optimization.py"
_A = "pyvolutionary/abstract.py"
_H = "pyvolutionary/helpers.py"
_ANCHOR = "        leader_position = np.array(self._best_agent.position)\n"
VARIANTS = [
    V("get-bounds-hands-out-task-state", "pyvolutionary/models.py", "        return np.array(lb), np.array(ub)\n",
      "        if self.data is not None and \"bounds\" in self.data:\n            return self.data[\"bounds\"]\n        return np.array(lb), np.array(ub)\n", "C09.R5"),
    V("twin-get-bounds-through-locals", "pyvolutionary/models.py", "        return np.array(lb), np.array(ub)\n",
      "        lower = np.array(lb)\n        upper = np.array(ub)\n        return lower, upper\n", None),
    V("shallow-config-copy-nested-store", _W, _ANCHOR, _ANCHOR + "        run_cfg = self._config.model_copy()\n        run_cfg.early_stopping.patience = 3\n", "C09.R1"),
    V("shallow-task-copy-list-append", _W, _ANCHOR, _ANCHOR + "        t2 = self._task.model_copy()\n        t2.variables.append(None)\n", "C09.R2"),
    V("twin-deep-config-copy-nested-store", _W, _ANCHOR, _ANCHOR + "        run_cfg = self._config.model_copy(deep=True)\n        run_cfg.early_stopping.patience = 3\n", None),
    V("twin-shallow-config-copy-rebind-field", _W, _ANCHOR, _ANCHOR + "        run_cfg = self._config.model_copy()\n        run_cfg.early_stopping = None\n", None),
    V("decay-config-field", _W, _ANCHOR, _ANCHOR + "        self._config.max_cycles -= 0\n", "C09.R1"),
    V("task-data-store", _W, _ANCHOR, _ANCHOR + "        self._task.data['k'] = 1\n", "C09.R1"),
    V("alias-then-sort", _W, _ANCHOR, _ANCHOR + "        w = self._task.objective_weights\n        w.sort()\n", "C09.R2"),
    V("closure-alias-store", _W,
      "            size = self._config.population_size\n",
      "            size = self._config.population_size\n            cfg.population_size = size\n", "C09.R1",
      more=[(_W, _ANCHOR, _ANCHOR + "        cfg = self._config\n")]),
    V("task-param-store-in-optimize", _A, "        self._task = task\n", "        self._task = task\n        task.seed = None\n", "C09.R1"),
    V("helper-mutates-passed-config", _W, _ANCHOR, _ANCHOR + "        sort_and_patch(self._config)\n", "C09.R3",
      more=[(_W, "from ..abstract import OptimizationAbstract\n",
             "from ..abstract import OptimizationAbstract\n\n\ndef sort_and_patch(cfg):\n    cfg.population_size = cfg.population_size\n")]),
    V("variables-list-append", _W, _ANCHOR, _ANCHOR + "        self._task.variables.append(self._task.variables[0])\n", "C09.R2"),
    V("alias-field-store", _W, _ANCHOR, _ANCHOR + "        self._cfg2 = self._config\n        self._cfg2.max_cycles = 3\n", "C09.R1"),
    V("loop-var-part-of-task", _W, _ANCHOR, _ANCHOR + "        for v in self._task.variables:\n            v.name = 'x'\n", "C09.R1"),
    V("aug-on-list-alias", _W, _ANCHOR, _ANCHOR + "        ws = self._task.objective_weights\n        ws += [0.0]\n", "C09.R1"),
    # benign twins
    V("twin-copy-into-private-field", _W, _ANCHOR, _ANCHOR + "        self.__a = self._config.max_cycles\n        self.__a -= 1\n", None),
    V("twin-fresh-bounds-mutated", _W, _ANCHOR, _ANCHOR + "        lb, ub = self._task.get_bounds()\n        lb /= 2\n        ub[0] = 1\n", None),
    V("twin-scalar-alias-aug", _W, _ANCHOR, _ANCHOR + "        n = self._config.population_size\n        n -= 1\n", None),
    V("twin-copy-of-weights", _W, _ANCHOR, _ANCHOR + "        ws = list(self._task.objective_weights or [])\n        ws.append(1.0)\n", None),
]


def selftest(res: Result, tier: str, seed: int) -> None:
    run_battery(__name__, VARIANTS, res, tier, seed)
