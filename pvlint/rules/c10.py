"""C10 - population size is conserved: LEN classification of every population write + exact base helpers."""
from __future__ import annotations

import ast

from ..callgraph import own_nodes
from ..flow import origin
from ..guard import closed_world
from ..model import PKG, Program, construct_key, dotted, norm, parent
from ..popshape import len_class, population_writes, shaped_fields
from ..report import Finding, Result
from .c16 import check_population_helpers

EXPLANATION = (
    "Partial by design. (R1) The base helpers are exact: _generate_agents(n) builds one agent per element of range(0, n) in "
    "serial mode and one future per element in pooled mode (get_pool_results keeps every result, C11), _init_population asks "
    "for self._config.population_size, the trim helpers trim with exactly population_size, _greedy_select_population yields "
    "one result per incumbent in both modes. (R2) For every exported optimizer each write of self._population reachable from "
    "its hooks is classified in the LEN domain {SAME, N, GROW, SHRINK, UNKNOWN}: unfiltered comprehension / map / zip-unpack "
    "over the live population (zip partners must be population-shaped fields), slot stores, reorderings, the length-safe base "
    "helpers and comprehensions over range(population_size) are SAME/N. An optimizer all of whose writes are SAME/N and whose "
    "_init_population is the base one is conserved by construction. The committed reference table (71 classes confirmed by "
    "reading) is re-derived on every run: a reference-listed optimizer acquiring a GROW/SHRINK write is a violation, one "
    "falling to UNKNOWN through an unrecognised rewrite is an analysis error (exit 2)."
)
ASSUMPTIONS = ["optimizers whose size follows from arithmetic over runtime values (regrouping, n_cut, keep, residuals) are not decided",
               "population_size >= 1", "closed-world guard R0"]
TRUSTED = ["python ast", "list comprehension / zip / slicing length semantics"]
ABSTRACT = f"{PKG}.abstract.OptimizationAbstract"
HOOKS = ("before_initialization", "_init_population", "after_initialization", "optimization_step")

UNDECIDED = {
    "BacterialForagingOptimization": "reproduction/elimination with explicit pop/append balancing",
    "BeeColonyOptimization": "variable by design: half of population_size employed bees",
    "BrainStormOptimization": "clusters of int(N/m) members + residual",
    "ImprovedBrainStormOptimization": "clusters of int(N/m) members + residual",
    "HenryGasSolubilityOptimization": "groups of int(N/n_clusters) members + residual",
    "CoyotesOptimization": "packs x coyotes per pack",
    "ElephantHerdOptimization": "clans of int(N/n_clans) members",
    "FireHawkOptimization": "_replace_and_trim_population of a computed list",
    "ForestOptimizationAlgorithm": "variable by design: seeding, ageing and area limit",
    "GeneticAlgorithmOptimization": "children come in pairs; own _init_population",
    "ImperialistCompetitiveOptimization": "variable by design: empires collapse",
    "MonarchButterflyOptimization": "N - keep trimmed + keep elites",
    "WaterCycleOptimization": "sea/rivers + regrouped streams",
}
CONSERVED = set("""AfricanVulture AntColony AntLion Aquila Archimede Bat BattleRoyale BiogeographyBased BrownBear CamelCaravan CatSwarm
ChaosGame ChernobylDisaster Coati CoralReef CoronavirusHerdImmunity CuckooSearch Dragonfly DwarfMongoose Earthworms EgretSwarm ElectromagneticField EnergyValley
FicksLaw FireflySwarm Fireworks FishSchoolSearch FlowerPollinationAlgorithm ForensicBasedInvestigation Fox GainingSharingKnowledge
GerminalCenter GiantTrevally GizaPyramidConstruction GoldenJackal Grasshopper GreyWolf HarmonySearch HeapBased HungerGamesSearch
InvasiveWeed KrillHerd LeviFlightJayaSwarm MarinePredators MothFlame MountainGazelle Multiverse NuclearReaction Osprey ParticleSwarm
PathfinderAlgorithm Pelican RungeKutta SalpSwarm Seagull Serval SiberianTiger QleSineCosineAlgorithm SineCosineAlgorithm SpottedHyena
SuccessHistoryIntelligent SwarmHillClimbing TasmanianDevil TunaSwarm VirusColonySearch Walrus WarStrategy Whales WildebeestHerd WindDriven
Zebra""".split())
N_CONSERVED = 71


def run(prog: Program, res: Result) -> None:
    P = "C10"
    res.rules = ["R1 base helpers are length-exact", "R2 reference-listed optimizers are conserved by construction (LEN classification)",
                 "R3 no unguarded `population[-k:]` with k a remainder (k == 0 gives the whole list)"]
    res.undecided = [f"{k}: {v}" for k, v in sorted(UNDECIDED.items())]
    closed_world(prog, res)
    M = prog.modules[f"{PKG}.abstract"]

    def bad(rule, node, msg, key=None, mod=M):
        res.ob(False)
        res.add(Finding(P, f"C10.{rule}", key or construct_key(prog, node, mod), f"{mod.relpath}:{getattr(node, 'lineno', 0)}", msg))

    # ------------------------------------------------------------------ R1
    n_comp, issues = check_generate_agents(prog)
    res.count("generate_agents-comprehensions", n_comp)
    res.floor("generate_agents-comprehensions", 2)
    for (node, msg) in issues:
        bad("R1-generate-agents-exact", node, msg)
    res.ob(not issues, f"{M.relpath}: _generate_agents yields one agent per element of range(0, n_agents) in serial and pooled mode", "generate_agents")
    ip = prog.func(f"{ABSTRACT}._init_population")
    calls = [n for n in own_nodes(ip) if isinstance(n, ast.Call) and dotted(n.func) == "self._generate_agents"]
    def _n_arg(c):
        a = c.args[0] if c.args else next((k.value for k in c.keywords if k.arg == "n_agents"), None)
        return origin(ip.node, a) if isinstance(a, ast.Name) else a
    ok = len(calls) == 1 and dotted(_n_arg(calls[0])) == "self._config.population_size"
    if ok:
        st = parent(calls[0])
        tgt = st.targets[0] if isinstance(st, ast.Assign) else None
        if isinstance(tgt, ast.Name):
            uses = [n for n in own_nodes(ip) if isinstance(n, ast.Assign) and dotted(n.targets[0]) == "self._population"
                    and isinstance(n.value, ast.Name) and n.value.id == tgt.id]
            ok = len(uses) == 1
        else:
            ok = tgt is not None and dotted(tgt) == "self._population"
    res.ob(ok, f"{ip.loc()} _init_population: self._population = self._generate_agents(self._config.population_size)", "init_population")
    if not ok:
        bad("R1-init-population-size", ip.node, "_init_population does not create exactly self._config.population_size agents",
            key="abstract.OptimizationAbstract._init_population::size")
    for (rule, node, msg) in check_population_helpers(prog, size_only=True):
        if rule == "UNDECIDED":
            res.errors.append(msg + " (undecided)")
            continue
        if "sorted" in rule:
            continue      # ordering before pairing is C16's concern; the count is one result per incumbent either way
        bad("R1-" + rule.split("-", 1)[1], node, msg)
    # get_pool_results (shared obligation with C11)
    from .c11 import check_get_pool_results
    gp = prog.func(f"{PKG}.helpers.get_pool_results")
    okg, whyg = check_get_pool_results(prog)
    if okg is None:
        res.errors.append(f"{gp.loc()} get_pool_results: {whyg} (undecided)")
    else:
        res.ob(okg, f"{gp.loc()} get_pool_results: one result per future, unfiltered", "get_pool_results")
    if okg is False:
        res.add(Finding(P, "C10.R1-pool-hand-off", "helpers.get_pool_results::loop", gp.loc(),
                        f"get_pool_results: {whyg}: pooled generations lose or duplicate agents"))
    # sort_and_trim keeps FIRST(k)
    from ..ord import L, OrdDeviation, OrdUnknown, evaluate
    from ..sgn import MIN
    try:
        got, _ = evaluate(prog, "sort_and_trim", MIN, ok=lambda g: isinstance(g, L) and g.window == ("FIRST", "population_size"))
        okt = isinstance(got, L) and got.window == ("FIRST", "population_size")
        res.ob(okt, f"sort_and_trim = {got.show() if isinstance(got, L) else got}", "sort_and_trim")
        if not okt:
            res.add(Finding(P, "C10.R1-trim-exact", "helpers.sort_and_trim::window", prog.func(f"{PKG}.helpers.sort_and_trim").loc(),
                            f"sort_and_trim returns {got.show() if isinstance(got, L) else got}, not the first population_size agents"))
    except OrdDeviation as exc:
        res.note(f"sort_and_trim: {exc} (ranking deviation: C16/C17; the size of the result is not affected)")
    except OrdUnknown as exc:
        res.errors.append(f"ORD cannot evaluate sort_and_trim: {exc}")

    # ------------------------------------------------------------------ R2
    opts = prog.exported_optimizers()
    res.count("exported-optimizers", len(opts))
    res.floor("exported-optimizers", 84)
    conserved = 0
    n_writes = 0
    for ci in opts:
        ws = population_writes(prog, ci, HOOKS)
        shaped = shaped_fields(prog, ci)
        n_writes += len(ws)
        init_over = prog.lookup_method(ci, "_init_population").cls.qualname != ABSTRACT
        listed_undecided = ci.name in UNDECIDED
        sn = ci.name[:-len("Optimization")] if ci.name.endswith("Optimization") else ci.name
        if not listed_undecided and sn not in CONSERVED:
            # a class the reference tables do not know (added later): classify, report as information only
            cls = [len_class(prog, ci, w, shaped)[0] for w in ws]
            res.note(f"{ci.name} is in no reference table: writes classified {sorted(set(cls))} (informational)")
            continue
        problems = []
        for w in ws:
            c, why = len_class(prog, ci, w, shaped)
            if c in ("SAME", "N"):
                if not listed_undecided:
                    res.ob(True, f"{w.loc()} {ci.name}: {c} - {w.text(70)}" if len(res.samples) < 30 else None,
                           construct_key(prog, w.stmt, w.fi.module))
                continue
            problems.append((w, c, why))
        if listed_undecided:
            res.note(f"{ci.name}: undecided ({UNDECIDED[ci.name]}); {len(problems)} non-SAME writes")
            continue
        if init_over:
            m = prog.lookup_method(ci, "_init_population")
            bad("R2-conserved-by-construction", m.node,
                f"{ci.name} overrides _init_population: its initial generation is no longer the base's population_size agents",
                key=f"{ci.qualname[len(PKG) + 1:]}._init_population::override", mod=m.module)
            continue
        if not problems:
            conserved += 1
            continue
        for (w, c, why) in problems:
            key = construct_key(prog, w.stmt, w.fi.module)
            if c in ("GROW", "SHRINK", "MISCOUNT"):
                res.ob(False, None, key)
                res.add(Finding(P, "C10.R2-conserved-by-construction", key, w.loc(),
                                f"{ci.name} is conserved by construction in the reference table, but `{w.text(80)}` can "
                                f"{'add agents to' if c == 'GROW' else 'remove agents from' if c == 'SHRINK' else 'change the size of'} the population ({why}): a recorded generation "
                                f"would not have exactly population_size agents"))
            else:
                res.errors.append(f"{ci.name}: population write `{w.text(70)}` at {w.loc()} has a shape the LEN domain does not cover "
                                  f"({why}); the optimizer was conserved by construction in the reference table")
    # ------------------------------------------------------------------ R3 `pop[-k:]` with a remainder k that can be 0
    # `x[-k:]` is the *whole* list for k == 0, not the empty one.  A bound computed as a remainder (`a % b`) is 0 for every
    # population size that divides evenly; unless the slice is guarded by a test of k, the population grows by a full copy.
    n_neg = 0
    for fi in prog.all_functions():
        if fi.cls is None or not prog.is_subclass(fi.cls, ABSTRACT):
            continue
        for n in own_nodes(fi):
            if not (isinstance(n, ast.Subscript) and isinstance(n.slice, ast.Slice) and n.slice.upper is None and n.slice.step is None
                    and isinstance(n.slice.lower, ast.UnaryOp) and isinstance(n.slice.lower.op, ast.USub)):
                continue
            if dotted(n.value) != "self._population" and not (isinstance(n.value, ast.Name) and dotted(origin(fi.node, n.value)) == "self._population"):
                continue
            n_neg += 1
            k = n.slice.lower.operand
            ksrc = origin(fi.node, k) if isinstance(k, ast.Name) else k
            if not (isinstance(ksrc, ast.BinOp) and isinstance(ksrc.op, ast.Mod)):
                continue
            ktxt = norm(k)
            from ..sem import path_conditions
            guarded = False
            for (t, pol) in path_conditions(fi.node, n):
                tt = norm(t)
                if ktxt in tt and pol and (tt == ktxt or any(op in tt for op in ("!= 0", "> 0", ">= 1"))):
                    guarded = True
                if ktxt in tt and not pol and any(op in tt for op in ("== 0", "< 1", "<= 0")) or (not pol and tt == f"not {ktxt}"):
                    guarded = True
            key = construct_key(prog, n, fi.module)
            res.ob(guarded, f"{fi.module.relpath}:{n.lineno} `{norm(n, 50)}` guarded by a test of `{ktxt}`" if guarded else None, key)
            if not guarded:
                bad("R3-remainder-slice-can-be-whole", n,
                    f"`{norm(n, 60)}` in {fi.qualname}: `{ktxt}` is the remainder `{norm(ksrc, 40)}`, which is 0 whenever the sizes "
                    f"divide evenly, and `x[-0:]` is the whole population - the generation then gains a full copy of itself",
                    mod=fi.module)
    res.count("negative-tail-slices-of-population", n_neg)
    res.count("population-write-sites", n_writes)
    res.count("conserved-by-construction", conserved)
    res.floor("population-write-sites", 100)
    present = [ci.name for ci in opts if (ci.name[:-len("Optimization")] if ci.name.endswith("Optimization") else ci.name) in CONSERVED]
    if len(present) < N_CONSERVED:
        res.errors.append(f"only {len(present)} of the {N_CONSERVED} reference-listed conserved optimizers are exported")


def check_generate_agents(prog: Program) -> tuple:
    """Both branches of _generate_agents(n) produce exactly one item per element of range(0, n) (the pooled branch may
    go through a list that is itself built that way).  -> (number of comprehensions, [(node, message)])"""
    ga = prog.func(f"{ABSTRACT}._generate_agents")
    M = ga.module
    n_param = ga.params[1]
    issues = []

    def over_n(src):
        return isinstance(src, ast.Call) and isinstance(src.func, ast.Name) and src.func.id == "range" and (
            (len(src.args) == 2 and isinstance(src.args[0], ast.Constant) and src.args[0].value == 0 and dotted(src.args[1]) == n_param)
            or (len(src.args) == 1 and dotted(src.args[0]) == n_param))
    comps = [n for n in own_nodes(ga) if isinstance(n, ast.ListComp)]
    for c in comps:
        g = c.generators[0]
        src = origin(ga.node, g.iter) if isinstance(g.iter, ast.Name) else g.iter
        ok = over_n(src)
        if not ok and isinstance(src, ast.ListComp) and len(src.generators) == 1 and not src.generators[0].ifs:
            ok = over_n(src.generators[0].iter)
        ok = ok and len(c.generators) == 1 and not g.ifs
        if not ok:
            issues.append((c, f"`{norm(c, 90)}` in _generate_agents does not produce exactly one item per element of range(0, {n_param}): "
                              f"serial and pooled modes would create different numbers of agents"))
    for r in [n for n in own_nodes(ga) if isinstance(n, ast.Return)]:
        v = origin(ga.node, r.value)
        if not (isinstance(v, ast.ListComp) or (isinstance(v, ast.Call) and dotted(v.func) == "get_pool_results")):
            issues.append((r, f"_generate_agents returns `{norm(r.value, 60)}`, not the complete list of created agents"))
    return len(comps), issues


# ---------------------------------------------------------------------------------------------
from ..selftest import V, run_battery  # noqa: E402

_A = "pyvolutionary/abstract.py"
_H = "pyvolutionary/helpers.py"
_W = "pyvolutionary/whales/whales_optimization.py"
_G = "pyvolutionary/grey_wolf/grey_wolf_optimization.py"
_CO = "pyvolutionary/coati/coati_optimization.py"
VARIANTS = [
    V("residual-group-guard-dropped", _A, "        if residual != 0:\n            groups.append([agent.model_copy() for agent in self._population[-residual:]])",
      "        groups.append([agent.model_copy() for agent in self._population[-residual:]])", "C10.R3"),
    V("twin-residual-guard-truthiness", _A, "        if residual != 0:\n            groups.append([agent.model_copy() for agent in self._population[-residual:]])",
      "        if residual:\n            groups.append([agent.model_copy() for agent in self._population[-residual:]])", None),
    V("filter-in-population-comprehension", _W, "        self._population = [evolve(whale) for whale in self._population]",
      "        self._population = [evolve(whale) for whale in self._population if whale.cost < 1e300]", "C10.R2"),
    V("trim-one-short", _A, "        self._population = sort_and_trim(self._population, self._config.population_size)",
      "        self._population = sort_and_trim(self._population, self._config.population_size - 1)", "C10.R1"),
    V("conditional-append-in-gather", _H, "    for i in parallel.as_completed(executors):\n        res.append(i.result())\n",
      "    for i in parallel.as_completed(executors):\n        if i.result() is not None:\n            res.append(i.result())\n", "C10.R1"),
    V("init-population-plus-one", _A, "        self._population = self._generate_agents(self._config.population_size)",
      "        self._population = self._generate_agents(self._config.population_size + 1)", "C10.R1"),
    V("generate-agents-range-from-one", _A, "            return [self._init_agent() for _ in range(0, n_agents)]",
      "            return [self._init_agent() for _ in range(1, n_agents)]", "C10.R1"),
    V("append-elite-every-cycle", _W, "        self._population = [evolve(whale) for whale in self._population]",
      "        self._population = [evolve(whale) for whale in self._population]\n        self._population.append(self._best_agent)", "C10.R2"),
    V("slice-drops-worst", _W, "        self._population = [evolve(whale) for whale in self._population]",
      "        self._population = [evolve(whale) for whale in self._population]\n        self._population = self._population[:-1]", "C10.R2"),
    V("sort-and-trim-tail-bound", _H, "    return sort_by_cost(population)[:population_size]", "    return sort_by_cost(population)[1:population_size]", "C10.R1"),
    V("pooled-positions-short", _A, "        positions = [self._task.empty_solution() for _ in range(0, n_agents)]",
      "        positions = [self._task.empty_solution() for _ in range(0, n_agents - 1)]", "C10.R1"),
    V("twin-map-over-population", _W, "        self._population = [evolve(whale) for whale in self._population]",
      "        self._population = list(map(evolve, self._population))", None),
    V("twin-range-population-size", _W, "        self._population = [evolve(whale) for whale in self._population]",
      "        self._population = [evolve(self._population[i]) for i in range(0, self._config.population_size)]", None),
]


def selftest(res: Result, tier: str, seed: int) -> None:
    run_battery(__name__, VARIANTS, res, tier, seed)
