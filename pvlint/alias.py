"""Local alias tracking: which object does an expression denote a *part* of?

``rooted(res, fi, e, roots)`` strips Attribute / Subscript layers (a Call breaks the chain: its
result is a new value unless the callee is a known view) and follows plain local names through
their reaching definitions, including closure variables of enclosing functions (flow-insensitively
for those).  It returns (root_label, chain_text) when the innermost value is one of ``roots``.
"""
from __future__ import annotations

import ast
from typing import Callable, Optional

from .callgraph import Resolver
from .flow import reaching_def, store_sites
from .model import FuncInfo, dotted, norm

LIST_MUTATORS = {"append", "extend", "insert", "pop", "remove", "clear", "sort", "reverse", "__setitem__",
                 "__delitem__", "__iadd__", "__imul__"}
DICT_MUTATORS = {"update", "setdefault", "popitem", "pop", "clear", "__setitem__", "__delitem__"}
SET_MUTATORS = {"add", "discard", "difference_update", "intersection_update", "symmetric_difference_update"}
NDARRAY_MUTATORS = {"fill", "itemset", "put", "resize", "partition", "sort", "setfield", "setflags", "byteswap"}
MUTATORS = LIST_MUTATORS | DICT_MUTATORS | SET_MUTATORS | NDARRAY_MUTATORS

# calls whose result may share storage with their (first) argument / receiver
VIEW_FUNCS = {"numpy.asarray", "numpy.asanyarray", "numpy.ravel", "numpy.reshape", "numpy.squeeze", "numpy.transpose",
              "numpy.atleast_1d", "numpy.atleast_2d"}
VIEW_METHODS = {"reshape", "ravel", "view", "squeeze", "transpose", "T", "swapaxes"}


def strip(e: ast.AST):
    """Yield successively inner values of an Attribute/Subscript/Starred chain, outermost first."""
    cur = e
    while True:
        yield cur
        if isinstance(cur, (ast.Attribute, ast.Subscript, ast.Starred)):
            cur = cur.value
        else:
            return


class AliasCtx:
    def __init__(self, resolver: Resolver, is_root: Callable[[FuncInfo, ast.AST], Optional[str]]):
        """is_root(fi, expr) -> label when expr itself denotes a tracked object (e.g. ``self._config``)."""
        self.res = resolver
        self.is_root = is_root

    def rooted(self, fi: FuncInfo, e: ast.AST, depth: int = 8) -> Optional[tuple]:
        """(label, text) if e denotes the root object or a part of it reachable without a copy."""
        if depth <= 0:
            return None
        for cur in strip(e):
            lab = self.is_root(fi, cur)
            if lab is not None:
                return lab, (dotted(e) or norm(e, 80))
            if isinstance(cur, ast.Name):
                for val in self.name_values(fi, cur):
                    r = self.rooted(fi, val, depth - 1) if val is not None else None
                    if r is not None:
                        return r[0], f"{norm(e, 60)} (alias of {r[1]})"
                return None
            if isinstance(cur, ast.Call):
                # views keep the alias
                if isinstance(cur.func, ast.Attribute) and cur.func.attr in VIEW_METHODS:
                    return self.rooted(fi, cur.func.value, depth - 1)
                ext = self.res.ext_name(fi, cur.func)
                if ext in VIEW_FUNCS and cur.args:
                    return self.rooted(fi, cur.args[0], depth - 1)
                return None
            if isinstance(cur, ast.IfExp):
                return self.rooted(fi, cur.body, depth - 1) or self.rooted(fi, cur.orelse, depth - 1)
            if isinstance(cur, (ast.Tuple, ast.List)):
                # an element of a literal collection of parts (``for x in (a.p, a.q): x.sort()``)
                for el in cur.elts:
                    r = self.rooted(fi, el, depth - 1)
                    if r is not None:
                        return r
                return None
            if isinstance(cur, ast.BinOp) and isinstance(cur.op, ast.Add):
                # list concatenation keeps the element objects
                return None
            if isinstance(cur, ast.NamedExpr):
                return self.rooted(fi, cur.value, depth - 1)
        return None

    def name_values(self, fi: FuncInfo, name: ast.Name) -> list:
        """Possible defining expressions of a local / closure name (None entries = opaque)."""
        scope = fi
        while scope is not None:
            if name.id in self.res.locals_of(scope):
                break
            scope = scope.outer
        if scope is None:
            return []
        if scope is fi:
            rd = reaching_def(fi.node, name, name.id)
            if rd is not None:
                if rd[2] == "assign":
                    return [rd[1]]
                if rd[2] == "param":
                    return []
                if rd[2] == "for":
                    return [self._for_elem(rd[1])]
                if rd[2] == "unpack":
                    return [self._unpack_value(rd[1], name.id)]
                return []
        # closure variable or ambiguous local: all assignments, flow-insensitively
        vals = []
        for (st, val, kind) in store_sites(scope.node, name.id):
            if kind == "assign":
                vals.append(val)
            elif kind == "for":
                vals.append(self._for_elem(val))
            elif kind == "unpack":
                vals.append(self._unpack_value(val, name.id))
        return [v for v in vals if v is not None]

    @staticmethod
    def _for_elem(st) -> Optional[ast.AST]:
        """``for x in C`` -> a pseudo expression ``C[*]`` so that x is a part of C."""
        if not isinstance(st, (ast.For, ast.AsyncFor)):
            return None
        it = st.iter
        if isinstance(it, ast.Call) and isinstance(it.func, ast.Name) and it.func.id == "enumerate" and it.args:
            if isinstance(st.target, ast.Tuple) and len(st.target.elts) == 2:
                it = it.args[0]
            else:
                return None
        elif isinstance(it, ast.Call) and isinstance(it.func, ast.Name) and it.func.id in ("zip",):
            return None
        if not isinstance(st.target, (ast.Name, ast.Tuple)):
            return None
        return ast.Subscript(value=it, slice=ast.Constant(value=0), ctx=ast.Load())

    @staticmethod
    def _unpack_value(st, name: str) -> Optional[ast.AST]:
        """``a, b = x, y`` -> the matching element; anything else opaque."""
        if isinstance(st, ast.Assign) and len(st.targets) == 1 and isinstance(st.targets[0], (ast.Tuple, ast.List)) \
                and isinstance(st.value, (ast.Tuple, ast.List)) and len(st.value.elts) == len(st.targets[0].elts):
            for t, v in zip(st.targets[0].elts, st.value.elts):
                if isinstance(t, ast.Name) and t.id == name:
                    return v
        if isinstance(st, ast.Assign) and len(st.targets) > 1:
            for t in st.targets:
                if isinstance(t, ast.Name) and t.id == name:
                    return st.value
        return None
