"""Flow-sensitive walk of one run of optimize() for one concrete optimizer class (C08, C18).

The run is the program ``optimize()`` with every ``self.m()`` / ``super().m()`` / closure call inlined
through the class's MRO.  Abstract state: the set of ``self`` fields *definitely assigned afresh*
in this run so far.  Collected facts:

* ``exposed[field]``  first site where the field is read (or read-modify-written, or mutated in
  place) while not in the fresh set - its value comes from before this run;
* ``written[field]``  first site where the run stores into / mutates the field.

``Leak = exposed ∩ written``: state carried from one optimize() call into the next.
Branches join by intersection, loop bodies may run zero times (except ``while True``), callables
that are only *referenced* (submit/map/partial, comprehension elements, lambdas) run 0..n times:
their reads count, their assignments do not make a field fresh.
"""
from __future__ import annotations

import ast
from typing import Optional

from .alias import MUTATORS
from .callgraph import Resolver
from .model import AnalysisError, ClassInfo, FuncInfo, Program, dotted, mangle, norm, parent

RETURN = "return"


class Site:
    __slots__ = ("fi", "node", "how")

    def __init__(self, fi: FuncInfo, node: ast.AST, how: str):
        self.fi, self.node, self.how = fi, node, how

    def loc(self) -> str:
        return f"{self.fi.module.relpath}:{getattr(self.node, 'lineno', 0)}"


class RunWalker:
    def __init__(self, prog: Program, ctx: ClassInfo, helper_writers: Optional[set] = None):
        self.prog = prog
        self.ctx = ctx
        self.res = Resolver(prog, ctx)
        self.exposed: dict = {}
        self.written: dict = {}
        self.stack: list = []
        self.helper_writers = helper_writers or set()
        self.visited_funcs: set = set()
        self._memo: dict = {}
        self.unknown: list = []

    # ------------------------------------------------------------------ entry
    def run(self) -> None:
        opt = self.prog.lookup_method(self.ctx, "optimize")
        if opt is None:
            raise AnalysisError(f"{self.ctx.qualname}: optimize() not found")
        self.call_function(opt, frozenset(), definite=True)

    # ------------------------------------------------------------------ helpers
    def field_name(self, fi: FuncInfo, attr: str) -> str:
        return mangle(fi.cls.name, attr) if fi.cls is not None else attr

    def self_is_instance(self, fi: FuncInfo) -> bool:
        if fi.cls is None:
            return False
        if fi.cls not in self.prog.mro(self.ctx):
            return False
        return self.res._self_is_self(fi)

    def is_self_field(self, fi: FuncInfo, e: ast.AST) -> Optional[str]:
        """field name if e is ``self.X`` with X a data attribute (not a method / property)."""
        if isinstance(e, ast.Attribute) and isinstance(e.value, ast.Name) and e.value.id == "self" \
                and self.self_is_instance(fi):
            if self.res.lookup_self_method(fi, e.attr) is not None:
                return None
            return self.field_name(fi, e.attr)
        return None

    def root_field(self, fi: FuncInfo, e: ast.AST, depth: int = 6) -> Optional[str]:
        """field X if e denotes (a part of) the object held in self.X, following local aliases."""
        cur = e
        while depth > 0:
            f = self.is_self_field(fi, cur)
            if f is not None:
                return f
            if isinstance(cur, (ast.Attribute, ast.Subscript, ast.Starred)):
                cur = cur.value
                continue
            if isinstance(cur, ast.Name):
                vals = self._name_values(fi, cur)
                for v in vals:
                    r = self.root_field(fi, v, depth - 1)
                    if r is not None:
                        return r
                return None
            return None
        return None

    def _name_values(self, fi: FuncInfo, name: ast.Name) -> list:
        from .alias import AliasCtx
        if not hasattr(self, "_actx"):
            self._actx = AliasCtx(self.res, lambda f, e: None)
        return [v for v in self._actx.name_values(fi, name) if v is not None]

    def expose(self, field: str, fi: FuncInfo, node: ast.AST, fresh: frozenset, how: str) -> None:
        if field not in fresh and field not in self.exposed:
            self.exposed[field] = Site(fi, node, how)

    def write(self, field: str, fi: FuncInfo, node: ast.AST, how: str) -> None:
        if field not in self.written:
            self.written[field] = Site(fi, node, how)

    # ------------------------------------------------------------------ functions
    def call_function(self, callee: FuncInfo, fresh: frozenset, definite: bool) -> frozenset:
        """Inline callee; returns the fresh set after it (unchanged when not definite)."""
        if callee in self.stack or len(self.stack) > 40:
            return fresh
        key = (callee, fresh)
        if key in self._memo:
            out = self._memo[key]
            return out if definite else fresh
        self.visited_funcs.add(callee)
        self.stack.append(callee)
        try:
            rets = []
            body = callee.node.body
            if isinstance(callee.node, ast.Lambda):
                self.expr(callee.node.body, fresh, callee)
                out = fresh
            else:
                end = self.block(body, fresh, callee, rets, None)
                states = rets + ([end] if end is not None else [])
                out = frozenset.intersection(*states) if states else fresh
        finally:
            self.stack.pop()
        self._memo[key] = out
        return out if definite else fresh

    # ------------------------------------------------------------------ statements
    def block(self, stmts, fresh, fi, rets, loop) -> Optional[frozenset]:
        """Returns the fresh set at fall-through, or None when every path left the block."""
        cur = fresh
        for st in stmts:
            cur = self.stmt(st, cur, fi, rets, loop)
            if cur is None:
                return None
        return cur

    def stmt(self, st, fresh, fi, rets, loop) -> Optional[frozenset]:
        if isinstance(st, (ast.FunctionDef, ast.AsyncFunctionDef, ast.Pass, ast.Import, ast.ImportFrom, ast.Global,
                           ast.Nonlocal)):
            return fresh
        if isinstance(st, ast.Expr):
            return self.expr(st.value, fresh, fi)
        if isinstance(st, ast.Assign):
            fresh = self.expr(st.value, fresh, fi)
            for t in st.targets:
                fresh = self.store(t, fresh, fi, st)
            return fresh
        if isinstance(st, ast.AnnAssign):
            if st.value is not None:
                fresh = self.expr(st.value, fresh, fi)
                fresh = self.store(st.target, fresh, fi, st)
            return fresh
        if isinstance(st, ast.AugAssign):
            fresh = self.expr(st.value, fresh, fi)
            f = self.is_self_field(fi, st.target)
            if f is not None:
                self.expose(f, fi, st, fresh, f"read-modify-write `{norm(st, 70)}`")
                self.write(f, fi, st, "augmented assignment")
                return fresh
            if isinstance(st.target, (ast.Attribute, ast.Subscript)):
                fresh = self.expr(st.target.value, fresh, fi)
                if isinstance(st.target, ast.Subscript):
                    fresh = self.expr(st.target.slice, fresh, fi)
                r = self.root_field(fi, st.target.value)
                if r is not None:
                    self.expose(r, fi, st, fresh, f"in-place update `{norm(st, 70)}`")
                    self.write(r, fi, st, "in-place update")
            elif isinstance(st.target, ast.Name):
                r = None
                for v in self._name_values(fi, st.target):
                    if isinstance(v, (ast.Attribute, ast.Subscript)):
                        r = r or self.root_field(fi, v)
                # x = self.F; x += ...  mutates F only for mutable containers: over-approximate lists/arrays away:
                # reported through the alias only when F itself is later stored back; ignore here.
            return fresh
        if isinstance(st, ast.Delete):
            for t in st.targets:
                f = self.is_self_field(fi, t)
                if f is not None:
                    self.write(f, fi, st, "del")
                    fresh = fresh - {f}
                elif isinstance(t, (ast.Attribute, ast.Subscript)):
                    fresh = self.expr(t.value, fresh, fi)
                    r = self.root_field(fi, t.value)
                    if r is not None:
                        self.expose(r, fi, st, fresh, f"in-place delete `{norm(st, 70)}`")
                        self.write(r, fi, st, "in-place delete")
            return fresh
        if isinstance(st, ast.Return):
            if st.value is not None:
                fresh = self.expr(st.value, fresh, fi)
            rets.append(fresh)
            return None
        if isinstance(st, ast.Raise):
            if st.exc is not None:
                self.expr(st.exc, fresh, fi)
            return None
        if isinstance(st, ast.Assert):
            return self.expr(st.test, fresh, fi)
        if isinstance(st, ast.If):
            fresh = self.expr(st.test, fresh, fi)
            a = self.block(st.body, fresh, fi, rets, loop)
            b = self.block(st.orelse, fresh, fi, rets, loop) if st.orelse else fresh
            if a is None:
                return b
            if b is None:
                return a
            return a & b
        if isinstance(st, (ast.For, ast.AsyncFor)):
            fresh = self.expr(st.iter, fresh, fi)
            ctx = {"breaks": [], "kind": "for"}
            body_in = self.store(st.target, fresh, fi, st)
            self.block(st.body, body_in, fi, rets, ctx)
            out = fresh
            if st.orelse:
                o = self.block(st.orelse, fresh, fi, rets, loop)
                out = o if o is not None else fresh
            return out
        if isinstance(st, ast.While):
            always = isinstance(st.test, ast.Constant) and bool(st.test.value)
            fresh = self.expr(st.test, fresh, fi)
            ctx = {"breaks": [], "kind": "while"}
            end = self.block(st.body, fresh, fi, rets, ctx)
            if always:
                states = ctx["breaks"]
                if not states:
                    return None       # only leaves by return/raise
                return frozenset.intersection(*states)
            return fresh
        if isinstance(st, ast.Break):
            if loop is not None:
                loop["breaks"].append(fresh)
            return None
        if isinstance(st, ast.Continue):
            return None
        if isinstance(st, (ast.With, ast.AsyncWith)):
            for it in st.items:
                fresh = self.expr(it.context_expr, fresh, fi)
                if it.optional_vars is not None:
                    fresh = self.store(it.optional_vars, fresh, fi, st)
            return self.block(st.body, fresh, fi, rets, loop)
        if isinstance(st, ast.Try):
            body = self.block(st.body, fresh, fi, rets, loop)
            outs = [] if body is None else [body]
            for h in st.handlers:
                if h.type is not None:
                    self.expr(h.type, fresh, fi)
                o = self.block(h.body, fresh, fi, rets, loop)
                if o is not None:
                    outs.append(o)
            if st.orelse and body is not None:
                o = self.block(st.orelse, body, fi, rets, loop)
                outs[0:1] = [o] if o is not None else []
            out = frozenset.intersection(*outs) if outs else None
            if st.finalbody:
                f_in = out if out is not None else fresh
                o = self.block(st.finalbody, f_in, fi, rets, loop)
                if out is not None:
                    out = o
            return out
        if isinstance(st, ast.Match):  # pragma: no cover
            raise AnalysisError(f"{fi.module.relpath}:{st.lineno}: match statement not modelled")
        raise AnalysisError(f"{fi.module.relpath}:{getattr(st, 'lineno', 0)}: statement {type(st).__name__} not modelled")

    def store(self, t, fresh, fi, st) -> frozenset:
        if isinstance(t, (ast.Tuple, ast.List)):
            for e in t.elts:
                fresh = self.store(e, fresh, fi, st)
            return fresh
        if isinstance(t, ast.Starred):
            return self.store(t.value, fresh, fi, st)
        if isinstance(t, ast.Name):
            return fresh
        f = self.is_self_field(fi, t)
        if f is not None:
            self.write(f, fi, st, "assignment")
            return fresh | {f}
        if isinstance(t, (ast.Attribute, ast.Subscript)):
            fresh = self.expr(t.value, fresh, fi)
            if isinstance(t, ast.Subscript):
                fresh = self.expr(t.slice, fresh, fi)
            r = self.root_field(fi, t.value)
            if r is not None:
                self.expose(r, fi, st, fresh, f"in-place store `{norm(st, 70)}`")
                self.write(r, fi, st, "in-place store")
            return fresh
        return fresh

    # ------------------------------------------------------------------ expressions
    def expr(self, e, fresh, fi, maybe: bool = False) -> frozenset:
        """Evaluate e (reads, calls).  ``maybe`` = evaluated 0..n times: assignments inside calls do not
        make fields fresh for the caller."""
        if e is None:
            return fresh
        if isinstance(e, ast.Constant):
            return fresh
        if isinstance(e, ast.Name):
            # bare reference to a nested / module function: runs 0..n times later
            r = self.res.lookup_lexical(fi, e.id)
            if isinstance(r, FuncInfo):
                p = parent(e)
                if not (isinstance(p, ast.Call) and p.func is e):
                    self.call_function(r, fresh, definite=False)
            return fresh
        if isinstance(e, ast.Attribute):
            f = self.is_self_field(fi, e)
            if f is not None:
                self.expose(f, fi, e, fresh, f"read `{norm(e)}`")
                return fresh
            if isinstance(e.value, ast.Name) and e.value.id == "self" and self.self_is_instance(fi):
                m = self.res.lookup_self_method(fi, e.attr)
                if m is not None:
                    p = parent(e)
                    is_prop = "property" in m.decorators
                    if is_prop:
                        return self.call_function(m, fresh, definite=not maybe)
                    if not (isinstance(p, ast.Call) and p.func is e):
                        self.call_function(m, fresh, definite=False)    # bound method escapes
                    return fresh
            return self.expr(e.value, fresh, fi, maybe)
        if isinstance(e, ast.Call):
            return self.call(e, fresh, fi, maybe)
        if isinstance(e, (ast.ListComp, ast.SetComp, ast.GeneratorExp, ast.DictComp)):
            first = True
            for g in e.generators:
                if first:
                    fresh = self.expr(g.iter, fresh, fi, maybe)
                    first = False
                else:
                    self.expr(g.iter, fresh, fi, True)
                for c in g.ifs:
                    self.expr(c, fresh, fi, True)
            if isinstance(e, ast.DictComp):
                self.expr(e.key, fresh, fi, True)
                self.expr(e.value, fresh, fi, True)
            else:
                self.expr(e.elt, fresh, fi, True)
            return fresh
        if isinstance(e, ast.Lambda):
            self.expr(e.body, fresh, fi, True)
            return fresh
        if isinstance(e, ast.IfExp):
            fresh = self.expr(e.test, fresh, fi, maybe)
            a = self.expr(e.body, fresh, fi, maybe)
            b = self.expr(e.orelse, fresh, fi, maybe)
            return a & b
        if isinstance(e, ast.BoolOp):
            fresh = self.expr(e.values[0], fresh, fi, maybe)
            for v in e.values[1:]:
                self.expr(v, fresh, fi, True)
            return fresh
        if isinstance(e, ast.NamedExpr):
            return self.expr(e.value, fresh, fi, maybe)
        for ch in ast.iter_child_nodes(e):
            if isinstance(ch, ast.expr):
                fresh = self.expr(ch, fresh, fi, maybe)
            elif isinstance(ch, (ast.keyword,)):
                fresh = self.expr(ch.value, fresh, fi, maybe)
            elif isinstance(ch, ast.comprehension):  # pragma: no cover
                pass
            elif isinstance(ch, ast.FormattedValue):
                fresh = self.expr(ch.value, fresh, fi, maybe)
        return fresh

    def call(self, e: ast.Call, fresh, fi, maybe) -> frozenset:
        func = e.func
        # receiver / callee expression
        callee: Optional[FuncInfo] = None
        if isinstance(func, ast.Attribute):
            v = func.value
            if isinstance(v, ast.Name) and v.id == "self" and self.self_is_instance(fi):
                callee = self.res.lookup_self_method(fi, func.attr)
                if callee is None:
                    # call of a field holding a callable
                    f = self.field_name(fi, func.attr)
                    self.expose(f, fi, e, fresh, f"call `{norm(func)}`")
            elif isinstance(v, ast.Call) and isinstance(v.func, ast.Name) and v.func.id == "super":
                callee = self.res.lookup_super_method(fi, func.attr)
            else:
                fresh = self.expr(v, fresh, fi, maybe)
                # mutation of a field's object through a method call
                r = self.root_field(fi, v)
                if r is not None and (func.attr in MUTATORS or func.attr in self.helper_writers):
                    self.expose(r, fi, e, fresh, f"in-place `{norm(func)}(...)`")
                    self.write(r, fi, e, f"mutating call .{func.attr}()")
        elif isinstance(func, ast.Name):
            r = self.res.lookup_lexical(fi, func.id)
            if isinstance(r, FuncInfo):
                callee = r
            elif func.id in ("setattr", "getattr", "delattr", "hasattr") and len(e.args) >= 2 \
                    and isinstance(e.args[0], ast.Name) and e.args[0].id == "self" \
                    and isinstance(e.args[1], ast.Constant) and isinstance(e.args[1].value, str):
                f = self.field_name(fi, e.args[1].value)
                if func.id == "setattr":
                    for a in e.args[2:]:
                        fresh = self.expr(a, fresh, fi, maybe)
                    self.write(f, fi, e, "setattr")
                    return fresh | {f} if not maybe else fresh
                if func.id == "delattr":
                    self.write(f, fi, e, "delattr")
                    return fresh - {f}
                self.expose(f, fi, e, fresh, f"{func.id}(self, '{e.args[1].value}')")
        else:
            fresh = self.expr(func, fresh, fi, maybe)
        for a in e.args:
            fresh = self.expr(a.value if isinstance(a, ast.Starred) else a, fresh, fi, maybe)
        for k in e.keywords:
            fresh = self.expr(k.value, fresh, fi, maybe)
        if callee is not None:
            return self.call_function(callee, fresh, definite=not maybe)
        return fresh


def helper_writer_names(prog: Program) -> set:
    """Names of methods of in-package helper classes (not optimizers, not pydantic models) that store
    into their own self - calling one through a field mutates the object the field holds."""
    out = set()
    abstract = f"{prog.ABSTRACT}"
    for ci in prog.classes.values():
        if prog.is_subclass(ci, abstract):
            continue
        for name, m in ci.methods.items():
            if name == "__init__":
                continue
            writes = False
            for n in ast.walk(m.node):
                if isinstance(n, (ast.Attribute, ast.Subscript)) and isinstance(n.ctx, (ast.Store, ast.Del)):
                    b = n
                    while isinstance(b, (ast.Attribute, ast.Subscript)):
                        b = b.value
                    if isinstance(b, ast.Name) and b.id == "self":
                        writes = True
                elif isinstance(n, ast.Call) and isinstance(n.func, ast.Attribute) and n.func.attr in MUTATORS:
                    b = n.func.value
                    while isinstance(b, (ast.Attribute, ast.Subscript)):
                        b = b.value
                    if isinstance(b, ast.Name) and b.id == "self":
                        writes = True
            if writes:
                out.add(name)
    # fixpoint: methods calling a writer on self
    changed = True
    while changed:
        changed = False
        for ci in prog.classes.values():
            if prog.is_subclass(ci, abstract):
                continue
            for name, m in ci.methods.items():
                if name in out or name == "__init__":
                    continue
                for n in ast.walk(m.node):
                    if isinstance(n, ast.Call) and isinstance(n.func, ast.Attribute) and n.func.attr in out \
                            and isinstance(n.func.value, ast.Name) and n.func.value.id == "self":
                        out.add(name)
                        changed = True
                        break
    return out
