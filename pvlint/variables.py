"""SHP/FRM facts about the seven Variable kinds (C02, C13, C14): primitive-level reading of
randomize / correct / decode / get_bounds / size / has_children / get and of the validators."""
from __future__ import annotations

import ast
from dataclasses import dataclass, field
from typing import Optional

from .callgraph import own_nodes
from .flow import origin, reaching_def, returns_of
from .model import PKG, AnalysisError, ClassInfo, FuncInfo, Program, dotted, norm

VARIABLE = f"{PKG}.models.Variable"
PROTOCOL = ("get", "randomize", "get_bounds", "correct", "decode", "size", "has_children")


def body_stmts(fi: FuncInfo) -> list:
    b = list(fi.node.body)
    if b and isinstance(b[0], ast.Expr) and isinstance(b[0].value, ast.Constant) and isinstance(b[0].value.value, str):
        b = b[1:]
    return b


def single_return(fi: FuncInfo) -> Optional[ast.AST]:
    rets = returns_of(fi.node)
    if len(rets) != 1 or rets[0].value is None:
        return None
    return rets[0].value


def np_call(e: ast.AST, name: str) -> bool:
    return isinstance(e, ast.Call) and dotted(e.func) in (f"np.{name}", f"numpy.{name}")


def strip_cast(e: ast.AST, fnode=None):
    """float(x) / int(x) / x.tolist() / list(x) -> (inner, [casts]); local names are followed when fnode is given"""
    casts = []
    cur = e
    while True:
        if fnode is not None and isinstance(cur, ast.Name):
            nxt = origin(fnode, cur)
            if nxt is not cur:
                cur = nxt
                continue
        if isinstance(cur, ast.Call) and isinstance(cur.func, ast.Name) and cur.func.id in ("float", "int", "list", "tuple") \
                and len(cur.args) == 1 and not cur.keywords:
            casts.append(cur.func.id)
            cur = cur.args[0]
        elif isinstance(cur, ast.Call) and isinstance(cur.func, ast.Attribute) and cur.func.attr in ("tolist", "item") \
                and not cur.args:
            casts.append(cur.func.attr)
            cur = cur.func.value
        else:
            return cur, casts


@dataclass
class Delegation:
    ok: bool
    method: str = ""
    why: str = ""
    unknown: bool = False      # the shape is not one of the recognised delegation forms (nothing positively wrong was seen)


def delegation_of(fi: FuncInfo, method: str, takes_value: bool) -> Delegation:
    """``[v.<method>(value[idx]) for idx, v in enumerate(self._children)]`` (or without the argument)."""
    rv = single_return(fi)
    if rv is None:
        return Delegation(False, why="no single return", unknown=True)
    rv = origin(fi.node, rv)
    if not (isinstance(rv, ast.ListComp) and len(rv.generators) == 1):
        return Delegation(False, why="not a list comprehension", unknown=True)
    g = rv.generators[0]
    if g.ifs:
        return Delegation(False, why="the comprehension filters children")
    e = rv.elt
    # self._children[i].m(value[i]) for i in range(len(self._children))
    if isinstance(e, ast.Call) and isinstance(e.func, ast.Attribute) and isinstance(e.func.value, ast.Subscript) \
            and dotted(e.func.value.value) == "self._children" and isinstance(e.func.value.slice, ast.Name) \
            and isinstance(g.target, ast.Name) and e.func.value.slice.id == g.target.id \
            and isinstance(g.iter, ast.Call) and isinstance(g.iter.func, ast.Name) and g.iter.func.id == "range":
        i_ = g.target.id
        rng = g.iter.args
        n_ = rng[-1] if rng and (len(rng) == 1 or (len(rng) == 2 and isinstance(rng[0], ast.Constant) and rng[0].value == 0)) else None
        val_ = fi.params[1] if len(fi.params) > 1 else None
        full = isinstance(n_, ast.Call) and isinstance(n_.func, ast.Name) and n_.func.id == "len" and len(n_.args) == 1 \
            and dotted(n_.args[0]) in ("self._children",) + ((val_,) if val_ else ())
        if e.func.attr != method:
            return Delegation(False, method=e.func.attr, why=f"delegates to .{e.func.attr}() instead of .{method}()")
        if not full:
            return Delegation(False, why="the index range is not recognised as covering every child", unknown=True)
        if takes_value:
            if len(e.args) == 1 and isinstance(e.args[0], ast.Subscript) and isinstance(e.args[0].value, ast.Name) \
                    and e.args[0].value.id == val_ and isinstance(e.args[0].slice, ast.Name) and e.args[0].slice.id == i_:
                return Delegation(True, method)
            return Delegation(False, why=f"child {i_} is not applied to {val_}[{i_}] (its own coordinate)")
        return Delegation(True, method) if not e.args else Delegation(False, why="unexpected argument", unknown=True)
    if isinstance(e, ast.Call) and isinstance(e.func, ast.Attribute) and isinstance(e.func.value, ast.Subscript) \
            and dotted(e.func.value.value) == "self._children" and isinstance(e.func.value.slice, ast.Constant):
        return Delegation(False, why=f"every coordinate is handled by the one child self._children[{e.func.value.slice.value!r}]")
    if not (isinstance(e, ast.Call) and isinstance(e.func, ast.Attribute) and isinstance(e.func.value, ast.Name)):
        return Delegation(False, why="element is not <child>.<method>(..)", unknown=True)
    if e.func.attr != method:
        return Delegation(False, method=e.func.attr, why=f"delegates to .{e.func.attr}() instead of .{method}()")
    child = e.func.value.id
    it = g.iter
    if takes_value:
        # for idx, v in enumerate(self._children) ... v.m(value[idx])   |  for c, v in zip(value, self._children) ... v.m(c)
        val = fi.params[1] if len(fi.params) > 1 else None
        if isinstance(it, ast.Call) and isinstance(it.func, ast.Name) and it.func.id == "enumerate" and len(it.args) == 1 \
                and dotted(it.args[0]) == "self._children" and isinstance(g.target, ast.Tuple) and len(g.target.elts) == 2 \
                and all(isinstance(t, ast.Name) for t in g.target.elts):
            idx, v = g.target.elts[0].id, g.target.elts[1].id
            if v != child:
                return Delegation(False, why="the called object is not the enumerated child")
            if len(e.args) == 1 and isinstance(e.args[0], ast.Subscript) and isinstance(e.args[0].value, ast.Name) \
                    and e.args[0].value.id == val and isinstance(e.args[0].slice, ast.Name) and e.args[0].slice.id == idx:
                return Delegation(True, method)
            return Delegation(False, why=f"the child is not applied to {val}[{idx}] (its own coordinate)")
        if isinstance(it, ast.Call) and isinstance(it.func, ast.Name) and it.func.id == "zip" and len(it.args) == 2 \
                and isinstance(g.target, ast.Tuple) and len(g.target.elts) == 2:
            names = [t.id if isinstance(t, ast.Name) else None for t in g.target.elts]
            srcs = [dotted(a) for a in it.args]
            if set(srcs) == {val, "self._children"}:
                cname = names[srcs.index("self._children")]
                vname = names[srcs.index(val)]
                if cname == child and len(e.args) == 1 and isinstance(e.args[0], ast.Name) and e.args[0].id == vname:
                    return Delegation(True, method)
            return Delegation(False, why="zip form does not pair each child with its own coordinate")
        # for i in range(len(self._children)) ... self._children[i].m(value[i])
        if isinstance(it, ast.Call) and isinstance(it.func, ast.Name) and it.func.id == "range" and isinstance(g.target, ast.Name) \
                and len(it.args) in (1, 2) and (len(it.args) == 1 or (isinstance(it.args[0], ast.Constant) and it.args[0].value == 0)):
            n_ = it.args[-1]
            i_ = g.target.id
            if isinstance(n_, ast.Call) and isinstance(n_.func, ast.Name) and n_.func.id == "len" and len(n_.args) == 1 \
                    and dotted(n_.args[0]) in ("self._children", val):
                pass
        return Delegation(False, why="iteration is not enumerate(self._children)", unknown=True)
    if dotted(it) == "self._children" and isinstance(g.target, ast.Name) and g.target.id == child and not e.args:
        return Delegation(True, method)
    return Delegation(False, why="iteration is not over self._children")


@dataclass
class VarFacts:
    cls: ClassInfo
    methods: dict = field(default_factory=dict)     # protocol name -> FuncInfo
    has_children: Optional[bool] = None
    correct_kind: str = "unknown"                   # clip-float | clip-int | delegate | argsort | unknown
    correct_detail: str = ""
    idempotent: Optional[bool] = None


def has_children_value(fi: FuncInfo) -> Optional[bool]:
    rv = single_return(fi)
    if isinstance(rv, ast.Constant) and isinstance(rv.value, bool):
        return rv.value
    return None


def analyse_correct(prog: Program, ci: ClassInfo, fi: FuncInfo) -> tuple:
    """-> (kind, detail, clip_args or None)"""
    rv = single_return(fi)
    if rv is None:
        return "unknown", "no single return", None
    rv = origin(fi.node, rv)
    inner, casts = strip_cast(rv, fi.node)
    val = fi.params[1] if len(fi.params) > 1 else None
    if np_call(inner, "clip") and len(inner.args) == 3 and not inner.keywords:
        if not (isinstance(inner.args[0], ast.Name) and inner.args[0].id == val):
            return "unknown", "np.clip is not applied to the value parameter", None
        kind = "clip-int" if "int" in casts else "clip-float"
        return kind, norm(rv), (inner.args[1], inner.args[2])
    if np_call(inner, "argsort") or np_call(inner, "sort"):
        return "argsort", norm(rv), None
    d = delegation_of(fi, "correct", True)
    if d.ok:
        return "delegate", norm(rv), None
    if isinstance(rv, ast.ListComp):
        return "bad-delegate", d.why, None
    if isinstance(inner, ast.Name) and inner.id == val:
        return "identity", norm(rv), None
    return "unknown", norm(rv, 80), None


def collect(prog: Program) -> dict:
    out = {}
    classes = prog.variable_classes()
    if len(classes) < 7:
        raise AnalysisError(f"only {len(classes)} Variable kinds found, 7 confirmed")
    for ci in classes:
        vf = VarFacts(ci)
        for m in PROTOCOL:
            f = prog.lookup_method(ci, m)
            if f is None or f.cls.qualname == VARIABLE:
                raise AnalysisError(f"{ci.name} does not implement Variable.{m}")
            vf.methods[m] = f
        vf.has_children = has_children_value(vf.methods["has_children"])
        vf.correct_kind, vf.correct_detail, _ = analyse_correct(prog, ci, vf.methods["correct"])
        out[ci.name] = vf
    # idempotence by composition
    for name, vf in out.items():
        if vf.correct_kind in ("clip-float", "clip-int", "identity"):
            vf.idempotent = True
        elif vf.correct_kind == "argsort":
            vf.idempotent = False
    for name, vf in out.items():
        if vf.correct_kind == "delegate":
            child = children_class(prog, vf.cls)
            vf.idempotent = out[child].idempotent if child in out else None
    return out


def children_class(prog: Program, ci: ClassInfo) -> Optional[str]:
    """Class name of the elements of self._children as built in __init__."""
    init = ci.methods.get("__init__")
    if init is None:
        return None
    for n in own_nodes(init):
        if isinstance(n, ast.Assign) and any(dotted(t) == "self._children" for t in n.targets):
            v = origin(init.node, n.value) if isinstance(n.value, ast.Name) else n.value
            if isinstance(v, ast.ListComp) and isinstance(v.elt, ast.Call) and isinstance(v.elt.func, ast.Name):
                return v.elt.func.id
    return None
