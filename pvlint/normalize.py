"""Semantics-preserving canonicalisation of the core modules' ASTs (abstract, models, helpers, utils, hypertuner,
multitask) applied right after parsing, so that the rule matchers see one idiom where maintainers can write several.

Every rewrite below is an equivalence of Python semantics under the stated side conditions (checked syntactically);
when a side condition cannot be established the code is left as it is.  Locations of the original nodes are kept.

N1  accumulator loop        acc = []; for T in IT: acc.append(E)            ->  acc = [E for T in IT]
                            (also `if C: acc.append(E)` -> filtered comprehension; acc not otherwise used in the loop)
N2  default-then-override   x = A; if C: x = B          (A, B effect-free)  ->  x = B if C else A
N3  map idioms              list(map(lambda v: E, IT)) / list(map(attrgetter("a"), IT)) / list(map(f, IT))
                                                                            ->  [E for v in IT] / [_v.a for _v in IT] / [f(_v) ..]
N4  key functions           key=attrgetter("cost")                          ->  key=lambda agent: agent.cost
N5  ranges                  range(n)                                        ->  range(0, n)
N6  explicit updates        x = x + e / x = x | e / x = x & e               ->  x += e / x |= e / x &= e
N7  local closures          zero-argument local `def g(): return E` used only by calls  ->  E inlined at the call sites;
                            zero-argument local `def g(): <stmts>` (no return) called as a statement -> statements spliced in
N8  list(genexp)            list(E for ..)                                  ->  [E for ..]
N9  if/else same name       if C: x = A else: x = B                         ->  x = A if C else B
N10-N12 single-name targets over enumerate/zip -> tuple targets; closures with parameters inlined (single return)
N13 copy propagation        x = E (x bound once, E pure, nothing kills it)  ->  E at the later reads of the same block
N14 private helpers         module-level `def _h(p): return E` (E pure, or any single expression when the call passes plain
                            names) inlined at its calls; a helper no longer referenced nor imported anywhere is dropped
N15 single-use methods      a private, non-anchor method used once as `self.m(..)` in a statement is spliced into its caller
N16 parallel assignment     a, b = (x, y)  (no cross dependency)            ->  a = x; b = y
N17 helper splicing         private functions / non-anchor methods only called at statement level (<= 4 uses): body spliced,
                            arguments bound in evaluation order, locals renamed; early returns only into `return f(..)`; a
                            single return ending a chain of `with` blocks becomes the assignment inside it
N18 forward substitution    t = E; S(t)  (t read once, S reaches the read before anything with an effect)  ->  S(E); also into
                            the first statement of a following `with f(<scalars>) as e:` (b) and into the two first uses on
                            exclusive paths of a following `if` (c)
N19 f(**{"k": v})           ->  f(k=v)
N20 local annotations       x: T = v / self.a: T = v inside functions      ->  x = v / self.a = v
N21 tail duplication        if c: A else: B; return E                       ->  if c: A; return E else: B; return E
N22 else after exit         if c: <leaves> else: B                          ->  if c: <leaves>; B
N23 extend/append branches  if c: X.extend(a) else: X.append(b)             ->  t = c; X.extend(a if t else [b])
N24 pd.DataFrame(data=X)    ->  pd.DataFrame(X)
N25 keyword -> positional   leading keyword arguments of package callees (names defined once) in parameter order
N26 tuple streams           [f(g, *t) for t in ((a, b) for ..)]             ->  [f(g, a, b) for ..]  (a, b effect-free)
N27 list += [v]             X += [v]  (X a local bound to a list display / comprehension)  ->  X.append(v)
N28 unpack via temporaries  a, b = E; T1 = a; T2 = b  (a, b bound nowhere else, read only there)  ->  T1, T2 = E
                            (N16 also splits general target patterns position by position)
N30 [*E]                    ->  list(E)
N32 dict(k=v, ..)           ->  {"k": v, ..}
N31 D.update(k=v)           as a statement, D the **kwargs parameter or a local dict display  ->  D["k"] = v
N29 zip(range(len(X)), X)   as the iterable of a loop / comprehension that does not resize or rebind X  ->  enumerate(X)
"""
from __future__ import annotations

import ast
import os
import copy
from typing import Optional

CORE_MODULES = ("abstract", "models", "helpers", "utils", "hypertuner", "multitask")


_PURE_BUILTINS = {"len", "isinstance", "abs", "min", "max", "int", "float", "bool", "str", "range", "tuple"}


def _effect_free(e: ast.AST) -> bool:
    for n in ast.walk(e):
        if isinstance(n, ast.Call):
            if isinstance(n.func, ast.Name) and n.func.id in _PURE_BUILTINS and not n.keywords:
                continue
            return False
        if isinstance(n, (ast.Await, ast.Yield, ast.YieldFrom, ast.NamedExpr, ast.Lambda, ast.ListComp,
                          ast.GeneratorExp, ast.DictComp, ast.SetComp)):
            return False
    return True


def _names(e: ast.AST) -> set:
    return {n.id for n in ast.walk(e) if isinstance(n, ast.Name)}


def _loc(new: ast.AST, old: ast.AST) -> ast.AST:
    ast.copy_location(new, old)
    return ast.fix_missing_locations(new)


def _tuple_target(comp):
    """N12: `for t in enumerate(X)` / `zip(A, B)` with t only used as t[0] / t[1] -> `for t0, t1 in ...`"""
    for g in comp.generators:
        it = g.iter
        if not (isinstance(g.target, ast.Name) and isinstance(it, ast.Call) and isinstance(it.func, ast.Name)
                and it.func.id in ("enumerate", "zip")):
            continue
        arity = 2 if it.func.id == "enumerate" else len(it.args)
        t = g.target.id
        uses = [n for n in ast.walk(comp) if isinstance(n, ast.Name) and n.id == t and isinstance(n.ctx, ast.Load)]
        subs = [n for n in ast.walk(comp) if isinstance(n, ast.Subscript) and isinstance(n.value, ast.Name) and n.value.id == t
                and isinstance(n.slice, ast.Constant) and isinstance(n.slice.value, int) and 0 <= n.slice.value < arity
                and isinstance(n.ctx, ast.Load)]
        if not uses or len(uses) != len(subs):
            continue
        names = [f"{t}_{i}" for i in range(arity)]
        if any(nm in {x.id for x in ast.walk(comp) if isinstance(x, ast.Name)} for nm in names):
            continue

        class R(ast.NodeTransformer):
            def visit_Subscript(self, n):
                if isinstance(n.value, ast.Name) and n.value.id == t and isinstance(n.slice, ast.Constant) and isinstance(n.ctx, ast.Load):
                    return ast.copy_location(ast.Name(id=names[n.slice.value], ctx=ast.Load()), n)
                self.generic_visit(n)
                return n
        g.target = ast.copy_location(ast.Tuple(elts=[ast.Name(id=nm, ctx=ast.Store()) for nm in names], ctx=ast.Store()), g.target)
        if isinstance(comp, ast.DictComp):
            comp.key, comp.value = R().visit(comp.key), R().visit(comp.value)
        else:
            comp.elt = R().visit(comp.elt)
        for g2 in comp.generators:
            g2.ifs = [R().visit(c) for c in g2.ifs]
    return comp


def _fuse_tuple_stream(comp):
    """N26: a comprehension over a generator of tuple displays, `[f(g, *t) for t in ((a, b) for ..)]` or
    `[f(a, b) for a, b in ((x, y) for ..)]`, is the comprehension over the inner source with the tuple's elements put where
    they are used - when every element is effect-free (so moving its evaluation into the outer element changes nothing)."""
    if not (isinstance(comp, (ast.ListComp, ast.GeneratorExp)) and len(comp.generators) == 1 and not comp.generators[0].ifs):
        return comp
    g = comp.generators[0]
    inner = g.iter
    if not (isinstance(inner, (ast.GeneratorExp, ast.ListComp)) and len(inner.generators) == 1 and isinstance(inner.elt, ast.Tuple)
            and not any(isinstance(x, ast.Starred) for x in inner.elt.elts) and all(_effect_free(x) for x in inner.elt.elts)):
        return comp
    inner_bound = {x.id for x in ast.walk(inner.generators[0].target) if isinstance(x, ast.Name)}
    outer_names = _names(comp.elt)
    elts = inner.elt.elts
    if isinstance(g.target, ast.Name):
        t = g.target.id
        uses = [x for x in ast.walk(comp.elt) if isinstance(x, ast.Name) and x.id == t]
        starred = [x for x in ast.walk(comp.elt) if isinstance(x, ast.Starred) and isinstance(x.value, ast.Name) and x.value.id == t]
        if len(uses) != 1 or len(starred) != 1 or (inner_bound & (outer_names - {t})):
            return comp

        class R(ast.NodeTransformer):
            def visit_Call(self, c):
                self.generic_visit(c)
                new_args = []
                for a in c.args:
                    if a is starred[0]:
                        new_args.extend(copy.deepcopy(e_) for e_ in elts)
                    else:
                        new_args.append(a)
                c.args = new_args
                return c
        # (rewritten in place on the original element: the identity test above needs the original nodes)
        new_elt = R().visit(comp.elt)
    elif isinstance(g.target, ast.Tuple) and len(g.target.elts) == len(elts) and all(isinstance(x, ast.Name) for x in g.target.elts):
        m = {x.id: e_ for x, e_ in zip(g.target.elts, elts)}
        if inner_bound & (outer_names - set(m)):
            return comp

        class R2(ast.NodeTransformer):
            def visit_Name(self, nn):
                if nn.id in m and isinstance(nn.ctx, ast.Load):
                    return copy.deepcopy(m[nn.id])
                return nn
        new_elt = R2().visit(comp.elt)
    else:
        return comp
    new = type(comp)(elt=new_elt, generators=[copy.deepcopy(x) for x in inner.generators])
    ast.copy_location(new, comp)
    for x in ast.walk(new):
        if not hasattr(x, "lineno") and isinstance(x, (ast.expr, ast.stmt)):
            ast.copy_location(x, comp)
    return new


class _Expr(ast.NodeTransformer):
    """expression-level rewrites N3 N4 N5 N8 N12"""

    def visit_ListComp(self, n):
        self.generic_visit(n)
        return ast.fix_missing_locations(_fuse_tuple_stream(_tuple_target(n)))

    def visit_GeneratorExp(self, n):
        self.generic_visit(n)
        return ast.fix_missing_locations(_fuse_tuple_stream(_tuple_target(n)))

    def visit_List(self, n):
        # N30 [*E] -> list(E)
        self.generic_visit(n)
        if isinstance(n.ctx, ast.Load) and len(n.elts) == 1 and isinstance(n.elts[0], ast.Starred) and "list" not in SHADOWED_BUILTINS:
            return _loc(ast.Call(func=ast.Name(id="list", ctx=ast.Load()), args=[n.elts[0].value], keywords=[]), n)
        return n

    def visit_Call(self, n: ast.Call):
        self.generic_visit(n)
        f = n.func
        # N25 package callees (names defined once in the package): leading keyword arguments that follow the parameter order
        # become positional - `optimize(task=t, mode=m)` and `optimize(t, mode=m)` and `optimize(t, m)` are one form
        cname = f.id if isinstance(f, ast.Name) else f.attr if isinstance(f, ast.Attribute) else None
        sig = SIGNATURES.get(cname) if cname and not os.environ.get("PVLINT_NO_KW2POS") else None
        if sig is not None and n.keywords and not any(isinstance(a_, ast.Starred) for a_ in n.args) and not sig[1] and not sig[2]:
            params = list(sig[0])
            is_attr_call = isinstance(f, ast.Attribute)
            if params and params[0] in ("self", "cls") and (is_attr_call or sig[4]) and not sig[3]:
                params = params[1:]
            elif params and params[0] in ("self", "cls") and not is_attr_call:
                params = None          # a method called through a bare name: leave alone
            if params is not None and not any(k.arg is None for k in n.keywords):
                pos = list(n.args)
                kws = list(n.keywords)
                while len(pos) < len(params) and kws and kws[0].arg == params[len(pos)]:
                    pos.append(kws.pop(0).value)
                if len(pos) != len(n.args):
                    n.args, n.keywords = pos, kws
        # N24 a few library constructors whose first parameter is routinely passed by keyword: pd.DataFrame(data=X) -> (X)
        d_ = None
        if isinstance(f, ast.Attribute) and isinstance(f.value, ast.Name):
            d_ = f"{f.value.id}.{f.attr}"
        if d_ in ("pd.DataFrame", "pandas.DataFrame") and not n.args and n.keywords and n.keywords[0].arg == "data":
            n.args = [n.keywords[0].value]
            n.keywords = n.keywords[1:]
        if isinstance(f, ast.Attribute) and f.attr == "seed" and isinstance(f.value, ast.Attribute) and f.value.attr == "random" \
                and not n.args and len(n.keywords) == 1 and n.keywords[0].arg == "seed":
            n.args, n.keywords = [n.keywords[0].value], []
        # N19 f(**{"a": x, "b": y}) with constant identifier keys -> f(a=x, b=y) (same evaluation order: the dict display
        # evaluates its values left to right where the keywords would)
        if any(k.arg is None and isinstance(k.value, ast.Dict) for k in n.keywords):
            kws = []
            for k in n.keywords:
                if k.arg is None and isinstance(k.value, ast.Dict) and k.value.keys and all(
                        isinstance(x, ast.Constant) and isinstance(x.value, str) and x.value.isidentifier() for x in k.value.keys) \
                        and len({x.value for x in k.value.keys}) == len(k.value.keys):
                    kws.extend(ast.keyword(arg=x.value, value=v) for x, v in zip(k.value.keys, k.value.values))
                else:
                    kws.append(k)
            names = [k.arg for k in kws if k.arg is not None]
            if len(names) == len(set(names)):
                n.keywords = kws
                ast.fix_missing_locations(n)
        # N32 dict(k=v, ..) -> {"k": v, ..}
        if isinstance(f, ast.Name) and f.id == "dict" and not n.args and n.keywords and all(k.arg is not None for k in n.keywords) \
                and "dict" not in SHADOWED_BUILTINS:
            return _loc(ast.Dict(keys=[ast.Constant(value=k.arg) for k in n.keywords], values=[k.value for k in n.keywords]), n)
        # N5
        if isinstance(f, ast.Name) and f.id == "range" and len(n.args) == 1 and not n.keywords:
            return _loc(ast.Call(func=f, args=[ast.Constant(value=0), n.args[0]], keywords=[]), n)
        # N4
        for k in n.keywords:
            if k.arg == "key" and isinstance(k.value, ast.Call) and isinstance(k.value.func, ast.Name) and k.value.func.id == "attrgetter" \
                    and len(k.value.args) == 1 and isinstance(k.value.args[0], ast.Constant) and isinstance(k.value.args[0].value, str) \
                    and "." not in k.value.args[0].value:
                k.value = _loc(ast.Lambda(
                    args=ast.arguments(posonlyargs=[], args=[ast.arg(arg="agent")], kwonlyargs=[], kw_defaults=[], defaults=[]),
                    body=ast.Attribute(value=ast.Name(id="agent", ctx=ast.Load()), attr=k.value.args[0].value, ctx=ast.Load())), k.value)
        # N8 / N3
        if isinstance(f, ast.Name) and f.id == "list" and len(n.args) == 1 and not n.keywords:
            a = n.args[0]
            if isinstance(a, ast.GeneratorExp):
                return _loc(ast.ListComp(elt=a.elt, generators=a.generators), n)
            if isinstance(a, ast.Call) and isinstance(a.func, ast.Name) and a.func.id == "map" and len(a.args) == 2 and not a.keywords:
                fn, it = a.args
                var = "_v"
                elt = None
                if isinstance(fn, ast.Lambda) and len(fn.args.args) == 1 and not fn.args.defaults and not fn.args.kwonlyargs \
                        and fn.args.vararg is None and fn.args.kwarg is None:
                    var = fn.args.args[0].arg
                    elt = fn.body
                elif isinstance(fn, ast.Call) and isinstance(fn.func, ast.Name) and fn.func.id == "attrgetter" and len(fn.args) == 1 \
                        and isinstance(fn.args[0], ast.Constant) and isinstance(fn.args[0].value, str) and "." not in fn.args[0].value:
                    elt = ast.Attribute(value=ast.Name(id=var, ctx=ast.Load()), attr=fn.args[0].value, ctx=ast.Load())
                elif isinstance(fn, ast.Call) and isinstance(fn.func, ast.Name) and fn.func.id == "methodcaller" and len(fn.args) == 1 \
                        and not fn.keywords and isinstance(fn.args[0], ast.Constant) and isinstance(fn.args[0].value, str) \
                        and fn.args[0].value.isidentifier():
                    # list(map(methodcaller("m"), IT)) -> [v.m() for v in IT]
                    elt = ast.Call(func=ast.Attribute(value=ast.Name(id=var, ctx=ast.Load()), attr=fn.args[0].value, ctx=ast.Load()),
                                   args=[], keywords=[])
                elif isinstance(fn, ast.Call) and isinstance(fn.func, ast.Name) and fn.func.id == "partial" and fn.args \
                        and not fn.keywords and all(_arg_ok(x) for x in fn.args) and var not in _names(fn):
                    # list(map(partial(f, a, b), IT)) -> [f(a, b, v) for v in IT]   (f, a, b are plain names / attribute chains:
                    # reading them per element instead of once changes nothing)
                    elt = ast.Call(func=fn.args[0], args=list(fn.args[1:]) + [ast.Name(id=var, ctx=ast.Load())], keywords=[])
                elif isinstance(fn, (ast.Name, ast.Attribute)) and _effect_free(fn) and var not in _names(it):
                    elt = ast.Call(func=fn, args=[ast.Name(id=var, ctx=ast.Load())], keywords=[])
                if elt is not None and var not in _names(it):
                    comp = ast.comprehension(target=ast.Name(id=var, ctx=ast.Store()), iter=it, ifs=[], is_async=0)
                    return _loc(ast.ListComp(elt=elt, generators=[comp]), n)
        return n


def _is_empty_list_assign(st: ast.AST) -> Optional[str]:
    if isinstance(st, ast.Assign) and len(st.targets) == 1 and isinstance(st.targets[0], ast.Name) \
            and isinstance(st.value, ast.List) and not st.value.elts:
        return st.targets[0].id
    if isinstance(st, ast.AnnAssign) and isinstance(st.target, ast.Name) and isinstance(st.value, ast.List) and not st.value.elts:
        return st.target.id
    return None


def _append_elt(st: ast.AST, acc: str) -> Optional[ast.AST]:
    """`acc.append(E)` or `acc += [E]` -> E"""
    if isinstance(st, ast.Expr) and isinstance(st.value, ast.Call) and isinstance(st.value.func, ast.Attribute) \
            and st.value.func.attr == "append" and isinstance(st.value.func.value, ast.Name) and st.value.func.value.id == acc \
            and len(st.value.args) == 1 and not st.value.keywords:
        return st.value.args[0]
    if isinstance(st, ast.AugAssign) and isinstance(st.op, ast.Add) and isinstance(st.target, ast.Name) and st.target.id == acc \
            and isinstance(st.value, ast.List) and len(st.value.elts) == 1:
        return st.value.elts[0]
    return None


def _rewrite_block(stmts: list) -> list:
    """statement-level rewrites on one block (N1, N2, N6); recursion into nested blocks is done by the caller"""
    out: list = []
    i = 0
    while i < len(stmts):
        st = stmts[i]
        nxt = stmts[i + 1] if i + 1 < len(stmts) else None
        # N1 accumulator loop (the loop may be separated from the initialisation by effect-free assignments not using acc)
        acc = _is_empty_list_assign(st)
        if acc is not None:
            j = i + 1
            between = []
            while j < len(stmts) and isinstance(stmts[j], (ast.Assign, ast.AnnAssign)) and acc not in _names(stmts[j]) \
                    and not isinstance(stmts[j], ast.For):
                between.append(stmts[j])
                j += 1
            loop = stmts[j] if j < len(stmts) else None
            if isinstance(loop, ast.For) and not loop.orelse and len(loop.body) >= 1:
                body = loop.body
                pre, last = body[:-1], body[-1]
                cond = None
                if isinstance(last, ast.If) and not last.orelse and len(last.body) == 1:
                    cond, last = last.test, last.body[0]
                elt = _append_elt(last, acc)
                # leading simple assignments in the loop body are substituted into the element when used once and effect-free
                subst = {}
                ok = elt is not None and acc not in _names(loop.iter) and acc not in _names(loop.target)
                for p in pre:
                    if isinstance(p, ast.Assign) and len(p.targets) == 1 and isinstance(p.targets[0], ast.Name) \
                            and acc not in _names(p.value):
                        subst[p.targets[0].id] = p.value
                    else:
                        ok = False
                if ok and acc in (_names(elt) | (_names(cond) if cond is not None else set())):
                    ok = False
                if ok:
                    # names defined in `pre` may be used at most once overall (no duplication of effects/random draws)
                    uses = {}
                    for x in list(ast.walk(elt)) + (list(ast.walk(cond)) if cond is not None else []) + \
                            [y for v in subst.values() for y in ast.walk(v)]:
                        if isinstance(x, ast.Name) and x.id in subst and isinstance(x.ctx, ast.Load):
                            uses[x.id] = uses.get(x.id, 0) + 1
                    if any(c > 1 and not _effect_free(subst[k]) for k, c in uses.items()):
                        ok = False
                    # a substituted name must not be needed after the loop: conservative - require it unused later in the block
                    later = set()
                    for s2 in stmts[j + 1:]:
                        later |= _names(s2)
                    if any(k in later for k in subst):
                        ok = False
                if ok:
                    class S(ast.NodeTransformer):
                        def visit_Name(self, nn):
                            if isinstance(nn.ctx, ast.Load) and nn.id in subst:
                                return S().visit(copy.deepcopy(subst[nn.id]))
                            return nn
                    elt2 = S().visit(copy.deepcopy(elt))
                    cond2 = S().visit(copy.deepcopy(cond)) if cond is not None else None
                    comp = ast.comprehension(target=loop.target, iter=loop.iter, ifs=[cond2] if cond2 is not None else [], is_async=0)
                    new = ast.Assign(targets=[ast.Name(id=acc, ctx=ast.Store())], value=ast.ListComp(elt=elt2, generators=[comp]))
                    out.extend(between)
                    out.append(_loc(new, loop))
                    i = j + 1
                    continue
        # N2 default-then-override
        if isinstance(st, (ast.Assign, ast.AnnAssign)) and isinstance(nxt, ast.If) and not nxt.orelse and len(nxt.body) == 1:
            tgt = st.targets[0] if isinstance(st, ast.Assign) and len(st.targets) == 1 else getattr(st, "target", None)
            val = st.value
            b = nxt.body[0]
            if isinstance(tgt, ast.Name) and val is not None and isinstance(b, ast.Assign) and len(b.targets) == 1 \
                    and isinstance(b.targets[0], ast.Name) and b.targets[0].id == tgt.id and _effect_free(val) \
                    and tgt.id not in _names(nxt.test) and tgt.id not in _names(b.value) and _effect_free(nxt.test):
                new = ast.Assign(targets=[ast.Name(id=tgt.id, ctx=ast.Store())],
                                 value=ast.IfExp(test=nxt.test, body=b.value, orelse=val))
                out.append(_loc(new, st))
                i += 2
                continue
        # N16 parallel assignment of a tuple literal to plain names / self attributes without cross dependency -> sequential
        if isinstance(st, ast.Assign) and len(st.targets) == 1 and isinstance(st.targets[0], (ast.Tuple, ast.List)) \
                and isinstance(st.value, (ast.Tuple, ast.List)) and len(st.targets[0].elts) == len(st.value.elts) \
                and all(isinstance(t_, ast.Name) or (isinstance(t_, ast.Attribute) and isinstance(t_.value, ast.Name)
                                                     and t_.value.id == "self") for t_ in st.targets[0].elts) \
                and not any(isinstance(v_, ast.Starred) for v_ in st.value.elts):
            tnames = {t_.id if isinstance(t_, ast.Name) else "self." + t_.attr for t_ in st.targets[0].elts}
            has_attr_target = any(isinstance(t_, ast.Attribute) for t_ in st.targets[0].elts)

            def _reads(v_):
                r = set(_names(v_))
                for a_ in ast.walk(v_):
                    if isinstance(a_, ast.Attribute) and isinstance(a_.value, ast.Name) and a_.value.id == "self":
                        r.add("self." + a_.attr)
                    if has_attr_target and isinstance(a_, ast.Call):
                        r.add("self.*")      # a call might read the attribute being stored
                return r
            cross = any((tnames & _reads(v_)) or ("self.*" in _reads(v_)) for v_ in st.value.elts[1:]) or \
                any(tnames & set(_names(v_)) for v_ in st.value.elts)
            if not cross and len(tnames) == len(st.targets[0].elts):
                for t_, v_ in zip(st.targets[0].elts, st.value.elts):
                    tgt = ast.Name(id=t_.id, ctx=ast.Store()) if isinstance(t_, ast.Name) else \
                        ast.Attribute(value=ast.Name(id="self", ctx=ast.Load()), attr=t_.attr, ctx=ast.Store())
                    out.append(_loc(ast.Assign(targets=[tgt], value=v_), st))
                i += 1
                continue
        # N16b `(T1), (T2) = (a, b)` with arbitrary target patterns and plain-name values that the targets do not bind
        if isinstance(st, ast.Assign) and len(st.targets) == 1 and isinstance(st.targets[0], (ast.Tuple, ast.List)) \
                and isinstance(st.value, (ast.Tuple, ast.List)) and len(st.targets[0].elts) == len(st.value.elts) \
                and all(isinstance(v_, ast.Name) for v_ in st.value.elts) \
                and not any(isinstance(t_, ast.Starred) for t_ in st.targets[0].elts):
            bound_ = {x.id for t_ in st.targets[0].elts for x in ast.walk(t_) if isinstance(x, ast.Name) and isinstance(x.ctx, ast.Store)}
            if not (bound_ & {v_.id for v_ in st.value.elts}):
                for t_, v_ in zip(st.targets[0].elts, st.value.elts):
                    out.append(_loc(ast.Assign(targets=[t_], value=v_), st))
                i += 1
                continue
        # N9 if/else assigning the same name -> conditional expression
        if isinstance(st, ast.If) and len(st.body) == 1 and len(st.orelse) == 1 \
                and all(isinstance(x, ast.Assign) and len(x.targets) == 1 and isinstance(x.targets[0], ast.Name) for x in (st.body[0], st.orelse[0])) \
                and st.body[0].targets[0].id == st.orelse[0].targets[0].id:
            name = st.body[0].targets[0].id
            if name not in _names(st.test):
                new = ast.Assign(targets=[ast.Name(id=name, ctx=ast.Store())],
                                 value=ast.IfExp(test=st.test, body=st.body[0].value, orelse=st.orelse[0].value))
                out.append(_loc(new, st))
                i += 1
                continue
        # N11 conditional re-assignment of an existing name: `if C: x = E` -> `x = E if C else x`  (x certainly bound before:
        # it is a parameter or assigned earlier in this block)
        if isinstance(st, ast.If) and not st.orelse and len(st.body) == 1 and isinstance(st.body[0], ast.Assign) \
                and len(st.body[0].targets) == 1 and isinstance(st.body[0].targets[0], ast.Name):
            name = st.body[0].targets[0].id
            bound_before = any(name in {t.id for s2 in [p] for t in ast.walk(s2) if isinstance(t, ast.Name) and isinstance(t.ctx, ast.Store)}
                               for p in out if isinstance(p, (ast.Assign, ast.AnnAssign)))
            if bound_before and name not in _names(st.test) and _effect_free(st.test):
                new = ast.Assign(targets=[ast.Name(id=name, ctx=ast.Store())],
                                 value=ast.IfExp(test=st.test, body=st.body[0].value, orelse=ast.Name(id=name, ctx=ast.Load())))
                out.append(_loc(new, st))
                i += 1
                continue
        # N6
        if isinstance(st, ast.Assign) and len(st.targets) == 1 and isinstance(st.value, ast.BinOp) \
                and isinstance(st.value.op, (ast.Add, ast.BitOr, ast.BitAnd)) \
                and isinstance(st.targets[0], (ast.Name, ast.Attribute)) \
                and ast.dump(st.targets[0]).replace("Store()", "Load()") == ast.dump(st.value.left):
            # only for scalars/bools: `x = x + e` on a list creates a new list while `+=` mutates - restrict to counters/flags
            if isinstance(st.value.op, (ast.BitOr, ast.BitAnd)) or (isinstance(st.value.right, ast.Constant)
                                                                      and isinstance(st.value.right.value, (int, float))):
                out.append(_loc(ast.AugAssign(target=st.targets[0], op=st.value.op, value=st.value.right), st))
                i += 1
                continue
        out.append(st)
        i += 1
    return out


class _Stmt(ast.NodeTransformer):
    def generic_visit(self, node):
        super().generic_visit(node)
        for f in ("body", "orelse", "finalbody"):
            b = getattr(node, f, None)
            if isinstance(b, list) and b and isinstance(b[0], ast.stmt):
                setattr(node, f, _rewrite_block(b))
        return node


def _nested_defs(fn: ast.FunctionDef) -> list:
    """FunctionDefs nested directly in fn (in any block, not inside deeper defs)."""
    out = []

    def rec(stmts):
        for s in stmts:
            if isinstance(s, ast.FunctionDef):
                out.append(s)
                continue
            for f in ("body", "orelse", "finalbody"):
                b = getattr(s, f, None)
                if isinstance(b, list) and b and isinstance(b[0], ast.stmt):
                    rec(b)
            for h in getattr(s, "handlers", []) or []:
                rec(h.body)
    rec(fn.body)
    return out


def _drop_def(fn: ast.FunctionDef, g: ast.FunctionDef) -> None:
    def rec(holder):
        for f in ("body", "orelse", "finalbody"):
            b = getattr(holder, f, None)
            if isinstance(b, list) and b and isinstance(b[0], ast.stmt):
                if g in b:
                    nb = [s for s in b if s is not g]
                    setattr(holder, f, nb or [ast.copy_location(ast.Pass(), g)])
                    return True
                for s in b:
                    if not isinstance(s, ast.FunctionDef) and rec(s):
                        return True
        return False
    rec(fn)


def _inline_closures(fn: ast.FunctionDef) -> None:
    """N7 on one function (in place)."""
    local = _nested_defs(fn)
    for g in local:
        a = g.args
        if (a.args and not a.defaults and not (a.posonlyargs or a.kwonlyargs or a.vararg or a.kwarg or g.decorator_list)):
            _inline_param_closure(fn, g)
            continue
        if a.args or a.posonlyargs or a.kwonlyargs or a.vararg or a.kwarg or g.decorator_list:
            continue
        body = [s for s in g.body if not (isinstance(s, ast.Expr) and isinstance(s.value, ast.Constant))]
        if not body:
            continue
        # no nested defs, no nonlocal/global, no yields
        if any(isinstance(x, (ast.FunctionDef, ast.Nonlocal, ast.Global, ast.Yield, ast.YieldFrom, ast.Lambda)) for s in body for x in ast.walk(s)):
            continue
        rets = [x for s in body for x in ast.walk(s) if isinstance(x, ast.Return)]
        uses = [x for x in ast.walk(fn) if isinstance(x, ast.Name) and x.id == g.name and isinstance(x.ctx, ast.Load)]
        calls = [x for x in ast.walk(fn) if isinstance(x, ast.Call) and isinstance(x.func, ast.Name) and x.func.id == g.name
                 and not x.args and not x.keywords]
        if len(uses) != len(calls) or not calls:
            continue
        # locals assigned inside g would become locals of fn: only allow if g assigns no plain names
        assigns_names = any(isinstance(x, ast.Name) and isinstance(x.ctx, ast.Store) for s in body for x in ast.walk(s))
        if len(body) == 1 and isinstance(body[0], ast.Return) and body[0].value is not None:
            expr = body[0].value

            class R(ast.NodeTransformer):
                def visit_Call(self, c):
                    self.generic_visit(c)
                    if isinstance(c.func, ast.Name) and c.func.id == g.name and not c.args and not c.keywords:
                        return _loc(copy.deepcopy(expr), c)
                    return c
            for idx, st in enumerate(fn.body):
                if st is not g:
                    fn.body[idx] = R().visit(st)
            fn.body = [s for s in fn.body if s is not g]
        elif not rets and not assigns_names:
            def splice(stmts):
                out = []
                for s in stmts:
                    if isinstance(s, ast.Expr) and isinstance(s.value, ast.Call) and isinstance(s.value.func, ast.Name) \
                            and s.value.func.id == g.name and not s.value.args:
                        out.extend(copy.deepcopy(b) for b in body)
                        continue
                    for f in ("body", "orelse", "finalbody"):
                        bb = getattr(s, f, None)
                        if isinstance(bb, list) and bb and isinstance(bb[0], ast.stmt):
                            setattr(s, f, splice(bb))
                    out.append(s)
                return out
            # every call must be a statement-level call
            stmt_calls = [s for s in ast.walk(fn) if isinstance(s, ast.Expr) and isinstance(s.value, ast.Call)
                          and isinstance(s.value.func, ast.Name) and s.value.func.id == g.name]
            if len(stmt_calls) == len(calls):
                fn.body = [s for s in splice(fn.body) if s is not g]


def _inline_param_closure(fn: ast.FunctionDef, g: ast.FunctionDef) -> None:
    """`def g(p, q): return E` whose every use is a direct call g(a, b) with effect-free arguments and whose body reads no
    name that is rebound between definition and use (approximated: E only reads its parameters, `self`, and names never
    stored after g's definition) -> E[p:=a, q:=b] at the call sites.  Each parameter may occur at most once in E unless
    the argument is a plain name/constant (no duplicated work)."""
    body = [s for s in g.body if not (isinstance(s, ast.Expr) and isinstance(s.value, ast.Constant))]
    if len(body) != 1 or not isinstance(body[0], ast.Return) or body[0].value is None:
        return
    expr = body[0].value
    if any(isinstance(x, (ast.Lambda, ast.Yield, ast.YieldFrom, ast.NamedExpr)) for x in ast.walk(expr)):
        return
    params = [x.arg for x in g.args.args]
    uses = [x for x in ast.walk(fn) if isinstance(x, ast.Name) and x.id == g.name and isinstance(x.ctx, ast.Load)]
    calls = [x for x in ast.walk(fn) if isinstance(x, ast.Call) and isinstance(x.func, ast.Name) and x.func.id == g.name]
    if not calls or len(uses) != len(calls):
        return
    for c in calls:
        if c.keywords or len(c.args) != len(params) or any(isinstance(z, ast.Starred) for z in c.args) \
                or not all(_effect_free(z) for z in c.args):
            return
    # a closure reads its free variables when it is *called*; the inlined expression reads them at the same moment.
    # Only a comprehension variable of the call site shadowing a free name would change the meaning:
    free = {x.id for x in ast.walk(expr) if isinstance(x, ast.Name) and isinstance(x.ctx, ast.Load)} - set(params)
    for comp in ast.walk(fn):
        if isinstance(comp, (ast.ListComp, ast.GeneratorExp, ast.SetComp, ast.DictComp)):
            tg = {x.id for gg in comp.generators for x in ast.walk(gg.target) if isinstance(x, ast.Name)}
            if tg & free and any(c in list(ast.walk(comp)) for c in calls):
                return
    count = {p: sum(1 for x in ast.walk(expr) if isinstance(x, ast.Name) and x.id == p) for p in params}

    class R(ast.NodeTransformer):
        def visit_Call(self, c):
            self.generic_visit(c)
            if isinstance(c.func, ast.Name) and c.func.id == g.name:
                m = dict(zip(params, c.args))
                if any(count[p] > 1 and not isinstance(m[p], (ast.Name, ast.Constant, ast.Attribute)) for p in params):
                    return c

                class S(ast.NodeTransformer):
                    def visit_Name(self, nn):
                        if isinstance(nn.ctx, ast.Load) and nn.id in m:
                            return copy.deepcopy(m[nn.id])
                        return nn
                return _loc(S().visit(copy.deepcopy(expr)), c)
            return c
    holder_body = list(fn.body)
    saved = g.body
    g.body = [ast.Pass()]            # do not rewrite inside g itself
    R().visit(fn)
    g.body = saved
    if not any(isinstance(x, ast.Name) and x.id == g.name and isinstance(x.ctx, ast.Load) for x in ast.walk(fn)):
        _drop_def(fn, g)


def _pure_value(e: ast.AST) -> bool:
    """An expression whose value depends only on the current values of names / attribute chains / constants (no calls
    except pure builtins, no subscripts of mutable containers are excluded on purpose: attribute chains and names only)."""
    for n in ast.walk(e):
        if isinstance(n, (ast.Name, ast.Attribute, ast.Constant, ast.Compare, ast.BoolOp, ast.UnaryOp, ast.IfExp, ast.Load,
                          ast.And, ast.Or, ast.Not, ast.USub, ast.UAdd, ast.cmpop, ast.BinOp, ast.operator, ast.Tuple)):
            continue
        if isinstance(n, ast.Call) and isinstance(n.func, ast.Name) and n.func.id in ("len", "isinstance") and not n.keywords:
            continue
        return False
    return True


def _pure_comprehension(e: ast.AST, params: set) -> bool:
    """`[<pure in the loop variable> for v in <param>]` (optionally inside list()/tuple()): reads only its parameter"""
    if isinstance(e, ast.Call) and isinstance(e.func, ast.Name) and e.func.id in ("list", "tuple") and len(e.args) == 1 and not e.keywords:
        e = e.args[0]
    if not (isinstance(e, (ast.ListComp, ast.GeneratorExp)) and len(e.generators) == 1 and not e.generators[0].ifs
            and isinstance(e.generators[0].iter, ast.Name) and e.generators[0].iter.id in params
            and isinstance(e.generators[0].target, ast.Name)):
        return False
    v = e.generators[0].target.id
    return _pure_value(e.elt) and all(nm == v or nm in params for nm in _names(e.elt))


def _roots(e: ast.AST) -> set:
    """dotted prefixes read by e: {'weights', 'self._task', 'self._task.objective_weights', ...}"""
    out = set()
    for n in ast.walk(e):
        if isinstance(n, (ast.Name, ast.Attribute)):
            parts = []
            cur = n
            while isinstance(cur, ast.Attribute):
                parts.append(cur.attr)
                cur = cur.value
            if isinstance(cur, ast.Name):
                parts.append(cur.id)
                parts.reverse()
                for i in range(1, len(parts) + 1):
                    out.add(".".join(parts[:i]))
    return out


_MUTATING = {"append", "extend", "insert", "pop", "remove", "clear", "sort", "reverse", "update", "setdefault", "popitem", "add", "discard"}


def _kills(st: ast.AST, roots: set) -> bool:
    """Can executing st change the value of an expression reading `roots`?"""
    for n in ast.walk(st):
        if isinstance(n, (ast.Name, ast.Attribute)) and isinstance(getattr(n, "ctx", None), (ast.Store, ast.Del)):
            d = []
            cur = n
            while isinstance(cur, ast.Attribute):
                d.append(cur.attr)
                cur = cur.value
            if isinstance(cur, ast.Name):
                d.append(cur.id)
                txt = ".".join(reversed(d))
                if txt in roots or any(r.startswith(txt + ".") for r in roots):
                    return True
        if isinstance(n, ast.Call):
            f = n.func
            if isinstance(f, ast.Attribute) and f.attr in _MUTATING:
                continue          # mutating a container does not rebind the names/attribute chains that denote it
            if isinstance(f, ast.Attribute) and isinstance(f.value, ast.Name) and f.value.id == "self":
                # a method call on self may rebind any self.<field>
                if any(r.startswith("self.") for r in roots):
                    return True
    return False


def _copy_propagate(fn: ast.FunctionDef) -> None:
    """N13: `x = E` (x bound once, E pure) at the top level of the function body is substituted into later statements of
    the same block as long as no statement in between can change E's value; the assignment is dropped when x has no
    remaining reads.  Parameters are never propagated into (they may be rebound by callers' expectations)."""
    body = fn.body
    stores = {}
    for n in ast.walk(fn):
        if isinstance(n, ast.Name) and isinstance(n.ctx, (ast.Store, ast.Del)):
            stores[n.id] = stores.get(n.id, 0) + 1
    params = {a.arg for a in fn.args.args + fn.args.kwonlyargs + fn.args.posonlyargs}
    i = 0
    while i < len(body):
        st = body[i]
        tgt = val = None
        if isinstance(st, ast.Assign) and len(st.targets) == 1 and isinstance(st.targets[0], ast.Name):
            tgt, val = st.targets[0].id, st.value
        elif isinstance(st, ast.AnnAssign) and isinstance(st.target, ast.Name) and st.value is not None:
            tgt, val = st.target.id, st.value
        if tgt is None or tgt in params or stores.get(tgt, 0) != 1 or not _pure_value(val) or tgt in _names(val) \
                or isinstance(val, ast.Constant) and val.value is None:
            i += 1
            continue
        # names read by val must themselves be stable: parameters or single-assignment locals
        if any(stores.get(nm, 0) > 1 for nm in _names(val) if nm != "self"):
            i += 1
            continue
        roots = _roots(val)
        ok = True
        last_use = i
        for j in range(i + 1, len(body)):
            uses_here = any(isinstance(x, ast.Name) and x.id == tgt and isinstance(x.ctx, ast.Load) for x in ast.walk(body[j]))
            if uses_here:
                # inside a compound statement the value could be killed before the use: only allow simple statements,
                # or compound statements that do not kill it at all
                if isinstance(body[j], (ast.If, ast.For, ast.While, ast.With, ast.Try)) and _kills(body[j], roots):
                    ok = False
                    break
                # a simple statement evaluates its reads before its own store
                last_use = j
            if _kills(body[j], roots) and any(
                    isinstance(x, ast.Name) and x.id == tgt and isinstance(x.ctx, ast.Load) for k in range(j + 1, len(body)) for x in ast.walk(body[k])):
                ok = False
                break
        # uses inside nested functions / lambdas defined later read the variable late: do not propagate then
        for x in ast.walk(fn):
            if isinstance(x, (ast.Lambda, ast.FunctionDef)) and x is not fn and tgt in _names(x):
                ok = False
        if not ok or last_use == i:
            i += 1
            continue

        class S(ast.NodeTransformer):
            def visit_Name(self, nn):
                if nn.id == tgt and isinstance(nn.ctx, ast.Load):
                    return _loc(copy.deepcopy(val), nn)
                return nn
        for j in range(i + 1, len(body)):
            body[j] = S().visit(body[j])
        del body[i]


def _inline_private_helpers(t: ast.Module) -> None:
    """N14: module-level `def _h(p, ..): return E` (private, E pure in its parameters and module constants) is inlined at
    direct call sites with pure arguments; a bare reference `key=_h` with one parameter becomes `lambda p: E`."""
    helpers = {}
    simple_helpers = {}
    for st in t.body:
        if isinstance(st, ast.FunctionDef) and st.name.startswith("_") and not st.name.startswith("__") and not st.decorator_list:
            a = st.args
            if a.vararg or a.kwarg or a.kwonlyargs or a.posonlyargs or a.defaults:
                continue
            body = [s for s in st.body if not (isinstance(s, ast.Expr) and isinstance(s.value, ast.Constant))]
            if len(body) == 1 and isinstance(body[0], ast.Return) and body[0].value is not None and (
                    _pure_value(body[0].value) or _pure_comprehension(body[0].value, {x.arg for x in a.args})):
                helpers[st.name] = ([x.arg for x in a.args], body[0].value)
            elif len(body) == 1 and isinstance(body[0], ast.Return) and body[0].value is not None and not any(
                    isinstance(x, (ast.Lambda, ast.Yield, ast.YieldFrom, ast.Await, ast.NamedExpr, ast.ListComp, ast.GeneratorExp,
                                   ast.SetComp, ast.DictComp)) for x in ast.walk(body[0].value)):
                # any single-expression helper: inlining it at a call with plain-name arguments evaluates exactly the same
                # things in the same order (no purity needed); free names must be module-level names
                params_ = {x.arg for x in a.args}
                free = {x.id for x in ast.walk(body[0].value) if isinstance(x, ast.Name)} - params_
                simple_helpers[st.name] = ([x.arg for x in a.args], body[0].value, free)
    if not helpers and not simple_helpers:
        return
    cur_locals = [set()]

    class R(ast.NodeTransformer):
        def visit_FunctionDef(self, fd):
            loc_ = {x.id for x in ast.walk(fd) if isinstance(x, ast.Name) and isinstance(x.ctx, (ast.Store, ast.Del))}
            loc_ |= {x.arg for x in ast.walk(fd) if isinstance(x, ast.arg)}
            cur_locals.append(cur_locals[-1] | loc_)
            self.generic_visit(fd)
            cur_locals.pop()
            return fd

        def visit_Call(self, c):
            self.generic_visit(c)
            if isinstance(c.func, ast.Name) and c.func.id in simple_helpers and not c.keywords:
                params, expr, free = simple_helpers[c.func.id]
                if len(c.args) == len(params) and all(isinstance(a, (ast.Name, ast.Constant)) for a in c.args) \
                        and not (free & cur_locals[-1]) and c.func.id not in cur_locals[-1]:
                    m = dict(zip(params, c.args))

                    class S0(ast.NodeTransformer):
                        def visit_Name(self, nn):
                            if isinstance(nn.ctx, ast.Load) and nn.id in m:
                                return copy.deepcopy(m[nn.id])
                            return nn
                    return _loc(S0().visit(copy.deepcopy(expr)), c)
            if isinstance(c.func, ast.Name) and c.func.id in helpers and not c.keywords:
                params, expr = helpers[c.func.id]
                if len(c.args) == len(params) and all(_pure_value(a) for a in c.args):
                    m = dict(zip(params, c.args))

                    class S(ast.NodeTransformer):
                        def visit_Name(self, nn):
                            if isinstance(nn.ctx, ast.Load) and nn.id in m:
                                return copy.deepcopy(m[nn.id])
                            return nn
                    return _loc(S().visit(copy.deepcopy(expr)), c)
            return c

        def visit_keyword(self, k):
            self.generic_visit(k)
            if k.arg == "key" and isinstance(k.value, ast.Name) and k.value.id in helpers and len(helpers[k.value.id][0]) == 1:
                params, expr = helpers[k.value.id]
                k.value = _loc(ast.Lambda(args=ast.arguments(posonlyargs=[], args=[ast.arg(arg=params[0])], kwonlyargs=[],
                                                           kw_defaults=[], defaults=[]), body=copy.deepcopy(expr)), k.value)
            return k
    for idx, st in enumerate(t.body):
        if not (isinstance(st, ast.FunctionDef) and (st.name in helpers or st.name in simple_helpers)):
            t.body[idx] = R().visit(st)
    # a private helper that is no longer referenced in its module, nor imported anywhere in the package, is dead code
    for name in list(helpers) + list(simple_helpers):
        refs = [n for n in ast.walk(t) if isinstance(n, ast.Name) and n.id == name]
        in_all = any(isinstance(n, ast.Constant) and n.value == name for n in ast.walk(t))
        if not refs and not in_all and name not in IMPORTED_NAMES:
            t.body = [x for x in t.body if not (isinstance(x, ast.FunctionDef) and x.name == name)]


# names defined more than once in the package (set by model.Program._load): possibly overridden methods, never spliced
SHADOWED_BUILTINS: set = set()      # per module: builtin names the module rebinds (set by normalize_module)
MULTI_DEF: frozenset = frozenset()
# every identifier that appears in a `from .. import ..` statement anywhere in the package (set by model.Program._load)
IMPORTED_NAMES: frozenset = frozenset()
# name -> (positional-or-keyword parameters, has *args, has positional-only, staticmethod, classmethod) for every function or
# method whose name is defined exactly once in the package (set by model.Program._load)
SIGNATURES: dict = {}

# methods the rules address by name: never dissolved into their callers
ANCHOR_METHODS = {
    "__error_check__", "__should_stop__", "__set_keyword_arguments__", "__check_input__", "__check_modes__", "__get_mode__",
    "__parallelize__", "__run__", "__generate_dict_result__", "__debug_results__", "_fcn", "_init_agent", "_generate_agents",
    "_init_population", "_greedy_select_population", "_greedy_select_agent", "_extend_and_trim_population",
    "_replace_and_trim_population", "_generate_group_population", "__set_y__",
}
_DUNDERS = {"init", "new", "iter", "len", "getitem", "setitem", "str", "repr", "contains", "call", "eq", "hash", "enter", "exit"}


def _arg_ok(e: ast.AST) -> bool:
    """argument expressions that can be substituted for a parameter: names, attribute chains, constants, constant subscripts"""
    if isinstance(e, (ast.Name, ast.Constant)):
        return True
    if isinstance(e, ast.Attribute):
        return _arg_ok(e.value)
    if isinstance(e, ast.Subscript):
        return _arg_ok(e.value) and (isinstance(e.slice, ast.Constant) or (isinstance(e.slice, ast.UnaryOp) and isinstance(e.slice.operand, ast.Constant))
                                      or isinstance(e.slice, ast.Name))
    return False


def _inline_single_use_methods(t: ast.Module) -> None:
    """N15: a private method (leading underscore) that is referenced exactly once in its class, as `self.m(args)` in a statement
    (`self.m(..)` or `x = self.m(..)`), has no decorators, no early return (only an optional final `return E`) and whose arguments are
    substitutable expressions, is spliced into its caller (parameters substituted, callee locals renamed on clashes)."""
    for cls in [n for n in t.body if isinstance(n, ast.ClassDef)]:
        for _round in range(4):
            methods = {m.name: m for m in cls.body if isinstance(m, ast.FunctionDef)}
            done = False
            for name, callee in methods.items():
                if not name.startswith("_") or callee.decorator_list or name in ANCHOR_METHODS or name in MULTI_DEF or \
                        (name.startswith("__") and name.endswith("__") and name[2:-2] in _DUNDERS):
                    continue
                a = callee.args
                if a.vararg or a.kwarg or a.posonlyargs or not a.args or a.args[0].arg != "self":
                    continue
                refs = [n for n in ast.walk(cls) if isinstance(n, ast.Attribute) and n.attr == name and isinstance(n.value, ast.Name) and n.value.id == "self"]
                if len(refs) != 1:
                    continue
                body = [s_ for s_ in callee.body if not (isinstance(s_, ast.Expr) and isinstance(s_.value, ast.Constant))]
                rets = [x for s_ in body for x in ast.walk(s_) if isinstance(x, ast.Return)]
                final_ret = body[-1] if body and isinstance(body[-1], ast.Return) else None
                if any(r is not final_ret for r in rets):
                    continue
                if any(isinstance(x, (ast.Yield, ast.YieldFrom, ast.Nonlocal, ast.Global, ast.FunctionDef, ast.Lambda)) for s_ in body for x in ast.walk(s_)):
                    continue
                # find the calling statement
                for caller in methods.values():
                    if caller is callee:
                        continue
                    hit = None

                    def find(stmts):
                        nonlocal hit
                        for i_, st in enumerate(stmts):
                            call = None
                            if isinstance(st, ast.Expr) and isinstance(st.value, ast.Call):
                                call = st.value
                            elif isinstance(st, ast.Assign) and len(st.targets) == 1 and isinstance(st.value, ast.Call):
                                call = st.value
                            if call is not None and call.func is refs[0]:
                                hit = (stmts, i_, st, call)
                                return
                            for f in ("body", "orelse", "finalbody"):
                                bb = getattr(st, f, None)
                                if isinstance(bb, list) and bb and isinstance(bb[0], ast.stmt):
                                    find(bb)
                                    if hit:
                                        return
                    find(caller.body)
                    if not hit:
                        continue
                    stmts, i_, st, call = hit
                    params = [x.arg for x in a.args[1:]] + [x.arg for x in a.kwonlyargs]
                    defaults = dict(zip([x.arg for x in a.args[1:]][len(a.args) - 1 - len(a.defaults):], a.defaults))
                    for x, d in zip(a.kwonlyargs, a.kw_defaults):
                        if d is not None:
                            defaults[x.arg] = d
                    bind = {}
                    pos = [x.arg for x in a.args[1:]]
                    if len(call.args) > len(pos) or any(isinstance(z, ast.Starred) for z in call.args):
                        break
                    for p_, v_ in zip(pos, call.args):
                        bind[p_] = v_
                    okk = True
                    for k in call.keywords:
                        if k.arg is None or k.arg not in params:
                            okk = False
                        else:
                            bind[k.arg] = k.value
                    for p_ in params:
                        if p_ not in bind:
                            if p_ in defaults:
                                bind[p_] = defaults[p_]
                            else:
                                okk = False
                    if not okk or not all(_arg_ok(v_) for v_ in bind.values()):
                        break
                    # parameters must not be rebound in the callee
                    stored = {x.id for s_ in body for x in ast.walk(s_) if isinstance(x, ast.Name) and isinstance(x.ctx, (ast.Store, ast.Del))}
                    if stored & set(params):
                        break
                    if isinstance(st, ast.Expr) and final_ret is not None and final_ret.value is not None and not _effect_free(final_ret.value):
                        pass
                    caller_names = {x.id for x in ast.walk(caller) if isinstance(x, ast.Name)} | {x.arg for x in caller.args.args}
                    ren = {n_: f"{n_}__{name.strip('_')}" for n_ in stored if n_ in caller_names}

                    class S(ast.NodeTransformer):
                        def visit_Name(self, nn):
                            if nn.id in bind and isinstance(nn.ctx, ast.Load):
                                return _loc(copy.deepcopy(bind[nn.id]), nn)
                            if nn.id in ren:
                                return ast.copy_location(ast.Name(id=ren[nn.id], ctx=nn.ctx), nn)
                            return nn
                    new_body = [S().visit(copy.deepcopy(s_)) for s_ in body if s_ is not final_ret]
                    if final_ret is not None and final_ret.value is not None:
                        val = S().visit(copy.deepcopy(final_ret.value))
                        if isinstance(st, ast.Assign):
                            new_body.append(_loc(ast.Assign(targets=st.targets, value=val), st))
                        else:
                            new_body.append(_loc(ast.Expr(value=val), st))
                    elif isinstance(st, ast.Assign):
                        new_body.append(_loc(ast.Assign(targets=st.targets, value=ast.Constant(value=None)), st))
                    stmts[i_:i_ + 1] = new_body or [ast.copy_location(ast.Pass(), st)]
                    cls.body = [m for m in cls.body if m is not callee]
                    done = True
                    break
                if done:
                    break
            if not done:
                break


def _eval_prefix_ok(stmt: ast.stmt, use: ast.Name) -> bool:
    """Is everything that `stmt` evaluates before it reads `use` free of effects, and is `use` read unconditionally, exactly
    where the statement's own evaluation reaches it (not inside a lambda / comprehension / conditional part)?"""
    from .model import set_parents  # noqa: F401  (parents are not set on the tree being rewritten: walk explicitly)
    path = []

    def find(node, trail):
        if node is use:
            path.extend(trail + [node])
            return True
        for ch in ast.iter_child_nodes(node):
            if find(ch, trail + [node]):
                return True
        return False
    if not find(stmt, []):
        return False
    for parent_, child in zip(path, path[1:]):
        if isinstance(parent_, (ast.Lambda, ast.ListComp, ast.SetComp, ast.DictComp, ast.GeneratorExp, ast.NamedExpr, ast.Dict,
                                ast.FunctionDef, ast.ClassDef, ast.Await, ast.Yield, ast.YieldFrom, ast.Starred)):
            return False
        if isinstance(parent_, ast.IfExp) and child is not parent_.test:
            return False
        if isinstance(parent_, ast.BoolOp) and child is not parent_.values[0]:
            return False
        if isinstance(parent_, ast.Compare) and len(parent_.ops) > 1 and child is not parent_.left:
            return False
        if isinstance(parent_, (ast.Assign, ast.AnnAssign)):
            if child is not parent_.value:
                return False          # the use sits in the target: evaluated after the value
            continue
        if isinstance(parent_, ast.AugAssign):
            if child is not parent_.value:
                return False
            if not _effect_free(parent_.target) or isinstance(parent_.target, ast.Subscript):
                return False
            continue
        if isinstance(parent_, (ast.Expr, ast.Return, ast.keyword, ast.FormattedValue)):
            continue
        if not isinstance(parent_, (ast.Call, ast.Attribute, ast.Subscript, ast.BinOp, ast.UnaryOp, ast.Compare, ast.BoolOp, ast.IfExp,
                                    ast.Tuple, ast.List, ast.Set, ast.JoinedStr, ast.Slice)):
            return False
        # children in field order == evaluation order for these node types
        for ch in ast.iter_child_nodes(parent_):
            if ch is child:
                break
            if isinstance(ch, (ast.expr_context, ast.operator, ast.unaryop, ast.cmpop, ast.boolop)):
                continue
            if not _effect_free(ch):
                return False
    return True


def _always_leaves(stmts: list) -> bool:
    if not stmts:
        return False
    last = stmts[-1]
    if isinstance(last, (ast.Return, ast.Raise, ast.Continue, ast.Break)):
        return True
    if isinstance(last, ast.If) and last.orelse:
        return _always_leaves(last.body) and _always_leaves(last.orelse)
    return False


def _tail_duplicate_returns(fn: ast.FunctionDef) -> None:
    """N21: `if c: A else: B` followed by the function's final `return E` becomes `if c: A; return E else: B; return E`
    (the single exit is copied into every branch that falls through; exactly one copy runs).  Together with N18 this turns the
    single-exit style `x = ..` in both branches + `return x` into a return per branch."""
    def rec(stmts: list, depth: int) -> None:
        if depth > 4 or len(stmts) < 2:
            return
        last, prev = stmts[-1], stmts[-2]
        if not (isinstance(last, ast.Return) and isinstance(prev, ast.If) and prev.orelse):
            return
        if last.value is not None and not isinstance(last.value, (ast.Name, ast.Constant, ast.Attribute, ast.Tuple)):
            return
        if _always_leaves(prev.body) and _always_leaves(prev.orelse):
            return
        for br in (prev.body, prev.orelse):
            if not _always_leaves(br):
                br.append(_loc(copy.deepcopy(last), last))
                rec(br, depth + 1)
        del stmts[-1]
    rec(fn.body, 0)


def _unnest_else_after_exit(fn: ast.FunctionDef) -> None:
    """N22: `if c: <always leaves> else: B` -> `if c: <always leaves>` followed by B"""
    changed = True
    while changed:
        changed = False
        for stmts in _own_stmt_lists(fn):
            for i, st in enumerate(stmts):
                if isinstance(st, ast.If) and st.orelse and _always_leaves(st.body) and not (
                        len(st.orelse) == 1 and isinstance(st.orelse[0], ast.If) and False):
                    tail = st.orelse
                    st.orelse = []
                    stmts[i + 1:i + 1] = tail
                    changed = True
                    break
            if changed:
                break


def _merge_extend_append_branches(fn: ast.FunctionDef) -> None:
    """N23: `if c: X.extend(a); Y.extend(b) else: X.append(a'); Y.append(b')` (same receivers in the same order, effect-free
    arguments) -> `t = c; X.extend(a if t else [a']); Y.extend(b if t else [b'])`; c is still evaluated exactly once."""
    counter = [0]

    def as_extend(st):
        """-> (receiver name, list-valued argument expr) for X.extend(E) / X.append(E) / X += E on a plain name"""
        if isinstance(st, ast.Expr) and isinstance(st.value, ast.Call) and isinstance(st.value.func, ast.Attribute) \
                and isinstance(st.value.func.value, ast.Name) and len(st.value.args) == 1 and not st.value.keywords:
            c = st.value
            if c.func.attr == "extend" and _effect_free(c.args[0]):
                return c.func.value.id, c.args[0]
            if c.func.attr == "append" and _effect_free(c.args[0]):
                return c.func.value.id, ast.List(elts=[c.args[0]], ctx=ast.Load())
        return None
    for stmts in _own_stmt_lists(fn):
        i = 0
        while i < len(stmts):
            st = stmts[i]
            if isinstance(st, ast.If) and st.orelse and len(st.body) == len(st.orelse) and 1 <= len(st.body) <= 4:
                a = [as_extend(x) for x in st.body]
                b = [as_extend(x) for x in st.orelse]
                if all(a) and all(b) and [r for r, _ in a] == [r for r, _ in b] and len({r for r, _ in a}) == len(a):
                    test = st.test
                    new = []
                    if not isinstance(test, ast.Name):
                        counter[0] += 1
                        tname = f"_disc{counter[0]}"
                        new.append(_loc(ast.Assign(targets=[ast.Name(id=tname, ctx=ast.Store())], value=test), st))
                        test = ast.Name(id=tname, ctx=ast.Load())
                    for (r, x), (_r, y) in zip(a, b):
                        call = ast.Call(func=ast.Attribute(value=ast.Name(id=r, ctx=ast.Load()), attr="extend", ctx=ast.Load()),
                                        args=[ast.IfExp(test=copy.deepcopy(test), body=x, orelse=y)], keywords=[])
                        new.append(_loc(ast.Expr(value=call), st))
                    stmts[i:i + 1] = new
                    i += len(new)
                    continue
            i += 1


def _eval_prefix_ok_comp(stmt: ast.stmt, use: ast.Name) -> bool:
    """like _eval_prefix_ok, but the use may also be the *iterable of the first generator* of a comprehension that the
    statement evaluates unconditionally (that iterable is evaluated when the comprehension is, before anything in it)"""
    if _eval_prefix_ok(stmt, use):
        return True
    for n in ast.walk(stmt):
        if isinstance(n, (ast.ListComp, ast.GeneratorExp, ast.SetComp)) and n.generators and n.generators[0].iter is use:
            # the comprehension's own position in the statement decides
            return _eval_prefix_ok_node(stmt, n)
    return False


def _eval_prefix_ok_node(stmt: ast.stmt, node: ast.AST) -> bool:
    """_eval_prefix_ok for an arbitrary expression node of the statement"""
    path = []

    def find(cur, trail):
        if cur is node:
            path.extend(trail + [cur])
            return True
        for ch in ast.iter_child_nodes(cur):
            if find(ch, trail + [cur]):
                return True
        return False
    if not find(stmt, []):
        return False
    for parent_, child in zip(path, path[1:]):
        if isinstance(parent_, (ast.Lambda, ast.ListComp, ast.SetComp, ast.DictComp, ast.GeneratorExp, ast.NamedExpr, ast.Dict,
                                ast.IfExp, ast.BoolOp, ast.Starred)):
            return False
        if isinstance(parent_, (ast.Assign, ast.AnnAssign)):
            if child is not parent_.value:
                return False
            continue
        if isinstance(parent_, (ast.Expr, ast.Return, ast.keyword)):
            continue
        if not isinstance(parent_, (ast.Call, ast.Attribute, ast.Subscript, ast.BinOp, ast.Tuple, ast.List)):
            return False
        for ch in ast.iter_child_nodes(parent_):
            if ch is child:
                break
            if isinstance(ch, (ast.expr_context, ast.operator, ast.unaryop, ast.cmpop, ast.boolop)):
                continue
            if not _effect_free(ch):
                return False
    return True


def _fuse_unpack_through_temporaries(fn: ast.FunctionDef) -> None:
    """N28: `a, b = E` followed by `T1 = a`, `T2 = b` (in that order; a and b are bound once and read only there) is
    `T1, T2 = E`: E is evaluated once, the targets are stored in the same order."""
    stores, loads = {}, {}
    for n in ast.walk(fn):
        if isinstance(n, ast.Name):
            d = stores if isinstance(n.ctx, (ast.Store, ast.Del)) else loads
            d[n.id] = d.get(n.id, 0) + 1
    # candidate sites: (statement list, index, names)
    sites = []
    for stmts in _own_stmt_lists(fn):
        for i, st in enumerate(stmts):
            if isinstance(st, ast.Assign) and len(st.targets) == 1 and isinstance(st.targets[0], (ast.Tuple, ast.List)) \
                    and all(isinstance(x, ast.Name) for x in st.targets[0].elts) and len(st.targets[0].elts) >= 2:
                names = [x.id for x in st.targets[0].elts]
                k = len(names)
                nxt = stmts[i + 1:i + 1 + k]
                if len(set(names)) == k and len(nxt) == k \
                        and all(isinstance(x, ast.Assign) and len(x.targets) == 1 and isinstance(x.value, ast.Name) and x.value.id == nm
                                and nm not in _names(x.targets[0]) for x, nm in zip(nxt, names)):
                    sites.append((stmts, st, names))
    per_name = {}
    for (_l, _s, names) in sites:
        for nm in names:
            per_name[nm] = per_name.get(nm, 0) + 1
    # every binding of the temporaries is such a site and every read is the adjacent one
    good = {nm for nm, c in per_name.items() if stores.get(nm, 0) == c and loads.get(nm, 0) == c}
    for (stmts, st, names) in sites:
        if not all(nm in good for nm in names):
            continue
        i = next(j for j, x in enumerate(stmts) if x is st)
        k = len(names)
        nxt = stmts[i + 1:i + 1 + k]
        new_t = ast.Tuple(elts=[x.targets[0] for x in nxt], ctx=ast.Store())
        stmts[i:i + 1 + k] = [_loc(ast.Assign(targets=[new_t], value=st.value), st)]


def _forward_substitute(fn: ast.FunctionDef) -> None:
    """N18: a local bound once to any expression and read exactly once, by the very next simple statement, at a point that
    statement reaches before anything with an effect, is substituted there (`snap = Population(..); hist.append(snap)` ->
    `hist.append(Population(..))`).  The order of evaluation and the number of evaluations are unchanged."""
    stores, loads = {}, {}
    for n in ast.walk(fn):
        if isinstance(n, ast.Name):
            d = stores if isinstance(n.ctx, (ast.Store, ast.Del)) else loads
            d[n.id] = d.get(n.id, 0) + 1
    params = {a.arg for a in fn.args.args + fn.args.kwonlyargs + fn.args.posonlyargs}
    if fn.args.vararg:
        params.add(fn.args.vararg.arg)
    if fn.args.kwarg:
        params.add(fn.args.kwarg.arg)
    changed = True
    rounds = 0
    while changed and rounds < 20:
        changed = False
        rounds += 1
        for stmts in _own_stmt_lists(fn):
            i = 0
            while i + 1 < len(stmts):
                st, nxt = stmts[i], stmts[i + 1]
                tgt = val = None
                if isinstance(st, ast.Assign) and len(st.targets) == 1 and isinstance(st.targets[0], ast.Name):
                    tgt, val = st.targets[0].id, st.value
                elif isinstance(st, ast.AnnAssign) and isinstance(st.target, ast.Name) and st.value is not None:
                    tgt, val = st.target.id, st.value
                single = stores.get(tgt, 0) == 1 and loads.get(tgt, 0) == 1
                # N18c: a value created once and consumed once on each of two exclusive paths chosen by an effect-free test:
                #   x = E; if c: <uses x first>; ..leave..   <uses x first>      (or if/else)
                if tgt is not None and tgt not in params and stores.get(tgt, 0) == 1 and loads.get(tgt, 0) == 2 \
                        and isinstance(nxt, ast.If) and _effect_free(nxt.test) and tgt not in _names(nxt.test) and nxt.body \
                        and not isinstance(val, (ast.Lambda, ast.Yield, ast.YieldFrom, ast.Await, ast.NamedExpr, ast.Starred)) \
                        and not any(isinstance(c_, (ast.Lambda, ast.FunctionDef)) and tgt in _names(c_) for c_ in ast.walk(fn) if c_ is not fn):
                    first_a = nxt.body[0]
                    if nxt.orelse:
                        first_b, b_list, b_idx = nxt.orelse[0], nxt.orelse, 0
                    elif _always_leaves(nxt.body) and i + 2 < len(stmts):
                        first_b, b_list, b_idx = stmts[i + 2], stmts, i + 2
                    else:
                        first_b = None
                    if first_b is not None:
                        ua = [x for x in ast.walk(first_a) if isinstance(x, ast.Name) and x.id == tgt and isinstance(x.ctx, ast.Load)]
                        ub = [x for x in ast.walk(first_b) if isinstance(x, ast.Name) and x.id == tgt and isinstance(x.ctx, ast.Load)]

                        def _inner_first(stmt_):
                            # the use may sit in the first statement of a with-block that opens the path (N18b's condition)
                            return stmt_
                        def _ok(stmt_, u_):
                            if isinstance(stmt_, (ast.Expr, ast.Assign, ast.AugAssign, ast.Return)):
                                return _eval_prefix_ok_comp(stmt_, u_)
                            if isinstance(stmt_, ast.With) and stmt_.body and all(
                                    isinstance(it_.context_expr, ast.Call) and isinstance(it_.context_expr.func, ast.Name)
                                    and all(_arg_ok(a_) for a_ in it_.context_expr.args) and not it_.context_expr.keywords
                                    and tgt not in _names(it_.context_expr) for it_ in stmt_.items):
                                vr = _roots(val)
                                for it_ in stmt_.items:
                                    for a_ in it_.context_expr.args:
                                        if any(r_ in vr or any(v_.startswith(r_ + ".") for v_ in vr) for r_ in _roots(a_) if r_ != "self"):
                                            return False
                                f0 = stmt_.body[0]
                                return isinstance(f0, (ast.Expr, ast.Assign, ast.AugAssign, ast.Return)) and any(x is u_ for x in ast.walk(f0)) \
                                    and _eval_prefix_ok_comp(f0, u_)
                            return False
                        if len(ua) == 1 and len(ub) == 1 and _ok(first_a, ua[0]) and _ok(first_b, ub[0]):
                            targets_ = {id(ua[0]), id(ub[0])}

                            class S3(ast.NodeTransformer):
                                def visit_Name(self, nn):
                                    if id(nn) in targets_:
                                        return _loc(copy.deepcopy(val), nn)
                                    return nn
                            nxt.body[0] = S3().visit(first_a)
                            b_list[b_idx] = S3().visit(first_b)
                            del stmts[i]
                            loads[tgt] = 0
                            changed = True
                            continue
                # N18b: the next statement is `with f(<scalars>) as e:` whose context call cannot reach what `val` reads (a plain
                # function given attribute values / names with other roots), and the single use is in the first statement of
                # its body: substitute there
                if tgt is not None and tgt not in params and single and isinstance(nxt, ast.With) and nxt.body and \
                        not isinstance(val, (ast.Lambda, ast.Yield, ast.YieldFrom, ast.Await, ast.NamedExpr, ast.Starred)):
                    vroots = _roots(val)
                    ok_items = True
                    for it_ in nxt.items:
                        c_ = it_.context_expr
                        if not (isinstance(c_, ast.Call) and isinstance(c_.func, ast.Name) and not c_.keywords
                                and all(_arg_ok(a_) for a_ in c_.args)):
                            ok_items = False
                            break
                        for a_ in c_.args:
                            ar = _roots(a_)
                            if "self" in {ast.unparse(a_)} or any(r_ in vroots or any(v_.startswith(r_ + ".") for v_ in vroots) for r_ in ar if r_ != "self"):
                                ok_items = False
                        if tgt in _names(c_):
                            ok_items = False
                    first = nxt.body[0]
                    if ok_items and isinstance(first, (ast.Expr, ast.Assign, ast.AugAssign, ast.Return)):
                        uses = [x for x in ast.walk(nxt) if isinstance(x, ast.Name) and x.id == tgt and isinstance(x.ctx, ast.Load)]
                        if len(uses) == 1 and any(u_ is uses[0] for u_ in ast.walk(first)) and _eval_prefix_ok_comp(first, uses[0]):
                            use = uses[0]

                            class S2(ast.NodeTransformer):
                                def visit_Name(self, nn):
                                    if nn is use:
                                        return _loc(copy.deepcopy(val), nn)
                                    return nn
                            nxt.body[0] = S2().visit(first)
                            del stmts[i]
                            loads[tgt] = 0
                            changed = True
                            continue
                # `x = E; return x`: nothing can read x afterwards, whatever other bindings of x exist elsewhere
                into_return = isinstance(nxt, ast.Return) and tgt is not None and not any(
                    isinstance(c_, (ast.Lambda, ast.FunctionDef)) and tgt in _names(c_) for c_ in ast.walk(fn) if c_ is not fn)
                if tgt is None or tgt in params or not (single or into_return) or \
                        isinstance(val, (ast.Lambda, ast.Yield, ast.YieldFrom, ast.Await, ast.NamedExpr, ast.Starred)) or \
                        not isinstance(nxt, (ast.Expr, ast.Assign, ast.AugAssign, ast.AnnAssign, ast.Return)):
                    i += 1
                    continue
                uses = [x for x in ast.walk(nxt) if isinstance(x, ast.Name) and x.id == tgt and isinstance(x.ctx, ast.Load)]
                if len(uses) != 1 or not _eval_prefix_ok(nxt, uses[0]):
                    i += 1
                    continue
                use = uses[0]

                class S(ast.NodeTransformer):
                    def visit_Name(self, nn):
                        if nn is use:
                            return _loc(copy.deepcopy(val), nn)
                        return nn
                stmts[i + 1] = S().visit(nxt)
                del stmts[i]
                loads[tgt] = 0
                changed = True
    ast.fix_missing_locations(fn)


def _own_stmt_lists(fn):
    """every statement list of fn's own body (not of nested function / class definitions)"""
    out = []

    def rec(stmts):
        out.append(stmts)
        for st in stmts:
            if isinstance(st, (ast.FunctionDef, ast.AsyncFunctionDef, ast.ClassDef)):
                continue
            for f in ("body", "orelse", "finalbody"):
                bb = getattr(st, f, None)
                if isinstance(bb, list) and bb and isinstance(bb[0], ast.stmt):
                    rec(bb)
            for h in getattr(st, "handlers", []) or []:
                rec(h.body)
            for c in getattr(st, "cases", []) or []:
                rec(c.body)
    rec(fn.body)
    return out


def _with_chain(body: list):
    cur = body
    while cur and isinstance(cur[-1], ast.With):
        yield cur[-1]
        cur = cur[-1].body


def _splice_call(caller, stmts, i_, st, call, callee, is_method) -> bool:
    """N17: replace the statement `st` (an expression statement, a single-target assignment or a return whose value is the
    call) by the callee's body: arguments are bound to the parameters in evaluation order (substituted when they are plain
    names / attribute chains / constants and the parameter is never rebound, else through a fresh local), callee locals are
    renamed when they clash with the caller's names.  A callee with early returns is spliced only into `return f(..)`."""
    a = callee.args
    if a.vararg or a.kwarg or a.posonlyargs:
        return False
    if is_method and (not a.args or a.args[0].arg != "self"):
        return False
    body = [s_ for s_ in callee.body if not (isinstance(s_, ast.Expr) and isinstance(s_.value, ast.Constant))]
    if not body:
        return False
    inner = [x for s_ in body for x in ast.walk(s_)]
    if any(isinstance(x, (ast.Yield, ast.YieldFrom, ast.Await, ast.Nonlocal, ast.Global, ast.FunctionDef, ast.AsyncFunctionDef,
                          ast.ClassDef, ast.Lambda, ast.Try)) for x in inner):
        return False
    if any(isinstance(x, ast.Name) and x.id in ("super", "locals", "vars", "globals", "__class__") for x in inner):
        return False
    rets = [x for x in inner if isinstance(x, ast.Return)]
    # the tail return: the last statement, possibly at the end of (nested) `with` blocks that end the body
    tail_list = body
    while tail_list and isinstance(tail_list[-1], ast.With):
        tail_list = tail_list[-1].body
    in_with = tail_list is not body
    final_ret = tail_list[-1] if tail_list and isinstance(tail_list[-1], ast.Return) else None
    if any(isinstance(x, ast.With) for x in inner) and not (in_with and all(r is final_ret for r in rets)
                                                            and sum(1 for x in inner if isinstance(x, ast.With)) ==
                                                            sum(1 for _ in _with_chain(body))):
        return False            # `with` only as the chain that ends the body and holds the single return
    early = [r for r in rets if r is not final_ret]
    if early and not isinstance(st, ast.Return):
        return False
    if early and any(isinstance(x, (ast.For, ast.While)) and any(isinstance(y, ast.Return) for y in ast.walk(x)) for x in inner):
        pass        # a return inside a loop is still a return of the caller when spliced into `return f(..)`
    pos = [x.arg for x in a.args[(1 if is_method else 0):]]
    params = pos + [x.arg for x in a.kwonlyargs]
    defaults = dict(zip(pos[len(pos) - len(a.defaults):], a.defaults)) if a.defaults else {}
    for x, d in zip(a.kwonlyargs, a.kw_defaults):
        if d is not None:
            defaults[x.arg] = d
    if len(call.args) > len(pos) or any(isinstance(z, ast.Starred) for z in call.args):
        return False
    bind = []          # in evaluation order
    seen = set()
    for p_, v_ in zip(pos, call.args):
        bind.append((p_, v_)); seen.add(p_)
    for k in call.keywords:
        if k.arg is None or k.arg not in params or k.arg in seen:
            return False
        bind.append((k.arg, k.value)); seen.add(k.arg)
    for p_ in params:
        if p_ not in seen:
            if p_ not in defaults or not isinstance(defaults[p_], ast.Constant):
                return False
            bind.append((p_, defaults[p_]))
    stored = {x.id for x in inner if isinstance(x, ast.Name) and isinstance(x.ctx, (ast.Store, ast.Del))}
    caller_names = {x.id for x in ast.walk(caller) if isinstance(x, ast.Name)} | {x.arg for x in caller.args.args + caller.args.kwonlyargs}
    tag = callee.name.strip("_") or "h"
    subst, pre, ren = {}, [], {}
    impure_seen = False
    for p_, v_ in bind:
        simple = _arg_ok(v_) and p_ not in stored
        if simple and not impure_seen:
            subst[p_] = v_
        else:
            fresh = f"{p_}__{tag}" if (p_ in caller_names) else p_
            while fresh in caller_names and fresh != p_:
                fresh += "_"
            ren[p_] = fresh
            pre.append(_loc(ast.Assign(targets=[ast.Name(id=fresh, ctx=ast.Store())], value=copy.deepcopy(v_)), st))
            if not _effect_free(v_):
                impure_seen = True
    for n_ in stored:
        if n_ not in ren and n_ not in subst and n_ in caller_names:
            fresh = f"{n_}__{tag}"
            while fresh in caller_names:
                fresh += "_"
            ren[n_] = fresh
    # a substituted argument must not be changed by the callee body before its last use: only names/attribute chains that the
    # body does not store to
    body_attr_stores = {ast.unparse(x) for x in inner if isinstance(x, ast.Attribute) and isinstance(x.ctx, (ast.Store, ast.Del))}
    for p_, v_ in list(subst.items()):
        txt = ast.unparse(v_)
        if any(txt == b or b.startswith(txt + ".") or txt.startswith(b + ".") for b in body_attr_stores) or \
                (isinstance(v_, ast.Name) and v_.id in stored):
            fresh = f"{p_}__{tag}" if p_ in caller_names else p_
            ren[p_] = fresh
            pre.append(_loc(ast.Assign(targets=[ast.Name(id=fresh, ctx=ast.Store())], value=copy.deepcopy(v_)), st))
            del subst[p_]

    class S(ast.NodeTransformer):
        def visit_Name(self, nn):
            if nn.id in subst and isinstance(nn.ctx, ast.Load):
                return _loc(copy.deepcopy(subst[nn.id]), nn)
            if nn.id in ren:
                return ast.copy_location(ast.Name(id=ren[nn.id], ctx=nn.ctx), nn)
            return nn
    new_body = list(pre)
    if isinstance(st, ast.Return):
        new_body += [S().visit(copy.deepcopy(s_)) for s_ in body]
        if final_ret is None:
            new_body.append(_loc(ast.Return(value=ast.Constant(value=None)), st))
    elif in_with and final_ret is not None:
        copied = [S().visit(copy.deepcopy(s_)) for s_ in body]
        cur = copied
        while cur and isinstance(cur[-1], ast.With):
            cur = cur[-1].body
        r_ = cur[-1]
        if r_.value is None:
            repl = [_loc(ast.Assign(targets=st.targets, value=ast.Constant(value=None)), st)] if isinstance(st, ast.Assign) else []
        elif isinstance(st, ast.Assign):
            repl = [_loc(ast.Assign(targets=st.targets, value=r_.value), st)]
        else:
            repl = [_loc(ast.Expr(value=r_.value), st)]
        cur[-1:] = repl or [ast.copy_location(ast.Pass(), st)]
        new_body += copied
        final_ret = None
    else:
        new_body += [S().visit(copy.deepcopy(s_)) for s_ in body if s_ is not final_ret]
        if final_ret is not None and final_ret.value is not None:
            val = S().visit(copy.deepcopy(final_ret.value))
            if isinstance(st, ast.Assign):
                new_body.append(_loc(ast.Assign(targets=st.targets, value=val), st))
            elif not _effect_free(val):
                new_body.append(_loc(ast.Expr(value=val), st))
        elif isinstance(st, ast.Assign):
            new_body.append(_loc(ast.Assign(targets=st.targets, value=ast.Constant(value=None)), st))
    for nb in new_body:
        # every spliced node takes the position of the call statement: positions from the callee's own lines would put the
        # code "before" or "after" the caller's statements at random
        for x in ast.walk(nb):
            if isinstance(x, (ast.expr, ast.stmt, ast.arg, ast.keyword, ast.withitem, ast.comprehension, ast.excepthandler)) \
                    and not isinstance(x, (ast.withitem, ast.comprehension)):
                x.lineno, x.col_offset = st.lineno, st.col_offset
                x.end_lineno, x.end_col_offset = getattr(st, "end_lineno", st.lineno), getattr(st, "end_col_offset", st.col_offset)
        ast.fix_missing_locations(nb)
    stmts[i_:i_ + 1] = new_body or [ast.copy_location(ast.Pass(), st)]
    return True


def _splice_helpers(t: ast.Module) -> None:
    """N17 driver: private module-level functions and private non-anchor methods that are only ever *called* (at statement
    level: `f(..)`, `x = f(..)`, `return f(..)`) at most four times are spliced into their callers and removed."""
    MAX_USES = 4

    def stmt_call(st):
        if isinstance(st, ast.Expr) and isinstance(st.value, ast.Call):
            return st.value
        if isinstance(st, ast.Assign) and len(st.targets) == 1 and isinstance(st.value, ast.Call):
            return st.value
        if isinstance(st, ast.Return) and isinstance(st.value, ast.Call):
            return st.value
        return None

    for _round in range(6):
        changed = False
        # ---- module-level private functions
        funcs = {st.name: st for st in t.body if isinstance(st, ast.FunctionDef) and st.name.startswith("_")
                 and not st.name.startswith("__") and not st.decorator_list}
        for name, callee in list(funcs.items()):
            refs = [n for n in ast.walk(t) if isinstance(n, ast.Name) and n.id == name and isinstance(n.ctx, ast.Load)]
            if not refs or len(refs) > MAX_USES:
                continue
            if any(isinstance(n, ast.Name) and n.id == name for n in ast.walk(callee) if n is not callee):
                continue        # recursive
            sites = []
            for fn in [n for n in ast.walk(t) if isinstance(n, ast.FunctionDef) and n is not callee]:
                for stmts in _own_stmt_lists(fn):
                    for i_, st in enumerate(stmts):
                        c = stmt_call(st)
                        if c is not None and isinstance(c.func, ast.Name) and c.func.id == name and c.func in refs:
                            sites.append((fn, stmts, st, c))
            if len(sites) != len(refs):
                continue        # referenced as a value or inside an expression somewhere
            ok_all = True
            for (fn, stmts, st, c) in sites:
                i_ = stmts.index(st)
                if not _splice_call(fn, stmts, i_, st, c, callee, False):
                    ok_all = False
                    break
            if ok_all:
                t.body = [x for x in t.body if x is not callee]
            changed = changed or bool(sites)
            if changed:
                break
        if changed:
            continue
        # ---- private methods
        for cls in [n for n in t.body if isinstance(n, ast.ClassDef)]:
            methods = {m.name: m for m in cls.body if isinstance(m, ast.FunctionDef)}
            for name, callee in methods.items():
                if not name.startswith("_") or callee.decorator_list or name in ANCHOR_METHODS or name in MULTI_DEF or \
                        (name.startswith("__") and name.endswith("__") and name[2:-2] in _DUNDERS):
                    continue
                refs = [n for n in ast.walk(t) if isinstance(n, ast.Attribute) and n.attr == name]
                if not refs or len(refs) > MAX_USES:
                    continue
                if any(not (isinstance(r.value, ast.Name) and r.value.id == "self") for r in refs):
                    continue
                if any(r in set(ast.walk(callee)) for r in refs):
                    continue    # recursive
                # overridden / defined in a subclass elsewhere in the module: leave alone
                if sum(1 for c2 in t.body if isinstance(c2, ast.ClassDef) for m in c2.body
                       if isinstance(m, ast.FunctionDef) and m.name == name) != 1:
                    continue
                sites = []
                for fn in [m for m in methods.values() if m is not callee]:
                    for stmts in _own_stmt_lists(fn):
                        for st in stmts:
                            c = stmt_call(st)
                            if c is not None and c.func in refs:
                                sites.append((fn, stmts, st, c))
                if len(sites) != len(refs):
                    continue
                ok_all = True
                for (fn, stmts, st, c) in sites:
                    if not _splice_call(fn, stmts, stmts.index(st), st, c, callee, True):
                        ok_all = False
                        break
                if ok_all:
                    cls.body = [m for m in cls.body if m is not callee]
                changed = changed or bool(sites)
                if changed:
                    break
            if changed:
                break
        if not changed:
            break


def _list_iadd_to_append(t: ast.Module) -> None:
    """N27: `X += [v]` where X is a local of the function whose every binding is a list display / list comprehension / list(..)
    call is `X.append(v)` (a list's in-place add of a one-element list)."""
    for fn in [n for n in ast.walk(t) if isinstance(n, (ast.FunctionDef, ast.AsyncFunctionDef))]:
        binds: dict = {}
        params = {a.arg for a in fn.args.posonlyargs + fn.args.args + fn.args.kwonlyargs}
        for n in ast.walk(fn):
            if isinstance(n, ast.Assign):
                for tg in n.targets:
                    if isinstance(tg, ast.Name):
                        binds.setdefault(tg.id, []).append(n.value)
                    else:
                        for x in ast.walk(tg):
                            if isinstance(x, ast.Name):
                                binds.setdefault(x.id, []).append(None)
            elif isinstance(n, (ast.For, ast.With, ast.comprehension, ast.NamedExpr)):
                tgt = getattr(n, "target", None)
                for x in (ast.walk(tgt) if tgt is not None else []):
                    if isinstance(x, ast.Name):
                        binds.setdefault(x.id, []).append(None)

        def is_list(v):
            return isinstance(v, (ast.List, ast.ListComp)) or (
                isinstance(v, ast.Call) and isinstance(v.func, ast.Name) and v.func.id == "list")
        lists = {k for k, vs in binds.items() if k not in params and vs and all(v is not None and is_list(v) for v in vs)}
        if not lists:
            continue
        for stmts in _own_stmt_lists(fn):
            for i, st in enumerate(stmts):
                if isinstance(st, ast.AugAssign) and isinstance(st.op, ast.Add) and isinstance(st.target, ast.Name) \
                        and st.target.id in lists and isinstance(st.value, ast.List) and len(st.value.elts) == 1 \
                        and not isinstance(st.value.elts[0], ast.Starred):
                    call = ast.Call(func=ast.Attribute(value=ast.Name(id=st.target.id, ctx=ast.Load()), attr="append", ctx=ast.Load()),
                                    args=[st.value.elts[0]], keywords=[])
                    stmts[i] = _loc(ast.Expr(value=call), st)


_LEN_CHANGERS = {"append", "extend", "insert", "pop", "remove", "clear", "sort", "reverse"}


def _zip_range_to_enumerate(t: ast.Module) -> None:
    """N29: `for i, x in zip(range(len(X)), X)` -> `for i, x in enumerate(X)` (loops and comprehensions; X a plain name or an
    attribute chain that the loop body neither rebinds nor resizes - zip would stop at the length read up front)"""
    def plain(e):
        while isinstance(e, ast.Attribute):
            e = e.value
        return isinstance(e, ast.Name)

    def rewrite(it, scope_nodes):
        if not (isinstance(it, ast.Call) and isinstance(it.func, ast.Name) and it.func.id == "zip" and len(it.args) == 2 and not it.keywords):
            return None
        r, x = it.args
        if not (plain(x) and isinstance(r, ast.Call) and isinstance(r.func, ast.Name) and r.func.id == "range" and not r.keywords):
            return None
        if len(r.args) == 2 and isinstance(r.args[0], ast.Constant) and r.args[0].value == 0:
            n_ = r.args[1]
        elif len(r.args) == 1:
            n_ = r.args[0]
        else:
            return None
        if not (isinstance(n_, ast.Call) and isinstance(n_.func, ast.Name) and n_.func.id == "len" and len(n_.args) == 1
                and ast.dump(n_.args[0]) == ast.dump(x)):
            return None
        xs = ast.unparse(x)
        for b in scope_nodes:
            for m in ast.walk(b):
                if isinstance(m, ast.Call) and isinstance(m.func, ast.Attribute) and m.func.attr in _LEN_CHANGERS \
                        and ast.unparse(m.func.value) == xs:
                    return None
                if isinstance(m, (ast.Name, ast.Attribute)) and isinstance(getattr(m, "ctx", None), (ast.Store, ast.Del)) \
                        and ast.unparse(m) == xs:
                    return None
                if isinstance(m, ast.Delete) and any(isinstance(d, ast.Subscript) and ast.unparse(d.value) == xs for d in m.targets):
                    return None
                if isinstance(m, ast.AugAssign) and ast.unparse(m.target) == xs:
                    return None
        return _loc(ast.Call(func=ast.Name(id="enumerate", ctx=ast.Load()), args=[x], keywords=[]), it)

    if SHADOWED_BUILTINS & {"enumerate", "zip", "range", "len"}:
        return
    for n in ast.walk(t):
        if isinstance(n, ast.For):
            new = rewrite(n.iter, n.body)
            if new is not None:
                n.iter = new
        elif isinstance(n, (ast.ListComp, ast.GeneratorExp, ast.SetComp, ast.DictComp)) and len(n.generators) == 1:
            new = rewrite(n.generators[0].iter, [n])
            if new is not None:
                n.generators[0].iter = new


def _dict_update_to_store(t: ast.Module) -> None:
    """N31: `D.update(k=v)` as a statement, D the function's **kwargs parameter or a local bound to a dict display ->
    `D["k"] = v` (one keyword, no positional argument)"""
    for fn in ast.walk(t):
        if not isinstance(fn, (ast.FunctionDef, ast.AsyncFunctionDef)):
            continue
        dicts = set()
        if fn.args.kwarg is not None:
            dicts.add(fn.args.kwarg.arg)
        binds = {}
        for n in ast.walk(fn):
            if isinstance(n, ast.Name) and isinstance(n.ctx, ast.Store):
                binds.setdefault(n.id, []).append(n)
        for n in ast.walk(fn):
            if isinstance(n, ast.Assign) and len(n.targets) == 1 and isinstance(n.targets[0], ast.Name) \
                    and isinstance(n.value, ast.Dict) and len(binds.get(n.targets[0].id, [])) == 1:
                dicts.add(n.targets[0].id)
        for name in list(dicts):
            if name in (fn.args.kwarg.arg if fn.args.kwarg else None,) and binds.get(name):
                dicts.discard(name)          # the **kwargs name is rebound somewhere
        for holder in ast.walk(fn):
            for fld in ("body", "orelse", "finalbody"):
                seq = getattr(holder, fld, None)
                if not (isinstance(seq, list) and seq and isinstance(seq[0], ast.stmt)):
                    continue
                for i, st in enumerate(seq):
                    if isinstance(st, ast.Expr) and isinstance(st.value, ast.Call) and isinstance(st.value.func, ast.Attribute) \
                            and st.value.func.attr == "update" and isinstance(st.value.func.value, ast.Name) \
                            and st.value.func.value.id in dicts and not st.value.args and len(st.value.keywords) == 1 \
                            and st.value.keywords[0].arg is not None:
                        k = st.value.keywords[0]
                        tgt = ast.Subscript(value=ast.Name(id=st.value.func.value.id, ctx=ast.Load()), slice=ast.Constant(value=k.arg), ctx=ast.Store())
                        seq[i] = _loc(ast.Assign(targets=[tgt], value=k.value), st)


def _drop_local_annotations(t: ast.Module) -> None:
    """N20: inside function bodies `x: T = v` / `self.a: T = v` is `x = v` / `self.a = v` (class-level annotated assignments
    are model fields and are left alone)."""
    for fn in [n for n in ast.walk(t) if isinstance(n, (ast.FunctionDef, ast.AsyncFunctionDef))]:
        for stmts in _own_stmt_lists(fn):
            for i, st in enumerate(stmts):
                if isinstance(st, ast.AnnAssign) and st.value is not None and isinstance(st.target, (ast.Name, ast.Attribute)):
                    stmts[i] = _loc(ast.Assign(targets=[st.target], value=st.value), st)


def normalize_module(tree: ast.Module) -> ast.Module:
    """Returns a canonicalised deep copy of the module tree."""
    t = copy.deepcopy(tree)
    SHADOWED_BUILTINS.clear()
    for n in ast.walk(t):
        if isinstance(n, ast.Name) and isinstance(n.ctx, ast.Store) and n.id in ("list", "enumerate", "zip", "range", "len", "dict"):
            SHADOWED_BUILTINS.add(n.id)
        elif isinstance(n, (ast.FunctionDef, ast.ClassDef)) and n.name in ("list", "enumerate", "zip", "range", "len", "dict"):
            SHADOWED_BUILTINS.add(n.name)
        elif isinstance(n, ast.arg) and n.arg in ("list", "enumerate", "zip", "range", "len", "dict"):
            SHADOWED_BUILTINS.add(n.arg)
        elif isinstance(n, ast.alias) and (n.asname or n.name) in ("list", "enumerate", "zip", "range", "len", "dict"):
            SHADOWED_BUILTINS.add(n.asname or n.name)
    _drop_local_annotations(t)
    _list_iadd_to_append(t)
    _zip_range_to_enumerate(t)
    _dict_update_to_store(t)
    t = _Expr().visit(t)
    if isinstance(t, ast.Module):
        _inline_private_helpers(t)
        _inline_single_use_methods(t)
        if not os.environ.get("PVLINT_NO_SPLICE"):
            _splice_helpers(t)
    for n in ast.walk(t):
        if isinstance(n, ast.FunctionDef):
            _inline_closures(n)
    t = _Stmt().visit(t)
    if isinstance(t, ast.Module):
        t.body = _rewrite_block(t.body)
    for n in ast.walk(t):
        if isinstance(n, ast.FunctionDef):
            _copy_propagate(n)
    if not os.environ.get("PVLINT_NO_FWD"):
        for n in ast.walk(t):
            if isinstance(n, ast.FunctionDef):
                _tail_duplicate_returns(n)
                _unnest_else_after_exit(n)
                _merge_extend_append_branches(n)
                _fuse_unpack_through_temporaries(n)
                _forward_substitute(n)
    t = _Stmt().visit(t)       # forms exposed by propagation (default-then-override etc.)
    t = _Expr().visit(t)       # map idioms exposed by inlining
    ast.fix_missing_locations(t)
    return t
