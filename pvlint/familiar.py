"""Safety net for shape rules (DESIGN.md 7.1): is an anchor function still *familiar*?

Every shape rule was confirmed by reading on one tree.  reference_calls.json (tools/gen_reference.py) records, for every
function of the six core modules on that tree and after normalisation, its *vocabulary*: the package helpers it calls or
names, the restructuring idioms it uses (map / partial / attrgetter / reduce / generators / lambdas / match / walrus / starred
displays ...).  A function is *unfamiliar* when its current vocabulary contains something its reference vocabulary did not -
i.e. it has been restructured with constructs on which the matcher was never confirmed - or when a core function it calls
(transitively, bounded) is unfamiliar.  A finding of a *shape* rule located in an unfamiliar function is withheld: the check
answers "undecided" (exit 2) instead of VIOLATION.  Site-positive rules (a forbidden store, source, reference, construction,
in-place mutation) are never withheld.  The table only ever *removes* verdicts; it never produces one, so an edit that leaves
behaviour unchanged cannot fire through it."""
from __future__ import annotations

import ast
import json
import os
from typing import Optional

from .model import PKG, Program, dotted

CORE = ("abstract", "models", "helpers", "utils", "hypertuner", "multitask")
_REF: Optional[dict] = None

# Shape rules: pattern matchers over one confirmed code shape.  Only their findings are subject to the net.  Everything else
# is either a site rule (a forbidden store / source / reference / construction is a fact about the program whatever the
# surrounding shape) or the verdict of an interpreter that refuses (exit 2) what it does not model: SGN (sign evaluator),
# ORD (order/window interpreter), FRM (rejection and stop formulas with plain atoms only), LEN, the C08 run walk.
# The list was fixed by replaying the 53 behaviour-preserving refactorings of seeded_benign/ with the net disabled: every
# rule that fired on one of them is a matcher and is listed; the rules not listed stayed silent on all of them.
NET_APPLIES = {
    "root-unique", "root-pairing", "root-position-corrected", "root-evaluates-once", "root-cost", "root-fitness",
    "greedy-population-pairing", "greedy-population-sorted", "greedy-shape", "weight-count-mismatch-rejected", "negative-weights-rejected", "entry-guard",
    "valueerror-only", "list-or-float-arithmetic", "rate-value", "diff-value", "stop-on-current-rate", "one-rate-per-cycle",
    "same-count-as-serial", "gather-exactly-once", "one-future-per-item", "pool-hand-off", "generate-agents-exact",
    "init-population-size", "forwarding", "modes-validated-at-construction", "same-row", "winner-is-min-rank",
    "primary-key-is-mean", "n-trials", "cost-per-trial-column", "grid-loop", "params-before-trials", "row-records-point",
    "polarity", "replace-and-trim", "extend-and-trim", "PKG-result", "PKG-optimize", "transform-solution", "task-get-bounds",
    "same-discriminator", "dimension-is-sum-of-sizes", "shape-agrees-with-discriminator", "delegation",
    "children-built-from-measured-sequence", "correct-own-bounds", "bounds", "randomize-domain", "no-other-exit", "loop-order",
    "loop-structure", "break-iff-stop", "counter-increment", "initial-snapshot", "one-error-check", "fcn-only-in-init-agent",
    "initial-solution", "initial-solution-corrects", "solve-corrects-first", "solve-evaluates", "solve", "correct-solution-shape",
    "execute-complete", "execute-own-pair-and-mode", "one-table-per-algorithm", "export-each-algorithm",
    "export-path-not-loop-carried", "run-returns-best", "resolve", "stale-best", "best-of-live-population", "internal-direction",
    "no-positional-use-of-gathered-results", "rates-only-under-optional-criteria", "submitted-callable-shape", "config-test-first", "configuration-property",
    "no-generator-to-deepcopy",
}


def subject_to_net(rule: str) -> bool:
    tail = rule.split(".", 1)[1] if "." in rule else rule
    for pre in ("domain.", "chain."):
        if tail.startswith(pre):
            tail = tail[len(pre):]
    # R<k>-<name>  ->  <name>
    if len(tail) > 2 and tail[0] == "R" and tail[1].isdigit() and "-" in tail:
        tail = tail.split("-", 1)[1]
    return tail in NET_APPLIES


_STRUCT = (ast.Match, ast.NamedExpr, ast.Lambda, ast.GeneratorExp, ast.Starred, ast.Yield, ast.YieldFrom, ast.DictComp,
           ast.SetComp, ast.Global, ast.Nonlocal, ast.FunctionDef, ast.ClassDef)
_IDIOMS = {"map", "filter", "reduce", "partial", "attrgetter", "itemgetter", "methodcaller", "chain", "from_iterable", "repeat",
           "starmap", "islice", "next", "iter", "reversed", "accumulate", "zip_longest", "count", "takewhile", "dropwhile",
           "compress", "cycle", "tee", "getattr", "setattr", "vars", "partialmethod", "cached_property", "lru_cache", "cache",
           "singledispatch", "wraps", "groupby", "pairwise", "batched", "deque", "namedtuple", "NamedTuple", "dataclass",
           "or_", "and_", "not_", "lt", "gt", "le", "ge", "neg", "truth", "is_", "is_not", "add", "sub", "mul", "contains",
           "divmod", "slice", "exec", "eval", "locals", "globals", "hasattr", "callable", "type", "_replace", "_asdict", "_make",
           "nlargest", "nsmallest", "bisect", "insort", "heappush", "heappop", "suppress", "nullcontext", "closing"}


def vocabulary(prog: Optional[Program], fi_or_node, module=None) -> set:
    fnode = getattr(fi_or_node, "node", fi_or_node)
    module = module or getattr(fi_or_node, "module", None)
    out = set()
    for n in ast.walk(fnode):
        if n is fnode:
            continue
        if isinstance(n, _STRUCT):
            out.add("N:" + type(n).__name__)
        if isinstance(n, ast.Call):
            d = dotted(n.func)
            if d is None:
                out.add("C:." + n.func.attr if isinstance(n.func, ast.Attribute) else "C:<expr>")
                if isinstance(n.func, ast.Attribute) and n.func.attr in _IDIOMS:
                    out.add("I:" + n.func.attr)
                continue
            last = d.split(".")[-1]
            head = d.split(".")[0]
            if last in _IDIOMS or head in ("operator", "functools", "itertools"):
                out.add("I:" + last)
            if head in ("self", "cls") and d.count(".") == 1:
                out.add("P:" + last)
            elif "." not in d:
                out.add("P:" + d)
        elif isinstance(n, ast.Name) and isinstance(n.ctx, ast.Load) and module is not None:
            b = module.bindings.get(n.id)
            if b is not None and b.kind in ("func", "class", "var") and str(b.ref).startswith(module.name):
                out.add("G:" + n.id)
            elif b is not None and b.kind == "import" and PKG in str(b.ref):
                out.add("G:" + n.id)
        elif isinstance(n, ast.Attribute) and isinstance(n.value, ast.Name) and n.value.id in ("self", "cls") \
                and isinstance(n.ctx, ast.Load):
            out.add("A:" + n.attr)
    return out


MAX_EDIT = 4      # statements (normalised, locals alpha-renamed) that may differ from the reference version


def canon_stmts(fnode) -> list:
    """pre-order list of the function's statements as canonical text: in each statement the function's locals and parameters
    are renamed by order of first occurrence *within that statement* (so renaming a local, or adding one, does not change the
    other statements), annotations and docstrings are dropped, compound statements contribute their header only"""
    import copy
    f = copy.deepcopy(fnode)
    local = {a.arg for a in f.args.posonlyargs + f.args.args + f.args.kwonlyargs}
    local |= {n.id for n in ast.walk(f) if isinstance(n, ast.Name) and isinstance(n.ctx, (ast.Store, ast.Del))}
    out: list = []

    def text(node) -> str:
        names: dict = {}

        class R(ast.NodeTransformer):
            def visit_Name(self, n):
                if n.id in local:
                    n.id = names.setdefault(n.id, f"v{len(names)}")
                return n

            def visit_arg(self, a):
                a.arg = names.setdefault(a.arg, f"v{len(names)}")
                a.annotation = None
                return a
        try:
            return ast.unparse(R().visit(node))[:300]
        except Exception:
            return type(node).__name__

    def rec(stmts):
        for st in stmts:
            if isinstance(st, ast.Expr) and isinstance(st.value, ast.Constant) and isinstance(st.value.value, str):
                continue
            if isinstance(st, (ast.FunctionDef, ast.AsyncFunctionDef)):
                out.append("def/" + str(len(st.args.args)))
                rec(st.body)
                continue
            if isinstance(st, ast.AnnAssign) and st.value is not None:
                st = ast.Assign(targets=[st.target], value=st.value)
            hdr = copy.copy(st)
            subs = []
            for fld in ("body", "orelse", "finalbody"):
                b = getattr(st, fld, None)
                if isinstance(b, list) and b and isinstance(b[0], ast.stmt):
                    subs.append(b)
                    setattr(hdr, fld, [])
            hs = getattr(st, "handlers", None)
            if hs:
                hdr.handlers = []
            out.append(type(st).__name__ + ":" + text(hdr))
            for b in subs:
                rec(b)
            for h in hs or []:
                rec(h.body)
    rec(f.body)
    return out


def edit_distance(a: list, b: list) -> int:
    import difflib
    sm = difflib.SequenceMatcher(a=a, b=b, autojunk=False)
    d = 0
    for tag, i1, i2, j1, j2 in sm.get_opcodes():
        if tag != "equal":
            d += max(i2 - i1, j2 - j1)
    return d


_RAW_CACHE: dict = {}


def _raw_function(fi):
    """the function's node in the *un-normalised* parse of its module"""
    mod = fi.module
    key = (mod.path, hash(mod.source))
    tree = _RAW_CACHE.get(key)
    if tree is None:
        try:
            tree = ast.parse(mod.source)
        except SyntaxError:
            return None
        _RAW_CACHE[key] = tree
    parts = fi.qualname[len(mod.name) + 1:].split(".")
    cur = tree
    for p_ in parts:
        nxt = None
        for st in getattr(cur, "body", []):
            if isinstance(st, (ast.ClassDef, ast.FunctionDef, ast.AsyncFunctionDef)) and st.name == p_:
                nxt = st
        if nxt is None:
            return None
        cur = nxt
    return cur if isinstance(cur, (ast.FunctionDef, ast.AsyncFunctionDef)) else None


def reference() -> dict:
    global _REF
    if _REF is None:
        p = os.path.join(os.path.dirname(os.path.abspath(__file__)), "reference_calls.json")
        _REF = json.load(open(p)) if os.path.exists(p) else {}
    return _REF


def _new_in(prog: Program, fi, q: str) -> list:
    ref = reference()
    names = set(ref.get("#names", ()))
    old = set(ref[q])
    cur = vocabulary(prog, fi)
    new = []
    for v in sorted(cur - old):
        kind, name = v.split(":", 1)
        if kind in ("N", "I"):
            new.append(v)
        elif kind in ("P", "G"):
            # a package helper / module-level name that the reference tree did not have at all
            if name not in names and _is_package_name(prog, fi, name):
                new.append(v)
        elif kind == "A":
            # a method of the class hierarchy, used as a value or called, that did not exist
            if name not in names and fi.cls is not None and prog.lookup_method(fi.cls, name) is not None:
                new.append(v)
    return new


def _is_package_name(prog: Program, fi, name: str) -> bool:
    if fi.cls is not None and prog.lookup_method(fi.cls, name) is not None:
        return True
    b = fi.module.bindings.get(name)
    if b is None:
        return False
    return PKG in str(b.ref)


def _callees(prog: Program, fi) -> list:
    out = []
    for n in ast.walk(fi.node):
        name = None
        if isinstance(n, ast.Call):
            d = dotted(n.func)
            if d:
                name = d.split(".")[-1]
            elif isinstance(n.func, ast.Attribute):
                name = n.func.attr
        elif isinstance(n, ast.Name) and isinstance(n.ctx, ast.Load):
            name = n.id
        if not name:
            continue
        if fi.cls is not None:
            m = prog.lookup_method(fi.cls, name)
            if m is not None:
                out.append(m)
                continue
        b = fi.module.bindings.get(name)
        if b is not None and PKG in str(b.ref):
            ref = str(b.ref).replace(":", ".")
            f = prog.functions.get(ref)
            if f is not None:
                out.append(f)
            else:
                c = prog.classes.get(ref)
                if c is not None:
                    out.extend(c.methods.values())
    return out


def _resolve(prog: Program, qual_tail: str, text: str) -> list:
    parts = qual_tail.split(".")
    for k in range(len(parts), 1, -1):
        q = f"{PKG}." + ".".join(parts[:k])
        fi = prog.functions.get(q)
        if fi is not None:
            return [fi]
        ci = prog.classes.get(q)
        if ci is not None:
            t = text.strip()
            if t.startswith("def "):
                t = t[4:]
            t = t.split("(")[0].split(":")[0].strip()
            if t in ci.methods:
                return [ci.methods[t]]
            return list(ci.methods.values())
    return []


def unfamiliar(prog: Program, qual_tail: str, text: str = "", depth: int = 3) -> Optional[str]:
    """qual_tail like 'abstract.OptimizationAbstract._init_agent' (or a nested function of it, or a class).  Returns a reason
    when the function, or a core function it reaches within `depth` calls, uses vocabulary its reference version did not."""
    ref = reference()
    seen = set()
    work = [(f, 0) for f in _resolve(prog, qual_tail, text)]
    while work:
        fi, d = work.pop()
        if fi.qualname in seen:
            continue
        seen.add(fi.qualname)
        mod = fi.module.name.split(".")
        if not (len(mod) == 2 and mod[1] in CORE):
            continue
        if fi.qualname in ref:
            new = _new_in(prog, fi, fi.qualname)
            if new:
                return f"{fi.qualname} now uses {new[:4]} which its reference version did not"
            rs = ref.get("#stmts", {}).get(fi.qualname)
            if rs is not None and fi.outer is None:
                dd = edit_distance(rs, canon_stmts(fi.node))
                if dd > MAX_EDIT:
                    # the normal forms can drift apart when only one side could be canonicalised: compare the sources too
                    raw_ref = ref.get("#stmts_raw", {}).get(fi.qualname)
                    raw_cur = _raw_function(fi)
                    if raw_ref is not None and raw_cur is not None:
                        dd = min(dd, edit_distance(raw_ref, canon_stmts(raw_cur)))
                if dd > MAX_EDIT:
                    return f"{fi.qualname} differs from its reference version in {dd} statements (more than {MAX_EDIT}: restructured)"
        elif fi.qualname.rsplit(".", 1)[-1] not in ref.get("#names", ()):
            return f"{fi.qualname} is a new helper the rules were never confirmed on"
        if d < depth:
            work.extend((c, d + 1) for c in _callees(prog, fi))
    return None
