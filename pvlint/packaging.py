"""Direction handling on the way in (_fcn) and out (Population / OptimizationResult) - shared by
C02, C03, C12 (DESIGN.md SGN)."""
from __future__ import annotations

import ast

from .callgraph import own_nodes
from .flow import origin
from .model import PKG, AnalysisError, Program, construct_key, dotted, norm
from .report import Finding, Result
from .sgn import MAX, MIN, fcn_signs, refine_signs

ABSTRACT = f"{PKG}.abstract.OptimizationAbstract"


def check_sign_parity(prog: Program, res: Result, prop: str) -> dict:
    """_fcn: {MIN:+, MAX:-}; both refiners: {MIN:+ (same object), MAX:- (by copy)}."""
    f = fcn_signs(prog)
    fi = f["func"]
    exp = {MIN: +1, MAX: -1}
    for tt in (MIN, MAX):
        ok = f["signs"][tt] == exp[tt]
        res.ob(ok, f"{fi.loc()} _fcn under {tt}: sign {f['signs'][tt]}", f"_fcn:{tt}")
        if not ok:
            res.add(Finding(prop, f"{prop}.SGN-fcn", construct_key(prog, fi.node.body[-1], fi.module) + f"::{tt}", fi.loc(),
                            f"_fcn under {tt} evaluates to sign {f['signs'][tt]} of self._task.solve(x), expected "
                            f"{'+' if exp[tt] > 0 else '-'} ({f['why'][tt]}): internal costs are no longer 'always minimised'"))
    out = {"fcn": f}
    for owner, nested in ((f"{PKG}.models.Population", "refine_agent"),
                          (f"{PKG}.models.OptimizationResult", "refine_best_solution")):
        r = refine_signs(prog, owner, nested)
        out[nested] = r
        g = r["func"]
        for tt in (MIN, MAX):
            ok = r["signs"][tt] == exp[tt]
            res.ob(ok, f"{g.loc()} {nested} under {tt}: sign {r['signs'][tt]}", f"{nested}:{tt}")
            if not ok:
                res.add(Finding(prop, f"{prop}.SGN-restore", construct_key(prog, g.node, g.module) + f"::{tt}", g.loc(),
                                f"{nested} under {tt} yields sign {r['signs'][tt]} of the internal cost, expected "
                                f"{'+' if exp[tt] > 0 else '-'} ({r['why'][tt]}): reported costs are not in the user's sign"))
        res.ob(not r["inplace"], None, f"{nested}:inplace")
        if r["inplace"]:
            res.add(Finding(prop, f"{prop}.SGN-restore-by-copy", construct_key(prog, g.node, g.module) + "::inplace", g.loc(),
                            f"{nested} mutates the agent it is given: live agents would change sign"))
    return out


def _kwargs_get(e: ast.AST, key: str) -> bool:
    return (isinstance(e, ast.Call) and dotted(e.func) == "kwargs.get" and e.args
            and isinstance(e.args[0], ast.Constant) and e.args[0].value == key)


def check_packaging(prog: Program, res: Result, prop: str) -> None:
    """Population.__init__ applies refine_agent to every agent with kwargs['task_type'];
    OptimizationResult.__init__ applies refine_best_solution to best_solution; optimize() passes
    task_type=task.minmax to all three packaging calls."""
    # Population
    init = prog.func(f"{PKG}.models.Population.__init__")
    ok, why = False, "agents are not rebuilt as [refine_agent(a, task_type) for a in kwargs.get('agents', ..)]"
    stores = [n for n in own_nodes(init) if isinstance(n, ast.Assign) and len(n.targets) == 1
              and isinstance(n.targets[0], ast.Subscript) and dotted(n.targets[0].value) == "kwargs"
              and isinstance(n.targets[0].slice, ast.Constant) and n.targets[0].slice.value == "agents"]
    sup = [n for n in own_nodes(init) if isinstance(n, ast.Call) and isinstance(n.func, ast.Attribute)
           and n.func.attr == "__init__" and isinstance(n.func.value, ast.Call) and dotted(n.func.value.func) == "super"]
    if len(stores) == 1 and len(sup) == 1 and stores[0].lineno < sup[0].lineno:
        v = origin(init.node, stores[0].value)
        if isinstance(v, ast.ListComp) and len(v.generators) == 1 and not v.generators[0].ifs \
                and isinstance(v.generators[0].target, ast.Name) and _kwargs_get(v.generators[0].iter, "agents"):
            a = v.generators[0].target.id
            e = v.elt
            if isinstance(e, ast.Call) and isinstance(e.func, ast.Name) and e.func.id == "refine_agent" and len(e.args) == 2 \
                    and isinstance(e.args[0], ast.Name) and e.args[0].id == a:
                tt = origin(init.node, e.args[1])
                if _kwargs_get(tt, "task_type"):
                    dflt = tt.args[1] if len(tt.args) > 1 else None
                    if dflt is not None and dotted(dflt) == "TaskType.MIN":
                        ok = True
                    else:
                        why = "default direction of Population is not TaskType.MIN"
                else:
                    why = "direction passed to refine_agent is not kwargs.get('task_type', ..)"
        if ok and not (sup[0].keywords and any(k.arg is None and dotted(k.value) == "kwargs" for k in sup[0].keywords)):
            ok, why = False, "super().__init__ is not called with **kwargs"
    res.ob(ok, f"{init.loc()} Population.__init__ refines every agent", "Population.__init__")
    if not ok:
        res.add(Finding(prop, f"{prop}.PKG-population", "models.Population.__init__::refine", init.loc(), why))

    # OptimizationResult
    init = prog.func(f"{PKG}.models.OptimizationResult.__init__")
    ok, why = False, "best_solution is not replaced by refine_best_solution(best_solution, task_type)"
    stores = [n for n in own_nodes(init) if isinstance(n, ast.Assign) and len(n.targets) == 1
              and isinstance(n.targets[0], ast.Subscript) and dotted(n.targets[0].value) == "kwargs"
              and isinstance(n.targets[0].slice, ast.Constant) and n.targets[0].slice.value == "best_solution"]
    if len(stores) == 1:
        e = stores[0].value
        if isinstance(e, ast.Call) and isinstance(e.func, ast.Name) and e.func.id == "refine_best_solution" and len(e.args) == 2:
            b = origin(init.node, e.args[0])
            tt = origin(init.node, e.args[1])
            if _kwargs_get(b, "best_solution") and _kwargs_get(tt, "task_type") and len(tt.args) > 1 \
                    and dotted(tt.args[1]) == "TaskType.MIN":
                # the store may only be guarded by `best_solution is not None`
                from .model import parent
                p = parent(stores[0])
                if p is init.node:
                    ok = True
                elif isinstance(p, ast.If) and isinstance(p.test, ast.Compare) and isinstance(p.test.ops[0], ast.IsNot) \
                        and isinstance(p.test.comparators[0], ast.Constant) and p.test.comparators[0].value is None \
                        and _kwargs_get(origin(init.node, p.test.left), "best_solution"):
                    ok = True
                else:
                    why = "the refinement of best_solution is conditional on something else than `is not None`"
    res.ob(ok, f"{init.loc()} OptimizationResult.__init__ refines best_solution", "OptimizationResult.__init__")
    if not ok:
        res.add(Finding(prop, f"{prop}.PKG-result", "models.OptimizationResult.__init__::refine", init.loc(), why))

    # optimize(): direction passed to all packaging calls
    opt = prog.func(f"{ABSTRACT}.optimize")
    n_pop = n_res = 0
    for n in own_nodes(opt):
        if isinstance(n, ast.Call) and isinstance(n.func, ast.Name) and n.func.id in ("Population", "OptimizationResult"):
            kws = {k.arg: k.value for k in n.keywords}
            tt = kws.get("task_type")
            okc = tt is not None and dotted(origin(opt.node, tt)) in ("task.minmax", "self._task.minmax") and not n.args
            if n.func.id == "Population":
                n_pop += 1
                okc = okc and dotted(kws.get("agents")) == "self._population"
            else:
                n_res += 1
                okc = okc and dotted(kws.get("best_solution")) == "self._best_agent" and dotted(kws.get("rates")) == "self._errors"
            res.ob(okc, f"{opt.module.relpath}:{n.lineno} {norm(n, 120)}", construct_key(prog, n, opt.module))
            if not okc:
                res.add(Finding(prop, f"{prop}.PKG-optimize", construct_key(prog, n, opt.module), f"{opt.module.relpath}:{n.lineno}",
                                f"`{norm(n, 100)}` does not package the live population / best agent with task_type=task.minmax"))
    res.count("optimize.Population-calls", n_pop)
    res.count("optimize.OptimizationResult-calls", n_res)
    res.floor("optimize.Population-calls", 2)
    res.floor("optimize.OptimizationResult-calls", 1)
