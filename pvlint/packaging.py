"""Direction handling on the way in (_fcn) and out (Population / OptimizationResult) - shared by
C02, C03, C12 (DESIGN.md SGN)."""
from __future__ import annotations

import ast

from .callgraph import own_nodes
from .flow import origin
from .model import PKG, AnalysisError, Program, construct_key, dotted, norm
from .report import Finding, Result
from .sgn import MAX, MIN, fcn_signs, refine_signs

ABSTRACT = f"{PKG}.abstract.OptimizationAbstract"


def check_sign_parity(prog: Program, res: Result, prop: str) -> dict:
    """_fcn: {MIN:+, MAX:-}; both refiners: {MIN:+ (same object), MAX:- (by copy)}."""
    f = fcn_signs(prog)
    fi = f["func"]
    exp = {MIN: +1, MAX: -1}
    for tt in (MIN, MAX):
        ok = f["signs"][tt] == exp[tt]
        if f["signs"][tt] is None:
            res.errors.append(f"{fi.loc()} _fcn under {tt}: the sign of the returned value is undecided ({f['why'][tt]})")
            continue
        res.ob(ok, f"{fi.loc()} _fcn under {tt}: sign {f['signs'][tt]}", f"_fcn:{tt}")
        if not ok:
            res.add(Finding(prop, f"{prop}.SGN-fcn", construct_key(prog, fi.node.body[-1], fi.module) + f"::{tt}", fi.loc(),
                            f"_fcn under {tt} evaluates to sign {f['signs'][tt]} of self._task.solve(x), expected "
                            f"{'+' if exp[tt] > 0 else '-'} ({f['why'][tt]}): internal costs are no longer 'always minimised'"))
    out = {"fcn": f}
    # restoration of best_solution in OptimizationResult.__init__ (the Population side is checked by check_packaging)
    from .sgn import agent_value_sign
    init = prog.func(f"{PKG}.models.OptimizationResult.__init__")
    stores = [n for n in own_nodes(init) if isinstance(n, ast.Assign) and len(n.targets) == 1
              and isinstance(n.targets[0], ast.Subscript) and dotted(n.targets[0].value) == "kwargs"
              and isinstance(n.targets[0].slice, ast.Constant) and n.targets[0].slice.value == "best_solution"]
    dir_names = _direction_names(init)
    for tt in (MIN, MAX):
        if len(stores) != 1:
            sign, by_copy, why = (+1, True, "") if not stores else (None, False, "several stores of kwargs['best_solution']")
            if not stores:
                sign, why = +1, "best_solution is passed through unchanged"
        else:
            sign, by_copy, why = agent_value_sign(prog, init.node, init.module, stores[0].value,
                                                  lambda z: _kwargs_take(origin(init.node, z) if isinstance(z, ast.Name) else z, "best_solution"),
                                                  dir_names, tt)
        ok = sign == exp[tt]
        if sign is None:
            res.errors.append(f"{init.loc()} best_solution under {tt}: the sign of the reported cost is undecided ({why})")
            continue
        res.ob(ok, f"{init.loc()} best_solution under {tt}: sign {sign}", f"refine_best_solution:{tt}")
        if not ok:
            res.add(Finding(prop, f"{prop}.SGN-restore", f"models.OptimizationResult.__init__::restore::{tt}", init.loc(),
                            f"best_solution under {tt} is reported with cost sign {sign}, expected {'+' if exp[tt] > 0 else '-'} "
                            f"({why}): reported costs are not in the user's sign"))
        elif not by_copy:
            res.ob(False)
            res.add(Finding(prop, f"{prop}.SGN-restore-by-copy", "models.OptimizationResult.__init__::inplace", init.loc(),
                            f"the sign of best_solution is restored in place ({why}): the live best agent changes sign"))
    return out


def _direction_names(init) -> set:
    names = set()
    for n in own_nodes(init):
        if isinstance(n, (ast.Assign, ast.AnnAssign)):
            t = n.targets[0] if isinstance(n, ast.Assign) and len(n.targets) == 1 else getattr(n, "target", None)
            if isinstance(t, ast.Name) and n.value is not None and _kwargs_take(n.value, "task_type"):
                dflt = n.value.args[1] if isinstance(n.value, ast.Call) and len(n.value.args) > 1 else None
                if dflt is not None and dotted(dflt) == "TaskType.MIN":
                    names.add(t.id)
    return names


def _kwargs_get(e: ast.AST, key: str) -> bool:
    return (isinstance(e, ast.Call) and dotted(e.func) == "kwargs.get" and e.args
            and isinstance(e.args[0], ast.Constant) and e.args[0].value == key)


def _kwargs_take(e: ast.AST, key: str) -> bool:
    """kwargs.get(key, ..) / kwargs.pop(key, ..) / kwargs[key]"""
    if isinstance(e, ast.Call) and dotted(e.func) in ("kwargs.get", "kwargs.pop") and e.args \
            and isinstance(e.args[0], ast.Constant) and e.args[0].value == key:
        return True
    return isinstance(e, ast.Subscript) and dotted(e.value) == "kwargs" and isinstance(e.slice, ast.Constant) and e.slice.value == key


def population_agents_semantics(prog: Program) -> dict:
    """What does Population(agents=A, task_type=tt) hold?  Per direction: ('identity' | 'refined' | None, fresh list?, why)."""
    from .sgn import MAX, MIN, Unknown, eval_expr
    init = prog.func(f"{PKG}.models.Population.__init__")
    out = {"init": init}
    # the expression that becomes the `agents` field
    expr, always_fresh = None, False
    sup = [n for n in own_nodes(init) if isinstance(n, ast.Call) and isinstance(n.func, ast.Attribute)
           and n.func.attr == "__init__" and isinstance(n.func.value, ast.Call) and dotted(n.func.value.func) == "super"]
    for n in own_nodes(init):
        if isinstance(n, ast.Assign) and len(n.targets) == 1:
            t = n.targets[0]
            if isinstance(t, ast.Subscript) and dotted(t.value) == "kwargs" and isinstance(t.slice, ast.Constant) and t.slice.value == "agents":
                if sup and n.lineno < sup[0].lineno and any(k.arg is None and dotted(k.value) == "kwargs" for k in sup[0].keywords):
                    expr, always_fresh = n.value, True          # pydantic validates list[Agent]: a new list of the same models
            elif dotted(t) == "self.agents" and sup and n.lineno > sup[0].lineno:
                expr, always_fresh = n.value, False
    if expr is None and sup:
        for k in sup[0].keywords:
            if k.arg == "agents":
                expr, always_fresh = k.value, True
    if expr is None:
        for tt in (MIN, MAX):
            out[tt] = (None, False, "the value stored as `agents` was not found")
        return out
    # direction variable
    dir_names = _direction_names(init)
    for tt in (MIN, MAX):
        try:
            e = eval_expr(origin(init.node, expr), dir_names, tt)
        except Unknown as exc:
            out[tt] = (None, False, str(exc))
            continue
        e = origin(init.node, e)
        if isinstance(e, ast.IfExp):
            out[tt] = (None, False, f"`{norm(e.test)}` decides what is recorded")
            continue
        if _kwargs_take(e, "agents"):
            out[tt] = (("sign", +1, True), always_fresh, "")
            continue
        if isinstance(e, ast.ListComp) and len(e.generators) == 1 and not e.generators[0].ifs \
                and isinstance(e.generators[0].target, ast.Name) and _kwargs_take(origin(init.node, e.generators[0].iter), "agents"):
            a = e.generators[0].target.id
            el = e.elt
            from .sgn import agent_value_sign
            sign, by_copy, why = agent_value_sign(prog, init.node, init.module, el, lambda z: isinstance(z, ast.Name) and z.id == a,
                                                  dir_names, tt)
            out[tt] = (("sign", sign, by_copy), True, why)
            continue
        out[tt] = (None, False, f"agents are `{norm(e, 70)}`")
    return out


def check_packaging(prog: Program, res: Result, prop: str, need_fresh: bool = False) -> None:
    """Population(agents=, task_type=) holds, for MIN, the agents themselves (or refine_agent of them, which is the identity
    for MIN) and, for MAX, refine_agent of every agent - unfiltered; with ``need_fresh`` (C15) the recorded list must be a
    new list object in both directions.  OptimizationResult applies refine_best_solution to best_solution; optimize()
    passes task_type=task.minmax to all three packaging calls."""
    from .sgn import MAX, MIN
    sem = population_agents_semantics(prog)
    init = sem["init"]
    for tt in (MIN, MAX):
        kind, fresh, why = sem[tt]
        sign, by_copy = (kind[1], kind[2]) if isinstance(kind, tuple) else (None, True)
        want = +1 if tt == MIN else -1
        ok = sign == want
        if sign is None:
            res.errors.append(f"{init.loc()} Population under {tt}: what is recorded is undecided ({why or kind})")
            continue
        res.ob(ok, f"{init.loc()} Population under {tt}: agent cost sign {sign}, fresh list={fresh}", f"Population.__init__:{tt}")
        if ok and not by_copy:
            res.ob(False)
            res.add(Finding(prop, f"{prop}.SGN-restore-by-copy", f"models.Population.__init__::inplace::{tt}", init.loc(),
                            f"under {tt} the sign of recorded agents is restored in place ({why}): live agents change sign"))
        if not ok:
            res.add(Finding(prop, f"{prop}.PKG-population", f"models.Population.__init__::refine::{tt}", init.loc(),
                            f"under {tt} a recorded generation holds its agents with cost sign {sign} (expected "
                            f"{'+' if want > 0 else '-'}): {why or kind}"))
        if need_fresh:
            res.ob(fresh, None, f"Population.__init__:{tt}:fresh")
            if not fresh:
                res.add(Finding(prop, f"{prop}.PKG-population-fresh-list", f"models.Population.__init__::fresh::{tt}", init.loc(),
                                f"under {tt} a recorded generation stores the caller's list object itself: optimizers that extend, "
                                f"pop or assign slots of self._population in place rewrite generations that were already recorded"))

    # OptimizationResult: the (sign-checked, see check_sign_parity) restoration of best_solution is applied whenever a best
    # solution is given: the store may be guarded by `best_solution is not None` only, and super().__init__(**kwargs) follows
    init = prog.func(f"{PKG}.models.OptimizationResult.__init__")
    stores = [n for n in own_nodes(init) if isinstance(n, ast.Assign) and len(n.targets) == 1
              and isinstance(n.targets[0], ast.Subscript) and dotted(n.targets[0].value) == "kwargs"
              and isinstance(n.targets[0].slice, ast.Constant) and n.targets[0].slice.value == "best_solution"]
    ok, why = False, "best_solution is not replaced by its sign-restored version before the model is built"
    if len(stores) == 1:
        from .model import parent
        p = parent(stores[0])
        if p is init.node:
            ok = True
        elif isinstance(p, ast.If) and isinstance(p.test, ast.Compare) and len(p.test.ops) == 1 and isinstance(p.test.ops[0], ast.IsNot) \
                and isinstance(p.test.comparators[0], ast.Constant) and p.test.comparators[0].value is None \
                and _kwargs_take(origin(init.node, p.test.left), "best_solution") and parent(p) is init.node:
            ok = True
        elif isinstance(p, ast.If) and parent(p) is init.node and isinstance(p.test, ast.Name) \
                and _kwargs_take(origin(init.node, p.test), "best_solution"):
            ok = True
        else:
            why = "the restoration of best_solution is conditional on something else than `best_solution is not None`"
    res.ob(ok, f"{init.loc()} OptimizationResult.__init__ restores best_solution whenever one is given", "OptimizationResult.__init__")
    if not ok:
        res.add(Finding(prop, f"{prop}.PKG-result", "models.OptimizationResult.__init__::refine", init.loc(), why))

    # optimize(): direction passed to all packaging calls
    opt = prog.func(f"{ABSTRACT}.optimize")
    n_pop = n_res = 0
    for n in own_nodes(opt):
        if isinstance(n, ast.Call) and isinstance(n.func, ast.Name) and n.func.id in ("Population", "OptimizationResult"):
            kws = {k.arg: k.value for k in n.keywords}
            tt = kws.get("task_type")
            okc = tt is not None and dotted(origin(opt.node, tt)) in ("task.minmax", "self._task.minmax") and not n.args
            if n.func.id == "Population":
                n_pop += 1
                okc = okc and dotted(kws.get("agents")) == "self._population"
            else:
                n_res += 1
                okc = okc and dotted(kws.get("best_solution")) == "self._best_agent" and dotted(kws.get("rates")) == "self._errors"
            res.ob(okc, f"{opt.module.relpath}:{n.lineno} {norm(n, 120)}", construct_key(prog, n, opt.module))
            if not okc:
                res.add(Finding(prop, f"{prop}.PKG-optimize", construct_key(prog, n, opt.module), f"{opt.module.relpath}:{n.lineno}",
                                f"`{norm(n, 100)}` does not package the live population / best agent with task_type=task.minmax"))
    res.count("optimize.Population-calls", n_pop)
    res.count("optimize.OptimizationResult-calls", n_res)
    res.floor("optimize.Population-calls", 2)
    res.floor("optimize.OptimizationResult-calls", 1)
