"""Variant battery (DESIGN.md 3.8): the checker is tested both ways on every run.

A variant is an in-memory overlay of one or more package files (never written to /repo or /verif):
``V(name, file, old, new, expect)``.  ``old`` must occur exactly once in the file, otherwise the variant
is *stale* (the tree moved on) and is reported as skipped, not as a failure.  ``expect`` is a rule-id
prefix that must appear among the findings the variant adds to the live tree's findings; ``expect=None``
marks a benign twin on which the check must add nothing.  Every overlay must still parse (compile).
"""
from __future__ import annotations

import os
import random
from concurrent.futures import ProcessPoolExecutor
from dataclasses import dataclass, field
from typing import Optional

from .model import AnalysisError, Program, repo_root
from .report import Result


@dataclass
class V:
    name: str
    file: str                 # relpath under the repo root
    old: str
    new: str
    expect: Optional[str]     # rule prefix, or None for a benign twin
    more: list = field(default_factory=list)   # further (file, old, new) edits of the same variant


def _apply(v: V):
    overlay = {}
    for (f, old, new) in [(v.file, v.old, v.new)] + list(v.more):
        path = os.path.join(repo_root(), f)
        if f in overlay:
            src = overlay[f]
        else:
            try:
                with open(path, "r", encoding="utf-8") as fh:
                    src = fh.read()
            except OSError:
                return None
        if src.count(old) != 1:
            return None
        overlay[f] = src.replace(old, new)
    return overlay


def _run_variant(args):
    modname, v, base_keys = args
    import importlib
    mod = importlib.import_module(modname)
    overlay = _apply(v)
    if overlay is None:
        return (v.name, "stale", [])
    try:
        prog = Program(overlay=overlay)
        r = Result(prop=mod.__name__.rsplit(".", 1)[1].upper())
        mod.run(prog, r)
    except AnalysisError as exc:
        return (v.name, "error", [str(exc)])
    new = [f for f in r.findings if f.fkey not in base_keys]
    # the same safety net as report.finish: shape findings in restructured functions are withheld
    from .familiar import subject_to_net, unfamiliar
    kept = []
    for f in new:
        if not subject_to_net(f.rule) or not unfamiliar(prog, f.key.split("::")[0], f.key.split("::", 1)[1] if "::" in f.key else ""):
            kept.append(f)
    withheld = len(new) - len(kept)
    new = kept
    if r.errors:
        return (v.name, "error", r.errors[:3])
    if v.expect is None:
        return (v.name, "ok" if not new else "twin-fired", [f.fkey for f in new][:3])
    hit = [f for f in new if f.rule.startswith(v.expect)]
    return (v.name, "ok" if hit else "missed", [f.fkey for f in new][:3])


def run_battery(modname: str, variants: list, res: Result, tier: str, seed: int, quick_n: int = 4) -> None:
    """Run (a seeded sample of) the variants; a variant the check misses, or a twin it fires on, is an
    analysis error of the *checker* (exit 2): its verdict on the live tree is then not to be believed."""
    base_keys = {f.fkey for f in res.findings}
    chosen = list(variants)
    if tier == "quick" and len(chosen) > quick_n:
        rnd = random.Random(seed)
        breaking = [v for v in chosen if v.expect is not None]
        twins = [v for v in chosen if v.expect is None]
        rnd.shuffle(breaking)
        rnd.shuffle(twins)
        chosen = breaking[: max(1, quick_n - 1)] + twins[:1]
    jobs = [(modname, v, base_keys) for v in chosen]
    results = []
    if tier == "thorough" and len(jobs) > 2:
        with ProcessPoolExecutor(max_workers=min(16, len(jobs))) as ex:
            results = list(ex.map(_run_variant, jobs))
    else:
        results = [_run_variant(j) for j in jobs]
    st = {"variants_total": len(variants), "variants_run": len(results), "fired": 0, "twins_silent": 0,
          "stale": 0, "failed": []}
    exp = {v.name: v.expect for v in variants}
    for (name, status, info) in results:
        if status == "ok":
            if exp[name] is None:
                st["twins_silent"] += 1
            else:
                st["fired"] += 1
        elif status == "stale":
            st["stale"] += 1
        else:
            st["failed"].append({"variant": name, "status": status, "info": info})
            res.errors.append(f"checker self-test: variant {name}: {status} {info}")
    res.selftest = st
