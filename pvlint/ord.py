"""ORD: order/window abstract evaluation of the selection helpers (C03, C16, C17).

Abstract list value  L = (src, kind, order, window, fresh)
    src     name of the parameter whose elements the list holds
    kind    'objs' | 'idx'        agents themselves or their indexes in src
    order   'ORIG' | 'ASC' | 'DESC'   by cost
    window  ('ALL',) | ('FIRST', n) | ('LAST', n) | ('LASTNEG', n) | ('OTHER', text)
    fresh   True when the list object is new (not the caller's list)
Element value        E = (src, kind, order, ('AT', 'first'|'last'))
The evaluator understands exactly the statement/expression forms used for ranking; anything else
raises ``OrdUnknown`` (reported as an analysis error, never a guess).
"""
from __future__ import annotations

import ast
from dataclasses import dataclass, replace
from typing import Optional

from .model import PKG, FuncInfo, Program, dotted, norm
from .sgn import MAX, MIN, eval_test

HELPERS = f"{PKG}.helpers"


class OrdUnknown(Exception):
    pass


def _module_value(fi, name: str):
    """module-level definition of `name` in fi's module: the assigned value expression or the FunctionDef"""
    found = None
    for st in fi.module.tree.body:
        if isinstance(st, ast.Assign) and any(isinstance(t, ast.Name) and t.id == name for t in st.targets):
            found = st.value if found is None else "multi"
        elif isinstance(st, ast.AnnAssign) and isinstance(st.target, ast.Name) and st.target.id == name and st.value is not None:
            found = st.value if found is None else "multi"
        elif isinstance(st, ast.FunctionDef) and st.name == name:
            found = st if found is None else "multi"
    return None if found == "multi" else found


_NON_INJECTIVE = {"round", "int", "abs", "floor", "ceil", "trunc", "np.round", "np.abs", "np.floor", "np.ceil", "math.floor",
                  "math.ceil", "np.around", "bool", "np.sign", "hash", "id"}


def _classify_key_body(body, pname: str):
    """the value a key function returns for its parameter pname"""
    if isinstance(body, ast.Attribute) and isinstance(body.value, ast.Name) and body.value.id == pname:
        if body.attr == "cost":
            return "cost", ""
        return "dev", f"it ranks by `.{body.attr}`"
    if isinstance(body, ast.Call) and dotted(body.func) in _NON_INJECTIVE and body.args \
            and isinstance(body.args[0], ast.Attribute) and isinstance(body.args[0].value, ast.Name) \
            and body.args[0].value.id == pname:
        return "dev", f"`{dotted(body.func)}(..)` merges different costs"
    if isinstance(body, ast.Constant):
        return "dev", "a constant key"
    return "unknown", ""


def classify_key(fi, key, depth: int = 2):
    """-> ('cost' | 'dev' | 'unknown', why) for the key= argument of a sort"""
    if key is None:
        return "unknown", "no key"
    if isinstance(key, ast.Lambda) and len(key.args.args) == 1:
        return _classify_key_body(key.body, key.args.args[0].arg)
    if isinstance(key, ast.Call) and dotted(key.func) in ("attrgetter", "operator.attrgetter") and len(key.args) == 1 \
            and isinstance(key.args[0], ast.Constant) and not key.keywords:
        return ("cost", "") if key.args[0].value == "cost" else ("dev", f"it ranks by `.{key.args[0].value}`")
    if isinstance(key, ast.Name) and depth > 0:
        v = _module_value(fi, key.id)
        if isinstance(v, ast.FunctionDef):
            rets = [n for n in ast.walk(v) if isinstance(n, ast.Return)]
            if len(rets) == 1 and len(v.args.args) == 1 and rets[0].value is not None and len(v.body) <= 2:
                return _classify_key_body(rets[0].value, v.args.args[0].arg)
            return "unknown", ""
        if v is not None:
            return classify_key(fi, v, depth - 1)
    return "unknown", ""


def costs_source(fi, e, depth: int = 2):
    """Is e 'the costs of <iterable> in order'?  -> ('costs', iterable) | ('dev', why) | None (not a costs expression)"""
    if isinstance(e, (ast.ListComp, ast.GeneratorExp)) and len(e.generators) == 1 and not e.generators[0].ifs \
            and isinstance(e.generators[0].target, ast.Name):
        kind, why = _classify_key_body(e.elt, e.generators[0].target.id)
        if kind == "unknown" and isinstance(e.elt, ast.Call) and len(e.elt.args) == 1 and not e.elt.keywords \
                and isinstance(e.elt.args[0], ast.Name) and e.elt.args[0].id == e.generators[0].target.id:
            kind, why = classify_key(fi, e.elt.func)       # [key(a) for a in population]
        if kind == "cost":
            return "costs", e.generators[0].iter
        if kind == "dev":
            return "dev", why
        return None
    if isinstance(e, ast.Call) and isinstance(e.func, ast.Name) and e.func.id in ("list", "tuple") and len(e.args) == 1 \
            and not e.keywords:
        return costs_source(fi, e.args[0], depth)
    if isinstance(e, ast.Call) and dotted(e.func) in ("np.array", "np.asarray", "numpy.array") and len(e.args) == 1:
        return costs_source(fi, e.args[0], depth)
    if isinstance(e, ast.Call) and isinstance(e.func, ast.Name) and e.func.id == "map" and len(e.args) == 2 and not e.keywords:
        kind, why = classify_key(fi, e.args[0])
        if kind == "cost":
            return "costs", e.args[1]
        if kind == "dev":
            return "dev", why
        return None
    if isinstance(e, ast.Call) and isinstance(e.func, ast.Name) and depth > 0 and len(e.args) == 1 and not e.keywords:
        v = _module_value(fi, e.func.id)
        if isinstance(v, ast.FunctionDef) and len(v.args.args) == 1:
            rets = [n for n in ast.walk(v) if isinstance(n, ast.Return)]
            if len(rets) == 1 and rets[0].value is not None and len(v.body) <= 2:
                inner = costs_source(fi, rets[0].value, depth - 1)
                if inner is not None and inner[0] == "costs" and isinstance(inner[1], ast.Name) \
                        and inner[1].id == v.args.args[0].arg:
                    return "costs", e.args[0]
                if inner is not None and inner[0] == "dev":
                    return inner
    return None


class OrdDeviation(OrdUnknown):
    """A construct that is understood and deviates from ranking by the agents' cost (e.g. another sort key)."""


@dataclass(frozen=True)
class L:
    src: str
    kind: str = "objs"
    order: str = "ORIG"
    window: tuple = ("ALL",)
    fresh: bool = False

    def show(self) -> str:
        w = self.window[0] if len(self.window) == 1 else f"{self.window[0]}({self.window[1]})"
        return f"{self.kind} of {self.src}: {w} of {self.order}"


@dataclass(frozen=True)
class E:
    src: str
    kind: str
    order: str
    at: str        # 'first' | 'last'

    def show(self) -> str:
        return f"{self.kind[:-1]} of {self.src}: {self.at} of {self.order}"


@dataclass(frozen=True)
class Tup:
    items: tuple


@dataclass(frozen=True)
class Costs:
    """the list of the costs of `src`'s agents, in src order"""
    src: str


@dataclass(frozen=True)
class Scalar:
    text: str       # normalised expression over parameters


class Evaluator:
    def __init__(self, prog: Program, direction: str):
        self.prog = prog
        self.dir = direction
        self.mutated_params: list = []
        self.depth = 0
        self.choices: list = []     # outcomes imposed on the branchable tests, in evaluation order (run_paths)
        self.path: list = []        # [(test text, outcome)] actually taken

    # ---------------------------------------------------------------- functions
    def call_helper(self, fi: FuncInfo, args: dict) -> object:
        """args: param -> abstract value (L/E/Scalar/'DIR'/None)."""
        self.depth += 1
        if self.depth > 12:
            raise OrdUnknown("helper recursion too deep")
        try:
            env = dict(args)
            a = fi.node.args
            params = [x.arg for x in a.posonlyargs + a.args]
            defaults = dict(zip(params[len(params) - len(a.defaults):], a.defaults))
            for p in params:
                if p not in env:
                    d = defaults.get(p)
                    if d is None:
                        raise OrdUnknown(f"{fi.name}: parameter {p} not bound")
                    env[p] = self.const(d)
            return self.block(fi, fi.node.body, env)
        finally:
            self.depth -= 1

    def const(self, d: ast.AST):
        if dotted(d) == "TaskType.MIN":
            return ("DIR", MIN)
        if dotted(d) == "TaskType.MAX":
            return ("DIR", MAX)
        if isinstance(d, ast.Constant):
            return Scalar("None") if d.value is None else Scalar(repr(d.value))
        return Scalar(norm(d))

    def block(self, fi, stmts, env):
        for st in stmts:
            if isinstance(st, ast.Expr) and isinstance(st.value, ast.Constant):
                continue
            if isinstance(st, ast.Return):
                return self.expr(fi, st.value, env)
            if isinstance(st, ast.AnnAssign) and st.value is not None:
                st = ast.copy_location(ast.Assign(targets=[st.target], value=st.value), st)
            if isinstance(st, ast.Assign) and len(st.targets) == 1:
                v = self.expr(fi, st.value, env)
                self.assign(st.targets[0], v, env)
                continue
            if isinstance(st, ast.Expr) and isinstance(st.value, ast.Call):
                self.effect_call(fi, st.value, env)
                continue
            if isinstance(st, ast.If):
                # a comparison between the list's length and caller-chosen counts has both outcomes for suitable inputs:
                # the driver (run_paths) explores each of them as a separate path
                t = self._test_or_choose(fi, st.test, env)
                r = self.block(fi, st.body if t else st.orelse, env)
                if r is not None:
                    return r
                continue
            if isinstance(st, ast.Raise):
                return ("RAISE", norm(st.exc) if st.exc else "")
            if isinstance(st, ast.FunctionDef) and not st.decorator_list and not st.args.vararg and not st.args.kwarg:
                env[st.name] = ("CLOSURE", st, env)         # a local helper: evaluated at its call sites
                continue
            raise OrdUnknown(f"{fi.name}: statement `{norm(st, 60)}` not understood")
        return None

    def _branchable(self, t, env) -> bool:
        """a test built only from comparisons over scalar parameters, constants and len(<abstract list>)"""
        def operand(e) -> bool:
            if isinstance(e, ast.Constant) and isinstance(e.value, (int, float)) and not isinstance(e.value, bool):
                return True
            if isinstance(e, ast.Name):
                v = env.get(e.id)
                return isinstance(v, Scalar) and v.text not in ("None", "True", "False")
            if isinstance(e, ast.Call) and isinstance(e.func, ast.Name) and e.func.id == "len" and len(e.args) == 1 \
                    and isinstance(e.args[0], ast.Name) and isinstance(env.get(e.args[0].id), L):
                return True
            if isinstance(e, ast.BinOp) and isinstance(e.op, (ast.Add, ast.Sub, ast.Mult, ast.FloorDiv)):
                return operand(e.left) and operand(e.right)
            return False
        if isinstance(t, ast.Compare):
            return all(isinstance(o, (ast.Lt, ast.LtE, ast.Gt, ast.GtE, ast.Eq, ast.NotEq)) for o in t.ops) \
                and all(operand(x) for x in [t.left] + list(t.comparators))
        if isinstance(t, ast.BoolOp):
            return all(self._branchable(v, env) for v in t.values)
        if isinstance(t, ast.UnaryOp) and isinstance(t.op, ast.Not):
            return self._branchable(t.operand, env) or operand(t.operand)
        return operand(t) and isinstance(t, ast.Name)        # `if n_best:` on a count

    def _test_or_choose(self, fi, t, env) -> bool:
        try:
            return self.test(fi, t, env)
        except OrdUnknown:
            if isinstance(t, ast.BoolOp):
                if isinstance(t.op, ast.And):
                    for v in t.values:
                        if not self._test_or_choose(fi, v, env):
                            return False
                    return True
                for v in t.values:
                    if self._test_or_choose(fi, v, env):
                        return True
                return False
            if isinstance(t, ast.UnaryOp) and isinstance(t.op, ast.Not) and not self._branchable(t, env):
                return not self._test_or_choose(fi, t.operand, env)
            if not self._branchable(t, env):
                raise
            return self._choose(norm(t))

    def _choose(self, text: str) -> bool:
        i = len(self.path)
        b = self.choices[i] if i < len(self.choices) else True
        self.path.append((text, b))
        return b

    def assign(self, t, v, env):
        if isinstance(t, ast.Name):
            env[t.id] = v
            return
        if isinstance(t, (ast.Tuple, ast.List)):
            if isinstance(v, Tup) and len(v.items) == len(t.elts):
                for e, x in zip(t.elts, v.items):
                    self.assign(e, x, env)
                return
            if isinstance(v, L) and len(t.elts) == 1 and v.window[0] in ("FIRST", "LAST") and v.window[1] == "1":
                self.assign(t.elts[0], E(v.src, v.kind, v.order, "first" if v.window[0] == "FIRST" else "last"), env)
                return
        raise OrdUnknown(f"assignment target `{norm(t)}` with value {v} not understood")

    def test(self, fi, t, env) -> bool:
        if isinstance(t, ast.Name) and isinstance(env.get(t.id), Scalar) and env[t.id].text in ("True", "False"):
            return env[t.id].text == "True"
        # direction tests
        dir_names = {k for k, v in env.items() if isinstance(v, tuple) and v and v[0] == "DIR"}
        for dn in dir_names:
            r = eval_test(t, {dn}, env[dn][1])
            if r is not None:
                return r
        # None tests on parameters
        if isinstance(t, ast.Compare) and len(t.ops) == 1 and isinstance(t.comparators[0], ast.Constant) \
                and t.comparators[0].value is None and isinstance(t.left, ast.Name):
            v = env.get(t.left.id)
            isnone = isinstance(v, Scalar) and v.text == "None"
            return isnone if isinstance(t.ops[0], ast.Is) else not isnone
        # a count that is absent (None) compared with a number: `None == 1` is False, `None != 1` is True
        if isinstance(t, ast.Compare) and len(t.ops) == 1 and isinstance(t.ops[0], (ast.Eq, ast.NotEq)) \
                and isinstance(t.left, ast.Name) and isinstance(env.get(t.left.id), Scalar) and env[t.left.id].text == "None" \
                and isinstance(t.comparators[0], ast.Constant) and isinstance(t.comparators[0].value, (int, float)) \
                and not isinstance(t.comparators[0].value, bool):
            return isinstance(t.ops[0], ast.NotEq)
        if isinstance(t, ast.BoolOp):
            vals = [self.test(fi, x, env) for x in t.values]
            return all(vals) if isinstance(t.op, ast.And) else any(vals)
        # all(<test of n> for n in (a, b, ..)) / any(..): the display is unrolled
        if isinstance(t, ast.Call) and isinstance(t.func, ast.Name) and t.func.id in ("all", "any") and len(t.args) == 1 \
                and isinstance(t.args[0], (ast.GeneratorExp, ast.ListComp)) and len(t.args[0].generators) == 1 \
                and not t.args[0].generators[0].ifs and isinstance(t.args[0].generators[0].iter, (ast.Tuple, ast.List)) \
                and isinstance(t.args[0].generators[0].target, ast.Name):
            g_ = t.args[0].generators[0]
            vals = []
            for item in g_.iter.elts:
                class Rn(ast.NodeTransformer):
                    def visit_Name(s_, nn):
                        if nn.id == g_.target.id and isinstance(nn.ctx, ast.Load):
                            import copy as _cp
                            return _cp.deepcopy(item)
                        return nn
                import copy as _cp2
                vals.append(self.test(fi, Rn().visit(_cp2.deepcopy(t.args[0].elt)), env))
            return all(vals) if t.func.id == "all" else any(vals)
        if isinstance(t, ast.UnaryOp) and isinstance(t.op, ast.Not):
            return not self.test(fi, t.operand, env)
        raise OrdUnknown(f"{fi.name}: test `{norm(t)}` not understood")

    def effect_call(self, fi, c: ast.Call, env):
        """statement-level call: only <local>.sort(key=cost, reverse=R) is meaningful."""
        f = c.func
        if isinstance(f, ast.Attribute) and isinstance(f.value, ast.Name) and f.attr in ("sort", "reverse"):
            name = f.value.id
            v = env.get(name)
            if not isinstance(v, L):
                raise OrdUnknown(f"{fi.name}: .{f.attr}() on non-list `{name}`")
            if not v.fresh:
                self.mutated_params.append((fi, c, f"`{norm(c, 60)}` reorders the caller's list `{v.src}` in place"))
            if f.attr == "sort":
                env[name] = replace(v, order=self.sort_order(fi, c, env))
            else:
                env[name] = replace(v, order={"ASC": "DESC", "DESC": "ASC", "ORIG": "ORIG"}[v.order])
            return
        if isinstance(f, ast.Name) and f.id == "print":
            return
        raise OrdUnknown(f"{fi.name}: call statement `{norm(c, 60)}` not understood")

    def sort_order(self, fi, c: ast.Call, env) -> str:
        kws = {k.arg: k.value for k in c.keywords}
        key = kws.get("key")
        kind, why = classify_key(fi, key)
        if kind == "dev":
            raise OrdDeviation(f"{fi.name}: sort key `{norm(key) if key is not None else None}` is not the agent's cost: {why} "
                               f"(agents whose costs differ can compare equal or in another order)")
        if kind != "cost":
            raise OrdUnknown(f"{fi.name}: sort key `{norm(key) if key is not None else None}` not understood")
        rev = kws.get("reverse")
        r = False
        if rev is not None:
            if isinstance(rev, ast.Constant):
                r = bool(rev.value)
            elif isinstance(rev, ast.Name) and isinstance(env.get(rev.id), Scalar) and env[rev.id].text in ("True", "False"):
                r = env[rev.id].text == "True"
            else:
                r = self.test(fi, rev, env)
        return "DESC" if r else "ASC"

    # ---------------------------------------------------------------- expressions
    def expr(self, fi, e, env):
        if e is None:
            return Scalar("None")
        if isinstance(e, ast.Name):
            if e.id in env:
                return env[e.id]
            t_ = self.prog.resolve_name(fi.module, e.id)
            if t_.kind == "func" and t_.ref in self.prog.functions:
                return ("FUNCREF", t_.ref)                  # a helper passed around as a value
            raise OrdUnknown(f"{fi.name}: unbound name {e.id}")
        if isinstance(e, ast.Constant):
            return self.const(e)
        if isinstance(e, (ast.Tuple,)):
            return Tup(tuple(self.expr(fi, x, env) for x in e.elts))
        if isinstance(e, ast.List) and not e.elts:
            return L("<empty>", fresh=True)
        if isinstance(e, ast.List) and len(e.elts) == 1 and not isinstance(e.elts[0], ast.Starred):
            v1 = self.expr(fi, e.elts[0], env)
            if isinstance(v1, E):          # [extreme element] is the window of one at that end, as a new list
                return L(v1.src, v1.kind, v1.order, ("FIRST" if v1.at == "first" else "LAST", "1"), True)
            raise OrdUnknown(f"{fi.name}: expression `{norm(e, 60)}` not understood")
        if dotted(e) in ("TaskType.MIN", "TaskType.MAX"):
            return self.const(e)
        if dotted(e) in ("heapq.nsmallest", "heapq.nlargest"):
            return ("FUNC", dotted(e))
        if isinstance(e, ast.IfExp):
            return self.expr(fi, e.body if self.test(fi, e.test, env) else e.orelse, env)
        cs = costs_source(fi, e)
        if cs is not None:
            kind, it = cs
            if kind == "dev":
                raise OrdDeviation(f"{fi.name}: `{norm(e, 50)}` is not the list of the agents' costs: {it}")
            src = self.expr(fi, it, env)
            if isinstance(src, L) and src.window == ("ALL",) and src.order == "ORIG":
                return Costs(src.src)
            raise OrdDeviation(f"{fi.name}: costs are taken from `{norm(it, 40)}`, not from the whole population in order")
        if isinstance(e, ast.Subscript):
            base = self.expr(fi, e.value, env)
            return self.subscript(fi, base, e.slice, env)
        if isinstance(e, ast.Call):
            return self.call(fi, e, env)
        if isinstance(e, (ast.Compare, ast.BoolOp)) or (isinstance(e, ast.UnaryOp) and isinstance(e.op, ast.Not)):
            return Scalar(repr(bool(self.test(fi, e, env))))       # a direction / None test bound to a local
        if isinstance(e, ast.BinOp) or isinstance(e, ast.UnaryOp):
            return Scalar(self.scalar_text(fi, e, env))
        raise OrdUnknown(f"{fi.name}: expression `{norm(e, 60)}` not understood")

    def scalar_text(self, fi, e, env) -> str:
        """normalised arithmetic over parameters: names replaced by their bound scalar text."""
        class R(ast.NodeTransformer):
            def visit_Name(s, n):
                v = env.get(n.id)
                if isinstance(v, Scalar):
                    return ast.Name(id=v.text, ctx=ast.Load())
                if isinstance(v, L) and v.window == ("ALL",):
                    return ast.Name(id=v.src, ctx=ast.Load())
                return n
        import copy
        return norm(R().visit(copy.deepcopy(e)))

    def subscript(self, fi, base, sl, env):
        if isinstance(base, Tup) and isinstance(sl, ast.Constant) and isinstance(sl.value, int):
            return base.items[sl.value]
        if not isinstance(base, L):
            raise OrdUnknown(f"{fi.name}: subscript of {base}")
        if isinstance(sl, ast.Slice):
            lo, hi, st = sl.lower, sl.upper, sl.step
            if isinstance(lo, ast.Constant) and lo.value == 0 and not isinstance(lo.value, bool):
                lo = None               # x[0:n] is x[:n]
            if st is not None:
                if lo is None and hi is None and isinstance(st, ast.UnaryOp) and isinstance(st.op, ast.USub) \
                        and isinstance(st.operand, ast.Constant) and st.operand.value == 1:
                    return replace(base, order={"ASC": "DESC", "DESC": "ASC", "ORIG": "ORIG"}[base.order], fresh=True)
                raise OrdUnknown(f"{fi.name}: slice step `{norm(sl)}`")
            if base.window != ("ALL",):
                raise OrdUnknown(f"{fi.name}: slice of an already windowed list")
            if lo is None and hi is None:
                return replace(base, fresh=True)
            if lo is None:
                return replace(base, window=("FIRST", self.scalar_text(fi, hi, env)), fresh=True)
            if hi is None:
                # len(src) - n  -> LAST(n);  -n -> LASTNEG(n)
                if isinstance(lo, ast.BinOp) and isinstance(lo.op, ast.Sub) and isinstance(lo.left, ast.Call) \
                        and isinstance(lo.left.func, ast.Name) and lo.left.func.id == "len" and len(lo.left.args) == 1:
                    inner = self.expr(fi, lo.left.args[0], env)
                    if isinstance(inner, L) and inner.src == base.src and inner.window == ("ALL",):
                        return replace(base, window=("LAST", self.scalar_text(fi, lo.right, env)), fresh=True)
                if isinstance(lo, ast.UnaryOp) and isinstance(lo.op, ast.USub):
                    txt = self.scalar_text(fi, lo.operand, env)
                    if txt.isdigit() and int(txt) > 0:
                        return replace(base, window=("LAST", txt), fresh=True)     # [-k:] with a positive literal
                    return replace(base, window=("LASTNEG", txt), fresh=True)      # [-n:] is the whole list for n == 0
                # the same through locals / parameters bound to scalars: substitute first, then look at the arithmetic
                txt = self.scalar_text(fi, lo, env)
                try:
                    pe = ast.parse(txt, mode="eval").body
                except SyntaxError:
                    pe = None
                if isinstance(pe, ast.BinOp) and isinstance(pe.op, ast.Sub) and isinstance(pe.left, ast.Call) \
                        and isinstance(pe.left.func, ast.Name) and pe.left.func.id == "len" and len(pe.left.args) == 1 \
                        and isinstance(pe.left.args[0], ast.Name) and pe.left.args[0].id == base.src:
                    return replace(base, window=("LAST", norm(pe.right)), fresh=True)
                free = {x.id for x in ast.walk(pe) if isinstance(x, ast.Name)} if pe is not None else {"?"}
                known = {base.src, "len"} | {v.text for v in env.values() if isinstance(v, Scalar)}
                if not free <= known:
                    raise OrdUnknown(f"{fi.name}: slice bound `{norm(sl)}` not understood")
                return replace(base, window=("OTHER", txt + ":"), fresh=True)
            return replace(base, window=("OTHER", norm(sl)), fresh=True)
        # index
        if isinstance(sl, (ast.Call, ast.Name)):
            try:
                iv = self.expr(fi, sl, env)
            except OrdUnknown:
                iv = None
            if isinstance(iv, tuple) and iv and iv[0] == "ARG":
                # x[argmin(costs of x)]: the cheapest element = the first of the ascending order (argmax: the last)
                if iv[1] == base.src and base.window == ("ALL",) and base.order == "ORIG" and base.kind == "objs":
                    return E(base.src, "objs", "ASC", "first" if iv[2] == "min" else "last")
                raise OrdUnknown(f"{fi.name}: `{norm(sl)}` indexes a list it was not computed from")
        if isinstance(sl, ast.Constant) and sl.value == 0:
            return self.element(base, "first")
        if isinstance(sl, ast.UnaryOp) and isinstance(sl.op, ast.USub) and isinstance(sl.operand, ast.Constant) and sl.operand.value == 1:
            return self.element(base, "last")
        # x[len(y) - 1] with len(y) == len(x) (same source, whole list) is the last element
        if isinstance(sl, ast.BinOp) and isinstance(sl.op, ast.Sub) and isinstance(sl.right, ast.Constant) and sl.right.value == 1 \
                and isinstance(sl.left, ast.Call) and isinstance(sl.left.func, ast.Name) and sl.left.func.id == "len" and len(sl.left.args) == 1:
            inner = self.expr(fi, sl.left.args[0], env)
            if isinstance(inner, L) and inner.src == base.src and inner.window == ("ALL",) and base.window == ("ALL",):
                return self.element(base, "last")
        raise OrdUnknown(f"{fi.name}: index `{norm(sl)}`")

    @staticmethod
    def element(base: L, at: str):
        if base.window == ("ALL",):
            return E(base.src, base.kind, base.order, at)
        if base.window[0] == "FIRST" and at == "first":
            return E(base.src, base.kind, base.order, "first")
        if base.window[0] == "LAST" and at == "last":
            return E(base.src, base.kind, base.order, "last")
        if base.window[1] == "1" and base.window[0] in ("FIRST", "LAST"):
            return E(base.src, base.kind, base.order, "first" if base.window[0] == "FIRST" else "last")
        raise OrdUnknown(f"element {at} of {base.show()}")

    def _heapq(self, fi, d: str, c: ast.Call, env):
        """heapq.nsmallest(n, X, key=cost): the n smallest in ascending order; nlargest: the n largest in descending order"""
        v = self.expr(fi, c.args[1], env)
        if isinstance(v, L) and v.window == ("ALL",):
            order = self.sort_order(fi, ast.Call(func=c.func, args=[], keywords=[k for k in c.keywords if k.arg == "key"]), env)
            if order != "ASC":
                raise OrdUnknown(f"{fi.name}: heapq with a reversed key")
            return L(v.src, v.kind, "ASC" if d.endswith("nsmallest") else "DESC", ("FIRST", self.scalar_text(fi, c.args[0], env)), True)
        raise OrdUnknown(f"{fi.name}: heapq over {v}")

    def call(self, fi, c: ast.Call, env):
        f = c.func
        if isinstance(f, ast.IfExp) and len(c.args) == 2:
            fv = self.expr(fi, f, env)                     # (heapq.nlargest if MAX else heapq.nsmallest)(n, X, key=..)
            if isinstance(fv, tuple) and fv and fv[0] == "FUNC":
                return self._heapq(fi, fv[1], c, env)
        # methods on abstract lists
        if isinstance(f, ast.Attribute):
            if f.attr in ("copy", "tolist") and not c.args:
                v = self.expr(fi, f.value, env)
                if isinstance(v, L):
                    return replace(v, fresh=True)
                return v
            d = dotted(f)
            if d in ("np.argsort", "numpy.argsort") and c.args:
                a0 = c.args[0]
                if isinstance(a0, ast.Name) and isinstance(env.get(a0.id), Costs):
                    return L(env[a0.id].src, "idx", "ASC", ("ALL",), True)
                cs = costs_source(fi, a0)
                if cs is not None and cs[0] == "costs":
                    src = self.expr(fi, cs[1], env)
                    if isinstance(src, L) and src.window == ("ALL",) and src.order == "ORIG":
                        return L(src.src, "idx", "ASC", ("ALL",), True)
                    raise OrdDeviation(f"{fi.name}: argsort of `{norm(a0, 50)}` is not argsort of the agents' costs")
                if cs is not None and cs[0] == "dev":
                    raise OrdDeviation(f"{fi.name}: argsort of `{norm(a0, 50)}` is not argsort of the agents' costs: {cs[1]}")
                raise OrdUnknown(f"{fi.name}: argsort argument `{norm(a0, 50)}` not understood")
            if d in ("np.argmin", "numpy.argmin", "np.argmax", "numpy.argmax") and len(c.args) == 1 and not c.keywords:
                a0 = c.args[0]
                src_ = None
                if isinstance(a0, ast.Name) and isinstance(env.get(a0.id), Costs):
                    src_ = env[a0.id].src
                else:
                    cs = costs_source(fi, a0)
                    if cs is not None and cs[0] == "dev":
                        raise OrdDeviation(f"{fi.name}: `{norm(c, 50)}` is not taken over the agents' costs: {cs[1]}")
                    if cs is not None and cs[0] == "costs":
                        v_ = self.expr(fi, cs[1], env)
                        if isinstance(v_, L) and v_.window == ("ALL",) and v_.order == "ORIG":
                            src_ = v_.src
                if src_ is None:
                    raise OrdUnknown(f"{fi.name}: argument of `{norm(c, 50)}` not understood")
                return ("ARG", src_, "min" if d.endswith("argmin") else "max")
            if d in ("np.flip", "numpy.flip") and len(c.args) == 1:
                v = self.expr(fi, c.args[0], env)
                if isinstance(v, L):
                    return replace(v, order={"ASC": "DESC", "DESC": "ASC", "ORIG": "ORIG"}[v.order], fresh=True)
            if d in ("heapq.nsmallest", "heapq.nlargest") and len(c.args) == 2:
                return self._heapq(fi, d, c, env)
            if False:
                # the n smallest in ascending order / the n largest in descending order, as a new list
                v = self.expr(fi, c.args[1], env)
                if isinstance(v, L) and v.window == ("ALL",):
                    order = self.sort_order(fi, ast.Call(func=c.func, args=[], keywords=[k for k in c.keywords if k.arg == "key"]), env)
                    if order != "ASC":
                        raise OrdUnknown(f"{fi.name}: heapq with a reversed key")
                    return L(v.src, v.kind, "ASC" if d.endswith("nsmallest") else "DESC", ("FIRST", self.scalar_text(fi, c.args[0], env)), True)
        if isinstance(f, ast.Name) and isinstance(env.get(f.id), tuple) and env[f.id] and env[f.id][0] == "FUNC" and len(c.args) == 2:
            return self._heapq(fi, env[f.id][1], c, env)
        if isinstance(f, ast.Name) and isinstance(env.get(f.id), tuple) and env[f.id] and env[f.id][0] in ("CLOSURE", "FUNCREF"):
            kind_ = env[f.id][0]
            if kind_ == "FUNCREF":
                callee = self.prog.functions[env[f.id][1]]
                a = callee.node.args
                params = [x.arg for x in a.posonlyargs + a.args]
                args = {}
                for p_, x in zip(params, c.args):
                    args[p_] = self.expr(fi, x, env)
                for k in c.keywords:
                    if k.arg is None:
                        raise OrdUnknown(f"{fi.name}: **kwargs in call of {callee.name}")
                    args[k.arg] = self.expr(fi, k.value, env)
                return self.call_helper(callee, args)
            node_, outer_env = env[f.id][1], env[f.id][2]
            params = [x.arg for x in node_.args.posonlyargs + node_.args.args]
            defaults = dict(zip(params[len(params) - len(node_.args.defaults):], node_.args.defaults))
            local = dict(outer_env)
            local.update({k_: v_ for k_, v_ in env.items() if k_ not in local})
            for p_, x in zip(params, c.args):
                local[p_] = self.expr(fi, x, env)
            for k in c.keywords:
                if k.arg is None or k.arg not in params:
                    raise OrdUnknown(f"{fi.name}: call of local helper {f.id} with unknown keyword")
                local[k.arg] = self.expr(fi, k.value, env)
            for p_ in params:
                if p_ not in local or (p_ not in [pp for pp, _x in zip(params, c.args)] and p_ not in [k.arg for k in c.keywords]):
                    if p_ in defaults:
                        local[p_] = self.const(defaults[p_])
                    elif p_ not in local:
                        raise OrdUnknown(f"{fi.name}: parameter {p_} of local helper {f.id} not bound")
            self.depth += 1
            try:
                if self.depth > 12:
                    raise OrdUnknown("helper recursion too deep")
                return self.block(fi, node_.body, local)
            finally:
                self.depth -= 1
        if isinstance(f, ast.Name):
            if f.id in ("list", "tuple") and len(c.args) == 1:
                v = self.expr(fi, c.args[0], env)
                if isinstance(v, L):
                    return replace(v, fresh=True)
            if f.id == "reversed" and len(c.args) == 1:
                v = self.expr(fi, c.args[0], env)
                if isinstance(v, L):
                    return replace(v, order={"ASC": "DESC", "DESC": "ASC", "ORIG": "ORIG"}[v.order], fresh=True)
            if f.id == "sorted" and c.args:
                v = self.expr(fi, c.args[0], env)
                if isinstance(v, L):
                    return replace(v, order=self.sort_order(fi, c, env), fresh=True)
            if f.id in ("min", "max") and len(c.args) == 1:
                v = self.expr(fi, c.args[0], env)
                if isinstance(v, L) and v.window == ("ALL",):
                    self.sort_order(fi, c, env)   # validates key
                    return E(v.src, v.kind, "ASC", "first" if f.id == "min" else "last")
            if f.id == "int" and len(c.args) == 1 and not c.keywords:
                v = self.expr(fi, c.args[0], env)
                if isinstance(v, tuple) and v and v[0] == "ARG":
                    return v
                if isinstance(v, Scalar):
                    return Scalar(self.scalar_text(fi, c, env))
                raise OrdUnknown(f"{fi.name}: call `{norm(c, 60)}` not understood")
            if f.id == "len" and len(c.args) == 1:
                return Scalar(self.scalar_text(fi, c, env))
            # another helper of helpers.py
            t = self.prog.resolve_name(fi.module, f.id)
            if t.kind == "func" and t.ref in self.prog.functions:
                callee = self.prog.functions[t.ref]
                a = callee.node.args
                params = [x.arg for x in a.posonlyargs + a.args]
                args = {}
                for p, x in zip(params, c.args):
                    args[p] = self.expr(fi, x, env)
                for k in c.keywords:
                    if k.arg is None:
                        raise OrdUnknown(f"{fi.name}: **kwargs in call of {f.id}")
                    args[k.arg] = self.expr(fi, k.value, env)
                return self.call_helper(callee, args)
        raise OrdUnknown(f"{fi.name}: call `{norm(c, 60)}` not understood")


def run_paths(make_run, limit: int = 32) -> list:
    """Explore every combination of outcomes of the branchable tests.  make_run(choices) -> (evaluator, result); the
    evaluator records the path it took.  -> [(path, result, evaluator)]"""
    out = []
    work = [[]]
    seen = set()
    while work:
        ch = work.pop()
        ev, got = make_run(list(ch))
        path = tuple(ev.path)
        if path in seen:
            continue
        seen.add(path)
        out.append((list(ev.path), got, ev))
        if len(out) > limit:
            raise OrdUnknown("too many paths")
        # every prefix of the path taken, with the last outcome flipped, is another path
        for i in range(len(ch), len(ev.path)):
            alt = [b for (_t, b) in ev.path[:i]] + [not ev.path[i][1]]
            work.append(alt)
    return out


def pinned_empty(path: list, got) -> bool:
    """the path is taken only for a zero count and returns an empty list for it: consistent with FIRST(0) / LAST(0)"""
    import re as _re
    zero = any((b and _re.fullmatch(r"(\w+) (==|<=) 0|(\w+) < 1|not \w+", t)) or ((not b) and _re.fullmatch(r"\w+|(\w+) (>|!=) 0|(\w+) >= 1|0 < \w+", t))
               for (t, b) in path)
    return zero and isinstance(got, L) and got.src == "<empty>"


def pins_of(path: list) -> dict:
    """{count name: literal} for the `name == <int>` tests that hold on the path"""
    import re as _re
    out = {}
    for (t, b) in path:
        m = _re.fullmatch(r"(\w+) == (\d+)", t) or None
        if m and b:
            out[m.group(1)] = m.group(2)
        m2 = _re.fullmatch(r"(\w+) != (\d+)", t)
        if m2 and not b:
            out[m2.group(1)] = m2.group(2)
    return out


def evaluate(prog: Program, name: str, direction: str, n_params: Optional[dict] = None, ok=None):
    """Abstract result of helpers.<name>(population, <counts>, task_type=direction).  When the helper branches on its counts
    / the population size every path is evaluated; with an acceptance predicate `ok` the first path whose result is not
    accepted is returned (its conditions are in ev.path), otherwise the results must agree."""
    def one(choices):
        return _evaluate_once(prog, name, direction, n_params, choices)
    paths = run_paths(lambda ch: tuple(reversed(one(ch))))
    if len(paths) == 1:
        return paths[0][1], paths[0][2]
    results = [(p_, g_, e_) for (p_, g_, e_) in paths if not pinned_empty(p_, g_)]
    if ok is not None:
        import inspect as _inspect
        two = len(_inspect.signature(ok).parameters) >= 2
        for (p_, g_, e_) in results:
            if not (ok(g_, pins_of(p_)) if two else ok(g_)):
                return g_, e_
        return results[0][1], results[0][2]
    first = results[0]
    if all(g_ == first[1] for (_p, g_, _e) in results):
        return first[1], first[2]
    raise OrdUnknown(f"{name}: the result depends on " + " / ".join(sorted({t for (p_, _g, _e) in results for (t, _b) in p_})))


def _evaluate_once(prog: Program, name: str, direction: str, n_params: Optional[dict], choices: list):
    fi = prog.func(f"{HELPERS}.{name}")
    ev = Evaluator(prog, direction)
    ev.choices = list(choices)
    args = {}
    for p in fi.params:
        if p == "population":
            args[p] = L("population")
        elif p == "task_type":
            args[p] = ("DIR", direction)
        elif n_params and p in n_params:
            args[p] = Scalar(n_params[p])
        elif p in ("n_best", "n_worst", "population_size"):
            args[p] = Scalar(p)
    out = ev.call_helper(fi, args)
    return out, ev
