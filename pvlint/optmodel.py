"""Role extraction for OptimizationAbstract.optimize() (shared by C03, C04, C06, C07, C15, C18, packaging).

Roles are found by data flow, not by name: the *history* is whatever list reaches ``evolution=`` of the returned
OptimizationResult; a *snapshot* is a Population(agents=self._population, ..) appended to (or used to initialise) that
list; the *stop decision* is the third result of self.__error_check__(); the loop is left by ``if <stop>: break`` in a
``while True`` or by the condition of ``while not <stop>``; the counter update is ``self._current_cycle += 1`` executed
exactly when the loop continues.  Anything that cannot be mapped raises AnalysisError (exit 2) - never a guess.
"""
from __future__ import annotations

import ast
from dataclasses import dataclass, field
from typing import Optional

from .callgraph import own_nodes
from .flow import origin, top_level_stmts
from .model import PKG, AnalysisError, FuncInfo, Program, dotted, norm, parent

ABSTRACT = f"{PKG}.abstract.OptimizationAbstract"


def simple_assigns(fnode):
    """(name, value, stmt) for every `x = v` / `x: T = v` in the function's own scope."""
    for n in own_nodes(fnode):
        if isinstance(n, ast.Assign) and len(n.targets) == 1 and isinstance(n.targets[0], ast.Name):
            yield n.targets[0].id, n.value, n
        elif isinstance(n, ast.AnnAssign) and isinstance(n.target, ast.Name) and n.value is not None:
            yield n.target.id, n.value, n


def is_population_call(e: ast.AST) -> bool:
    return isinstance(e, ast.Call) and dotted(e.func) == "Population"


@dataclass
class Ev:
    kind: str            # step | snapshot | best | check | exit-if | inc | debug | other
    stmt: ast.AST
    detail: dict = field(default_factory=dict)


@dataclass
class OptModel:
    fn: FuncInfo
    body: list
    history: str
    result_call: ast.Call
    loop: ast.While
    loop_kind: str                 # 'while-true' | 'while-not-stop'
    stop_var: Optional[str]
    pre: list
    events: list                   # Ev of the loop body, in order
    post: list
    pre_snapshots: list
    pre_best: list


def is_step_call(st) -> bool:
    return isinstance(st, ast.Expr) and isinstance(st.value, ast.Call) and dotted(st.value.func) == "self.optimization_step"


def snapshot_of(st: ast.AST, history: str) -> Optional[ast.Call]:
    """The Population(..) call recorded by this statement, if it is a snapshot statement."""
    if isinstance(st, ast.Expr) and isinstance(st.value, ast.Call) and dotted(st.value.func) == f"{history}.append" \
            and len(st.value.args) == 1 and is_population_call(st.value.args[0]):
        return st.value.args[0]
    if isinstance(st, ast.AugAssign) and isinstance(st.op, ast.Add) and dotted(st.target) == history \
            and isinstance(st.value, ast.List) and len(st.value.elts) == 1 and is_population_call(st.value.elts[0]):
        return st.value.elts[0]
    if isinstance(st, (ast.Assign, ast.AnnAssign)):
        tgt = st.targets[0] if isinstance(st, ast.Assign) and len(st.targets) == 1 else getattr(st, "target", None)
        if isinstance(tgt, ast.Name) and tgt.id == history and isinstance(st.value, ast.List) and len(st.value.elts) == 1 \
                and is_population_call(st.value.elts[0]):
            return st.value.elts[0]
    return None


def best_assign_call(st: ast.AST) -> Optional[ast.Call]:
    if isinstance(st, ast.Assign) and isinstance(st.value, ast.Call) and dotted(st.value.func) == "special_agents":
        if any(isinstance(n, ast.Attribute) and dotted(n) == "self._best_agent" for t in st.targets for n in ast.walk(t)):
            return st.value
    return None


def check_assign(st: ast.AST):
    """-> (stop variable name | None) if the statement binds the results of self.__error_check__()"""
    if isinstance(st, ast.Assign) and isinstance(st.value, ast.Call) and dotted(st.value.func) == "self.__error_check__":
        t = st.targets[0]
        if isinstance(t, ast.Tuple) and len(t.elts) == 3 and isinstance(t.elts[2], ast.Name):
            return t.elts[2].id
        return ""
    return None


def _is_not(e: ast.AST, name: str) -> bool:
    return isinstance(e, ast.UnaryOp) and isinstance(e.op, ast.Not) and isinstance(e.operand, ast.Name) and e.operand.id == name


def is_inc(st: ast.AST) -> bool:
    return isinstance(st, ast.AugAssign) and dotted(st.target) == "self._current_cycle"


def extract(prog: Program) -> OptModel:
    fn = prog.func(f"{ABSTRACT}.optimize")
    body = top_level_stmts(fn.node)
    rets = [n for n in own_nodes(fn) if isinstance(n, ast.Return)]
    rc = None
    for r in rets:
        v = origin(fn.node, r.value) if r.value is not None else None
        if isinstance(v, ast.Call) and dotted(v.func) == "OptimizationResult":
            rc = v
    if rc is None or len(rets) != 1:
        raise AnalysisError("optimize(): a single `return OptimizationResult(..)` was not found")
    kws = {k.arg: k.value for k in rc.keywords}
    hv = kws.get("evolution")
    if not isinstance(hv, ast.Name):
        raise AnalysisError("optimize(): the history passed as evolution= is not a local list")
    history = hv.id
    loops = [st for st in body if isinstance(st, ast.While)]
    inner = [n for n in own_nodes(fn) if isinstance(n, (ast.While, ast.For)) and n not in loops]
    if len(loops) != 1:
        raise AnalysisError(f"optimize() has {len(loops)} top-level while loops; 1 confirmed")
    loop = loops[0]
    li = body.index(loop)
    pre, post = body[:li], body[li + 1:]
    # loop kind / stop variable
    stop_var = None
    for st in loop.body:
        sv = check_assign(st)
        if sv:
            stop_var = sv
    if isinstance(loop.test, ast.Constant) and loop.test.value is True:
        kind = "while-true"
    elif stop_var and _is_not(loop.test, stop_var):
        kind = "while-not-stop"
    else:
        kind = f"while {norm(loop.test, 40)}"
    events = []
    for st in loop.body:
        if is_step_call(st):
            events.append(Ev("step", st))
        elif snapshot_of(st, history) is not None:
            events.append(Ev("snapshot", st, {"call": snapshot_of(st, history)}))
        elif best_assign_call(st) is not None:
            events.append(Ev("best", st, {"call": best_assign_call(st)}))
        elif check_assign(st) is not None:
            events.append(Ev("check", st, {"stop": check_assign(st)}))
        elif isinstance(st, ast.If) and len(st.body) == 1 and isinstance(st.body[0], ast.Break) and not st.orelse:
            events.append(Ev("exit-if", st, {"test": st.test}))
        elif is_inc(st):
            events.append(Ev("inc", st, {"guard": None}))
        elif isinstance(st, ast.If) and not st.orelse and len(st.body) == 1 and is_inc(st.body[0]):
            events.append(Ev("inc", st.body[0], {"guard": st.test}))
        elif isinstance(st, ast.If) and dotted(st.test) == "self._debug":
            events.append(Ev("debug", st))
        else:
            events.append(Ev("other", st))
    return OptModel(fn=fn, body=body, history=history, result_call=rc, loop=loop, loop_kind=kind, stop_var=stop_var,
                    pre=pre, events=events, post=post,
                    pre_snapshots=[st for st in pre if snapshot_of(st, history) is not None],
                    pre_best=[st for st in pre if best_assign_call(st) is not None])
