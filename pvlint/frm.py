"""FRM: guarded-boolean formula extraction and normal form (C04, C06, C13).

``formula_of(fnode)`` symbolically executes a small boolean function (assignments, ``|=``, ``&=``,
``x = x or e``, ``if`` guards without loops, early returns) and returns its result as a formula tree;
``dnf(f)`` flattens it into a set of disjuncts, each a frozenset of canonical atoms.  Atoms are
comparison / call expressions after substitution of local names by their defining expressions,
with comparisons mirrored into ``<`` / ``<=`` orientation and comprehension variables renamed.
"""
from __future__ import annotations

import ast
import copy
from typing import Optional

from .model import norm


class FrmUnknown(Exception):
    pass


# formula nodes: ('atom', text) | ('or', [..]) | ('and', [..]) | ('not', f) | ('true',) | ('false',)

def f_or(a, b):
    if a == ("true",) or b == ("true",):
        return ("true",)
    if a == ("false",):
        return b
    if b == ("false",):
        return a
    return ("or", [a, b])


def f_and(a, b):
    if a == ("false",) or b == ("false",):
        return ("false",)
    if a == ("true",):
        return b
    if b == ("true",):
        return a
    return ("and", [a, b])


def f_not(a):
    if a == ("true",):
        return ("false",)
    if a == ("false",):
        return ("true",)
    if a[0] == "not":
        return a[1]
    return ("not", a)


class _Subst(ast.NodeTransformer):
    def __init__(self, env):
        self.env = env

    def visit_Name(self, n):
        if isinstance(n.ctx, ast.Load) and n.id in self.env and isinstance(self.env[n.id], ast.AST):
            return copy.deepcopy(self.env[n.id])
        return n


def subst(e: ast.AST, env: dict) -> ast.AST:
    return ast.fix_missing_locations(_Subst(env).visit(copy.deepcopy(e)))


_MIRROR = {ast.Gt: ast.Lt, ast.GtE: ast.LtE}


def canon_expr(e: ast.AST) -> str:
    """Canonical text of a (substituted) expression."""
    e = copy.deepcopy(e)

    class C(ast.NodeTransformer):
        def visit_Compare(self, n):
            self.generic_visit(n)
            if len(n.ops) == 1 and type(n.ops[0]) in _MIRROR:
                return ast.Compare(left=n.comparators[0], ops=[_MIRROR[type(n.ops[0])]()], comparators=[n.left])
            return n

        def visit_BoolOp(self, n):
            self.generic_visit(n)
            if isinstance(n.op, ast.And):
                # under a conjunct `X < 0` (canonical: `X < 0` stays, `0 > X` was mirrored), abs(X) is -X
                negs = set()
                for v in n.values:
                    if isinstance(v, ast.Compare) and len(v.ops) == 1 and isinstance(v.ops[0], ast.Lt) \
                            and isinstance(v.comparators[0], ast.Constant) and v.comparators[0].value == 0:
                        negs.add(norm(v.left, 200))
                if negs:
                    class A(ast.NodeTransformer):
                        def visit_Call(s, c):
                            s.generic_visit(c)
                            if isinstance(c.func, ast.Name) and c.func.id == "abs" and len(c.args) == 1 and not c.keywords \
                                    and norm(c.args[0], 200) in negs:
                                return ast.UnaryOp(op=ast.USub(), operand=c.args[0])
                            return c
                    n = ast.BoolOp(op=n.op, values=[A().visit(v) for v in n.values])
            vals = sorted(n.values, key=lambda v: norm(v, 400))
            return ast.BoolOp(op=n.op, values=vals)

        def visit_ListComp(self, n):
            return self._comp(n)

        def visit_GeneratorExp(self, n):
            return self._comp(n)

        def _comp(self, n):
            # rename the comprehension variable(s) positionally
            if len(n.generators) == 1:
                tg = n.generators[0].target
                olds = [tg.id] if isinstance(tg, ast.Name) else \
                    [e.id for e in tg.elts] if isinstance(tg, ast.Tuple) and all(isinstance(e, ast.Name) for e in tg.elts) else []
                ren = {o: ("_v" if len(olds) == 1 else f"_v{i}") for i, o in enumerate(olds)}

                class R(ast.NodeTransformer):
                    def visit_Name(s, m):
                        if m.id in ren:
                            return ast.Name(id=ren[m.id], ctx=m.ctx)
                        return m
                n = R().visit(n)
            self.generic_visit(n)
            return ast.GeneratorExp(elt=n.elt, generators=n.generators)

        def visit_Call(self, n):
            self.generic_visit(n)
            # np.any(np.array(X)) / np.any(X) over a comprehension == any(X); same for all
            from .model import dotted as _d
            d = _d(n.func)
            if d in ("np.any", "numpy.any", "np.all", "numpy.all") and len(n.args) == 1 and not n.keywords:
                x = n.args[0]
                if isinstance(x, ast.Call) and _d(x.func) in ("np.array", "numpy.array", "np.asarray", "list") and len(x.args) == 1:
                    x = x.args[0]
                if isinstance(x, (ast.GeneratorExp, ast.ListComp)):
                    return ast.Call(func=ast.Name(id=d.split(".")[1], ctx=ast.Load()), args=[x], keywords=[])
            return n
    e = ast.fix_missing_locations(C().visit(e))
    return norm(e, 400)


def to_formula(e: ast.AST, env: dict, bool_vars: dict):
    """Expression -> formula; names bound to formulas (bool accumulators) are expanded."""
    if isinstance(e, ast.Constant) and isinstance(e.value, bool):
        return ("true",) if e.value else ("false",)
    if isinstance(e, ast.Name) and e.id in bool_vars:
        return bool_vars[e.id]
    if isinstance(e, ast.BoolOp):
        parts = [to_formula(v, env, bool_vars) for v in e.values]
        out = parts[0]
        for p in parts[1:]:
            out = f_or(out, p) if isinstance(e.op, ast.Or) else f_and(out, p)
        return out
    if isinstance(e, ast.UnaryOp) and isinstance(e.op, ast.Not):
        return f_not(to_formula(e.operand, env, bool_vars))
    if isinstance(e, ast.IfExp):
        t = to_formula(e.test, env, bool_vars)
        return f_or(f_and(t, to_formula(e.body, env, bool_vars)), f_and(f_not(t), to_formula(e.orelse, env, bool_vars)))
    if isinstance(e, ast.BinOp) and isinstance(e.op, (ast.BitOr, ast.BitAnd)):
        a, b = to_formula(e.left, env, bool_vars), to_formula(e.right, env, bool_vars)
        return f_or(a, b) if isinstance(e.op, ast.BitOr) else f_and(a, b)
    if isinstance(e, ast.Name) and e.id in env and isinstance(env[e.id], ast.AST) and _boolish_expr(env[e.id]):
        return to_formula(env[e.id], {k: v for k, v in env.items() if k != e.id}, bool_vars)
    if isinstance(e, ast.Call) and isinstance(e.func, ast.Name) and e.func.id == "bool" and len(e.args) == 1 and not e.keywords:
        return to_formula(e.args[0], env, bool_vars)
    return ("atom", canon_expr(subst(e, env)))


def _boolish_expr(e: ast.AST) -> bool:
    return isinstance(e, (ast.Compare, ast.BoolOp, ast.IfExp)) or (isinstance(e, ast.Constant) and isinstance(e.value, bool)) \
        or (isinstance(e, ast.UnaryOp) and isinstance(e.op, ast.Not)) \
        or (isinstance(e, ast.BinOp) and isinstance(e.op, (ast.BitOr, ast.BitAnd))) \
        or (isinstance(e, ast.Call) and isinstance(e.func, ast.Name) and e.func.id in ("all", "any", "bool"))


def formula_of(fnode, ignore_calls=("print",)) -> tuple:
    """Formula of the value returned by a small boolean function."""
    env: dict = {}          # name -> defining expression (ast) for non-boolean locals
    bvars: dict = {}        # name -> formula for boolean accumulators

    def is_boolish(e):
        if isinstance(e, ast.IfExp):
            return is_boolish(e.body) and is_boolish(e.orelse)
        if isinstance(e, ast.BinOp) and isinstance(e.op, (ast.BitOr, ast.BitAnd)):
            return is_boolish(e.left) and is_boolish(e.right)
        return isinstance(e, (ast.Compare, ast.BoolOp)) or (isinstance(e, ast.Constant) and isinstance(e.value, bool)) \
            or (isinstance(e, ast.UnaryOp) and isinstance(e.op, ast.Not)) \
            or (isinstance(e, ast.Call) and isinstance(e.func, ast.Name) and e.func.id in ("all", "any", "bool")) \
            or (isinstance(e, ast.Name) and e.id in bvars)

    def block(stmts, path):
        """returns (returned_formula or None, fallthrough_possible)"""
        result = ("false",)
        for st in stmts:
            if isinstance(st, ast.Expr):
                if isinstance(st.value, ast.Constant):
                    continue
                if isinstance(st.value, ast.Call) and isinstance(st.value.func, ast.Name) and st.value.func.id in ignore_calls:
                    continue
                raise FrmUnknown(f"statement `{norm(st, 60)}`")
            if isinstance(st, ast.AnnAssign) and st.value is not None and isinstance(st.target, ast.Name):
                st = ast.copy_location(ast.Assign(targets=[st.target], value=st.value), st)
            if isinstance(st, (ast.FunctionDef, ast.Pass)):
                continue      # remaining local helper definitions: their uses stay opaque atoms
            if isinstance(st, ast.Assign) and len(st.targets) == 1:
                t = st.targets[0]
                if isinstance(t, ast.Name):
                    if is_boolish(st.value):
                        new = to_formula(st.value, env, bvars)
                        old = bvars.get(t.id, ("false",))
                        bvars[t.id] = f_or(f_and(path, new), f_and(f_not(path), old)) if path != ("true",) else new
                    else:
                        env[t.id] = subst(st.value, env)
                    continue
                if isinstance(t, ast.Tuple) and isinstance(st.value, ast.Tuple) and len(t.elts) == len(st.value.elts):
                    vals = [subst(v, env) for v in st.value.elts]
                    for tt, v in zip(t.elts, vals):
                        if not isinstance(tt, ast.Name):
                            raise FrmUnknown(f"target `{norm(tt)}`")
                        env[tt.id] = v
                    continue
                raise FrmUnknown(f"assignment `{norm(st, 60)}`")
            if isinstance(st, ast.AugAssign) and isinstance(st.target, ast.Name) and isinstance(st.op, (ast.BitOr, ast.BitAnd)):
                old = bvars.get(st.target.id)
                if old is None:
                    raise FrmUnknown(f"`{norm(st, 60)}` on an unknown accumulator")
                new = to_formula(st.value, env, bvars)
                if isinstance(st.op, ast.BitOr):
                    bvars[st.target.id] = f_or(old, f_and(path, new))
                else:
                    bvars[st.target.id] = f_and(old, f_or(f_not(path), new))
                continue
            if isinstance(st, ast.If):
                g = to_formula(st.test, env, bvars)
                r1 = block(st.body, f_and(path, g))
                r2 = block(st.orelse, f_and(path, f_not(g))) if st.orelse else (None, True)
                if r1[0] is not None:
                    result = f_or(result, r1[0])
                if r2[0] is not None:
                    result = f_or(result, r2[0])
                if not r1[1] and not r2[1]:
                    return result, False
                if not r1[1]:
                    path = f_and(path, f_not(g))
                elif not r2[1]:
                    path = f_and(path, g)
                continue
            if isinstance(st, ast.Return):
                if st.value is None:
                    raise FrmUnknown("bare return")
                return f_or(result, f_and(path, to_formula(st.value, env, bvars))), False
            if isinstance(st, ast.Raise):
                return result, False
            raise FrmUnknown(f"statement `{norm(st, 60)}`")
        return (result if result != ("false",) else None), True

    r, fall = block(fnode.body, ("true",))
    if r is None:
        raise FrmUnknown("function returns no boolean")
    return r


def dnf(f) -> frozenset:
    """Set of disjuncts, each a frozenset of literal strings ('!' prefix for negation)."""
    k = f[0]
    if k == "true":
        return frozenset([frozenset()])
    if k == "false":
        return frozenset()
    if k == "atom":
        return frozenset([frozenset([f[1]])])
    if k == "not":
        g = f[1]
        if g[0] == "atom":
            return frozenset([frozenset([_neg_atom(g[1])])])
        if g[0] == "or":
            return dnf(("and", [f_not(x) for x in g[1]]))
        if g[0] == "and":
            return dnf(("or", [f_not(x) for x in g[1]]))
        return dnf(g[1]) if g[0] == "not" else frozenset()
    if k == "or":
        out = set()
        for x in f[1]:
            out |= set(dnf(x))
        return frozenset(out)
    if k == "and":
        acc = [frozenset()]
        for x in f[1]:
            nxt = []
            for d in dnf(x):
                for a in acc:
                    nxt.append(a | d)
            acc = nxt
        return frozenset(_simplify(a) for a in acc if _consistent(a))
    raise FrmUnknown(f"formula node {k}")


_NEG = {" is not ": " is ", " is ": " is not ", " < ": " >= ", " <= ": " > ", " == ": " != ", " != ": " == "}


def _neg_atom(a: str) -> str:
    """Negation of an atom: a *top-level* comparison is negated structurally, anything else gets a `!` prefix."""
    if a.startswith("!"):
        return a[1:]
    try:
        e = ast.parse(a, mode="eval").body
    except SyntaxError:
        return "!" + a
    if isinstance(e, ast.Compare) and len(e.ops) == 1:
        l, r, op = norm(e.left, 400), norm(e.comparators[0], 400), e.ops[0]
        if isinstance(op, ast.IsNot):
            return f"{l} is {r}"
        if isinstance(op, ast.Is):
            return f"{l} is not {r}"
        if isinstance(op, ast.Eq):
            return f"{l} != {r}"
        if isinstance(op, ast.NotEq):
            return f"{l} == {r}"
        if isinstance(op, ast.Lt):
            return f"{r} <= {l}"
        if isinstance(op, ast.LtE):
            return f"{r} < {l}"
    return "!" + a


def _consistent(conj: frozenset) -> bool:
    for a in conj:
        if ("!" + a) in conj or _neg_atom(a) in conj and _neg_atom(a) != a:
            return False
    return True


def _simplify(conj: frozenset) -> frozenset:
    return conj


def absorb(d: frozenset) -> frozenset:
    """Drop disjuncts that are supersets of another disjunct."""
    out = set(d)
    for a in d:
        for b in d:
            if a is not b and b < a and a in out:
                out.discard(a)
    return frozenset(out)


# ---------------------------------------------------------------------------------------------
# propositional equivalence by truth table over base atoms (complementary comparisons share a base)
# ---------------------------------------------------------------------------------------------

def base_atom(a: str) -> tuple:
    """(base text, polarity).  `x < y` is the negation of base `y <= x`; `is not` of `is`; `!=` of `==` (top level only)."""
    if a.startswith("!"):
        b, p = base_atom(a[1:])
        return b, not p
    try:
        e = ast.parse(a, mode="eval").body
    except SyntaxError:
        return a, True
    if isinstance(e, ast.Compare) and len(e.ops) == 1:
        l, r, op = norm(e.left, 400), norm(e.comparators[0], 400), e.ops[0]
        if isinstance(op, ast.IsNot):
            return f"{l} is {r}", False
        if isinstance(op, ast.NotEq):
            return f"{l} == {r}", False
        if isinstance(op, ast.Lt):
            return f"{r} <= {l}", False
    return a, True


_PLAIN_CALLS = {"abs", "len", "all", "any", "isinstance", "min", "max", "sum", "float", "int", "list", "tuple", "np.any", "np.all",
                "np.array", "np.abs", "zip", "range", "enumerate", "bool", "round", "np.isnan", "np.isinf", "np.isfinite", "set",
                "sorted", "os.cpu_count", "str", "type"}


def require_plain_atoms(f) -> None:
    """Every atom of a formula must be an expression over names, attributes, constants, comparisons, arithmetic, subscripts,
    comprehensions and a fixed set of pure builtins.  An atom containing any other call (a helper, a method of an object the
    evaluator did not model) means the evaluator did not understand the code: FrmUnknown, never a verdict."""
    for a in atoms_of(f):
        try:
            e = ast.parse(a, mode="eval").body
        except SyntaxError:
            raise FrmUnknown(f"atom `{a[:60]}` is not an expression")
        for n in ast.walk(e):
            if isinstance(n, ast.Call):
                d = None
                if isinstance(n.func, ast.Name):
                    d = n.func.id
                elif isinstance(n.func, ast.Attribute) and isinstance(n.func.value, ast.Name):
                    d = f"{n.func.value.id}.{n.func.attr}"
                if d not in _PLAIN_CALLS:
                    raise FrmUnknown(f"the condition `{a[:70]}` goes through `{ast.unparse(n.func)[:40]}(..)`, which is not modelled")
            elif isinstance(n, (ast.Lambda, ast.NamedExpr, ast.Await, ast.Yield, ast.YieldFrom, ast.Starred)):
                raise FrmUnknown(f"the condition `{a[:70]}` uses a construct that is not modelled")


def atoms_of(f, acc=None) -> set:
    acc = set() if acc is None else acc
    if f[0] == "atom":
        acc.add(base_atom(f[1])[0])
    elif f[0] in ("or", "and"):
        for x in f[1]:
            atoms_of(x, acc)
    elif f[0] == "not":
        atoms_of(f[1], acc)
    return acc


def evaluate(f, val: dict) -> bool:
    k = f[0]
    if k == "true":
        return True
    if k == "false":
        return False
    if k == "atom":
        b, p = base_atom(f[1])
        return val[b] if p else not val[b]
    if k == "not":
        return not evaluate(f[1], val)
    if k == "or":
        return any(evaluate(x, val) for x in f[1])
    if k == "and":
        return all(evaluate(x, val) for x in f[1])
    raise FrmUnknown(k)


def from_dnf_spec(disjuncts: list):
    """[[atom text, ...], ...] -> formula"""
    out = ("false",)
    for d in disjuncts:
        c = ("true",)
        for a in d:
            c = f_and(c, ("atom", a))
        out = f_or(out, c)
    return out


def equivalent(f, g, limit: int = 14):
    """-> (True, None) or (False, counterexample assignment as dict)."""
    names = sorted(atoms_of(f) | atoms_of(g))
    if len(names) > limit:
        raise FrmUnknown(f"{len(names)} atoms: truth table too large")
    for bits in range(1 << len(names)):
        val = {n: bool(bits >> i & 1) for i, n in enumerate(names)}
        if evaluate(f, val) != evaluate(g, val):
            return False, val
    return True, None


# ---------------------------------------------------------------------------------------------
# rejection formula of a validator-like function
# ---------------------------------------------------------------------------------------------

def raise_formula(prog, fi, env0=None, depth: int = 2):
    """-> (R_value, R_other): the conditions under which the function raises ValueError / anything else, as formulas over
    canonical atoms; statement-level calls of package functions are followed (parameters substituted by the arguments)."""
    from .model import dotted as _d
    env = dict(env0 or {})
    R = {"value": ("false",), "other": ("false",)}

    def block(stmts, path):
        """returns the path condition under which control falls through the block"""
        for st in stmts:
            if isinstance(st, ast.Expr) and isinstance(st.value, ast.Constant):
                continue
            if isinstance(st, (ast.Assign, ast.AnnAssign)):
                t = st.targets[0] if isinstance(st, ast.Assign) and len(st.targets) == 1 else getattr(st, "target", None)
                if isinstance(t, ast.Name) and st.value is not None:
                    env[t.id] = subst(st.value, env)
                continue
            if isinstance(st, ast.If):
                g = to_formula(st.test, env, {})
                a = block(st.body, f_and(path, g))
                b = block(st.orelse, f_and(path, f_not(g))) if st.orelse else f_and(path, f_not(g))
                path = f_or(a, b)
                if path == ("false",):
                    return path
                continue
            if isinstance(st, ast.Raise):
                exc = _d(st.exc.func) if isinstance(st.exc, ast.Call) else (_d(st.exc) if st.exc is not None else "?")
                k = "value" if exc == "ValueError" else "other"
                R[k] = f_or(R[k], path)
                return ("false",)
            if isinstance(st, ast.Return):
                return ("false",)
            if isinstance(st, ast.Expr) and isinstance(st.value, ast.Call) and depth > 0:
                c = st.value
                tgt = None
                if isinstance(c.func, ast.Name):
                    t = prog.resolve_name(fi.module, c.func.id)
                    if t.kind == "func" and t.ref in prog.functions:
                        tgt = prog.functions[t.ref]
                if tgt is not None and not c.keywords and len(c.args) == len(tgt.params):
                    sub_env = {p: subst(a, env) for p, a in zip(tgt.params, c.args)}
                    rv, ro = raise_formula(prog, tgt, sub_env, depth - 1)
                    R["value"] = f_or(R["value"], f_and(path, rv))
                    R["other"] = f_or(R["other"], f_and(path, ro))
                    path = f_and(path, f_not(f_or(rv, ro)))
                continue
            # anything else: ignored (no effect on which inputs are rejected), loops make the analysis give up
            if isinstance(st, ast.Try):
                # what a try block rejects depends on library exceptions: it contributes nothing *provable* to the
                # rejection condition; names it binds become opaque
                for x in ast.walk(st):
                    if isinstance(x, ast.Name) and isinstance(x.ctx, ast.Store):
                        env.pop(x.id, None)
                continue
            if isinstance(st, (ast.For, ast.While, ast.With)):
                raise FrmUnknown(f"statement `{norm(st, 50)}` in a validator")
        return path
    block(fi.node.body, ("true",))
    return R["value"], R["other"]
