"""Findings protocol, known-findings file, evidence writer (DESIGN.md 3.7)."""
from __future__ import annotations

import hashlib
import json
import os
import re
import sys
import time
from dataclasses import dataclass, field
from typing import Optional

VERIF = os.path.dirname(os.path.dirname(os.path.abspath(__file__)))
KNOWN_FILE = os.path.join(VERIF, "KNOWN_FINDINGS.txt")


@dataclass
class Finding:
    prop: str
    rule: str
    key: str            # construct key: where::normalised statement
    loc: str            # file:line (diagnostic only, never part of the identity)
    msg: str
    path: list = field(default_factory=list)   # call path / CFG path for path rules

    @property
    def fkey(self) -> str:
        return f"{self.rule}@{self.key}"

    def to_json(self) -> dict:
        return {"property": self.prop, "rule": self.rule, "construct": self.key, "loc": self.loc,
                "message": self.msg, "path": self.path}


@dataclass
class Result:
    prop: str
    findings: list = field(default_factory=list)
    notes: list = field(default_factory=list)
    obligations: int = 0
    discharged: int = 0
    instances: dict = field(default_factory=dict)    # rule instance family -> count found
    floors: dict = field(default_factory=dict)       # family -> minimum confirmed by hand
    samples: list = field(default_factory=list)
    undecided: list = field(default_factory=list)
    rules: list = field(default_factory=list)
    units: int = 0
    functions: int = 0
    constructs: set = field(default_factory=set)
    selftest: dict = field(default_factory=dict)
    errors: list = field(default_factory=list)        # analysis errors (exit 2)

    def ob(self, ok: bool, sample: Optional[str] = None, construct: Optional[str] = None) -> None:
        """Record one obligation."""
        self.obligations += 1
        if ok:
            self.discharged += 1
        if construct:
            self.constructs.add(construct)
        if sample and len(self.samples) < 40:
            self.samples.append(sample)

    def count(self, family: str, n: int = 1) -> None:
        self.instances[family] = self.instances.get(family, 0) + n

    def floor(self, family: str, n: int) -> None:
        self.floors[family] = n

    def add(self, f: Finding) -> None:
        for g in self.findings:
            if g.fkey == f.fkey:
                return
        self.findings.append(f)

    def note(self, s: str) -> None:
        if s not in self.notes:
            self.notes.append(s)


# ---------------------------------------------------------------------------------------------

_KF = re.compile(r"^finding:\s+property=(\S+)\s+key=(.+?)\s+--\s+(.*)$")
_FX = re.compile(r"^fixed:\s+property=(\S+)\s+(\S+)\s+(.*)$")


def load_known(path: str = KNOWN_FILE) -> tuple:
    known, fixed = {}, []
    if not os.path.exists(path):
        return known, fixed
    with open(path, "r", encoding="utf-8") as fh:
        for line in fh:
            line = line.rstrip("\n")
            if not line.strip() or line.lstrip().startswith("#"):
                continue
            m = _KF.match(line)
            if m:
                known[(m.group(1), m.group(2).strip())] = m.group(3)
                continue
            m = _FX.match(line)
            if m:
                fixed.append((m.group(1), m.group(2), m.group(3)))
                continue
            raise ValueError(f"KNOWN_FINDINGS.txt: unparsable line: {line!r}")
    return known, fixed


def finish(res: Result, tier: str, seed: int, t0: float, explanation: str, assumptions: list,
           trusted: list, evidence_dir: Optional[str] = None, quiet: bool = False) -> int:
    """Print the protocol lines, write evidence, return the exit code."""
    known, _fixed = load_known()
    scratch = os.environ.get("PVLINT_SCRATCH_DIR")      # used when checking a scratch tree: never touch committed evidence
    evidence_dir = evidence_dir or (os.path.join(scratch, "evidence") if scratch else os.path.join(VERIF, "evidence"))
    os.makedirs(evidence_dir, exist_ok=True)
    replay_dir = os.path.join(scratch or VERIF, "replay", res.prop)

    # floors: a rule that matches fewer instances than confirmed by hand passes vacuously -> exit 2
    for fam, fl in res.floors.items():
        got = res.instances.get(fam, 0)
        if got < fl:
            res.errors.append(f"instance floor not met: {fam}: found {got}, confirmed {fl}")

    new, listed = [], []
    for f in res.findings:
        if (f.prop, f.fkey) in known:
            listed.append(f)
        else:
            new.append(f)
    # safety net for shape rules (DESIGN.md 7.1): withhold the verdict inside restructured anchor functions
    prog = getattr(res, "prog", None)
    if prog is not None and new and not os.environ.get("PVLINT_NO_NET"):
        from .familiar import subject_to_net, unfamiliar
        kept = []
        for f in new:
            if not subject_to_net(f.rule):
                kept.append(f)
                continue
            where = f.key.split("::")[0]
            why = None
            try:
                why = unfamiliar(prog, where, f.key.split("::", 1)[1] if "::" in f.key else "")
            except Exception:
                why = None
            if why:
                res.errors.append(f"UNDECIDED {f.rule} at {f.loc}: {why}; the shape rule's verdict is withheld ({f.msg[:140]})")
            else:
                kept.append(f)
        new = kept

    code = 0
    out = []
    for f in listed:
        out.append(f"KNOWN-FINDING: property={f.prop} {f.fkey} -- {known[(f.prop, f.fkey)]}")
    if res.errors:
        code = 2
        for e in res.errors:
            out.append(f"ANALYSIS-ERROR property={res.prop} {e}")
    if new:
        os.makedirs(replay_dir, exist_ok=True)
        for f in new:
            h = hashlib.sha1(f.fkey.encode()).hexdigest()[:12]
            rp = os.path.join(replay_dir, f"{h}.json")
            with open(rp, "w", encoding="utf-8") as fh:
                json.dump(f.to_json(), fh, indent=1)
            out.append(f"VIOLATION property={f.prop} replay={rp}")
            out.append(f"  rule={f.rule} at {f.loc}")
            out.append(f"  construct: {f.key}")
            out.append(f"  {f.msg}")
            for p in f.path[:12]:
                out.append(f"    via {p}")
        code = 1      # a violation outranks an analysis error caused by the same change (both are printed)

    wall = time.time() - t0
    ev = {
        "property_id": res.prop,
        "tier": tier,
        "seed": seed,
        "level": "other",
        "coverage": {
            "explanation": explanation,
            "obligations": res.obligations,
            "discharged": res.discharged,
            "evaluations": max(res.obligations, 1),
            "distinct_nontrivial": len(res.constructs),
            "rule": "one obligation per rule instance found in the parsed source; distinct = distinct "
                    "constructs (module::function::normalised statement) an obligation was evaluated on",
            "samples": res.samples[:40] or ["(no instance)"],
            "checker_cmd": f"./check {res.prop} --tier {tier}",
            "trusted_base": trusted,
            "units_analysed": res.units,
            "functions_analysed": res.functions,
            "rules": res.rules,
            "rule_instances": res.instances,
            "instance_floors": res.floors,
            "findings_known": [f.to_json() for f in listed],
            "findings_new": [f.to_json() for f in new],
            "notes": res.notes[:200],
            "undecided_clauses": res.undecided,
            "selftest": res.selftest,
            "analysis_errors": res.errors,
            "exhaustive": True,
        },
        "assumptions": assumptions,
        "wall_s": round(wall, 3),
        "violations": len(new),
    }
    with open(os.path.join(evidence_dir, f"{res.prop}.json"), "w", encoding="utf-8") as fh:
        json.dump(ev, fh, indent=1, sort_keys=False)
        fh.write("\n")

    if not quiet:
        try:
            print(f"[{res.prop}] tier={tier} units={res.units} functions={res.functions} "
                  f"obligations={res.obligations} discharged={res.discharged} "
                  f"known={len(listed)} new={len(new)} errors={len(res.errors)} wall={wall:.2f}s")
            for line in out:            # protocol lines (VIOLATION / KNOWN-FINDING / ANALYSIS-ERROR) first
                print(line)
            for fam in sorted(res.instances):
                fl = res.floors.get(fam)
                print(f"  instances {fam}: {res.instances[fam]}" + (f" (floor {fl})" if fl is not None else ""))
            if res.selftest:
                print(f"  selftest: {json.dumps(res.selftest)}")
            sys.stdout.flush()
        except BrokenPipeError:
            # the reader closed the pipe (e.g. `| head`): the exit code still carries the verdict
            try:
                sys.stdout = open(os.devnull, "w")
            except OSError:
                pass
    return code
