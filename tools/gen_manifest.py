#!/usr/bin/env python3
"""Regenerates MANIFEST.json from the table below (kept next to the checks so it stays current)."""
import json, os
HERE = os.path.dirname(os.path.dirname(os.path.abspath(__file__)))

CLAIMS = {
    "C10": ("length-shape (LEN) classification of every self._population write per optimizer against a hand-confirmed reference table + exactness rules on the base helpers",
            "Static, partial by design: base helpers are length-exact (one agent per range element, init asks population_size, trims use "
            "population_size, one greedy result per incumbent, pool gather keeps every result); for the 69 optimizers that are conserved by "
            "construction every population write is re-classified SAME/N on each run - a filter, append, pop, slice or shifted bound is a "
            "violation naming the site. 15 optimizers whose size follows from arithmetic or is variable by design are listed as undecided.",
            "Arithmetic population sizes (regrouping, n_cut, keep) are out of reach; population_size >= 1.",
            "DESIGN.md 4/C10"),
    "C17": ("structural-elitism classifier: dominance analysis of every population write in optimization_step (closures followed) against a hand-confirmed reference table",
            "Static: for the 60 reference-listed elitist optimizers every write of self._population in the step must provably keep the best "
            "cost (per-slot greedy with the member as an operand, member-keeping closures, sorted-trimmed supersets, sorted pairwise greedy); "
            "the greedy comparison's strictness, the trims and the sorted pairing are re-checked because every classification rests on them. "
            "The checker is the classifier the property's quantifier refers to; 8 arithmetic-elitist optimizers are undecided, 16 are "
            "structurally non-elitist and outside the property.",
            "population_size >= 1; NaN costs not decided; C16's ORD results for the helpers.",
            "DESIGN.md 4/C17"),
    "C06": ("dominance rule on optimize()'s entry guards + validator formulas + typed-flow rule for float|list values + typed sink + abstract evaluation of config-affine denominators over the configuration domain",
            "Static, partial by design: decides that every invalid call (no configuration, bad mode, workers <= 0, weight/objective "
            "mismatch, negative weights) is rejected with ValueError before the first hook, that a float-or-list objective value is "
            "never used arithmetically unguarded, that the seed sink is int-typed, and that no scalar division in optimizer code has a "
            "denominator over max_cycles/cycle/population_size/workers/n_agents that vanishes on the valid configuration domain; that no "
            "stdlib math partial function is applied to cost-derived data; and that no new in-place float update of an integer-capable "
            "array (position / bounds dtype) appears beyond the 6 baseline sites that already fail on integer tasks today. The rest of the first "
            "sentence of the property (no internal error for every valid input) is NOT decided.",
            "Crash freedom over data-dependent numpy behaviour is out of reach of a static argument; annotations are taken as types.",
            "DESIGN.md 4/C06"),
    "C11": ("structural rules on the pooled paths: exactly-once hand-off, pairing at submission, per-class worker purity (effect scan over the call graph), RNG stream distinctness of submitted callables",
            "Static, schedule-independent: one future per work item in unfiltered comprehensions, get_pool_results appends every "
            "result exactly once, completion-ordered results are only used wholesale, both greedy operands travel with the submission, "
            "everything reachable from a submitted callable is pure w.r.t. optimizer state in all 84 class contexts, and an RNG-drawing "
            "callable is only submitted with a per-submission argument drawn by the parent. Interleavings are not explored.",
            "concurrent.futures semantics trusted; replay of auxiliary random fields inside overridden _init_agent in forked workers is noted, not decided.",
            "DESIGN.md 4/C11"),
    "C19": ("loop-completeness path rules on HyperTuner.execute + polarity (RAW/RANK) typing of the pandas ranking pipeline with the direction flag partially evaluated under MIN/MAX",
            "Static: the grid loop covers list(ParameterGrid(param_grid)) without exits, sets the point's parameters before its "
            "n_trials trials, records the same point and one cost per trial column; every rank() of the RAW mean column carries the "
            "direction flag and no rank() of RANK data does; the winner is the min of the final RANK whose primary key is the mean's "
            "rank; best_parameters/best_score come from that row; resolve() applies them before optimizing.",
            "ParameterGrid len/iter/getitem laws are not decided (arithmetic); pandas rank/mean and executor.map semantics trusted.",
            "DESIGN.md 4/C19"),
    "C20": ("shape typing of the modes table per guard branch + path rules on execute/__parallelize__/__run__ + loop-carried definition rule on export_results",
            "Static: each return branch of __check_input__ must evaluate to LIST[n](row of m) with rows = algorithms (a generator handed "
            "to deepcopy or a flat tuple is rejected), modes are validated at construction, execute() is two unconditional nested loops "
            "calling __parallelize__ with its own optimizer/task, the mode of __get_mode__(i, j) and n_trials trials, one table per "
            "algorithm; __run__ forwards the mode; the export directory has no loop-carried definition.",
            "executor.map / pandas DataFrame construction semantics trusted.",
            "DESIGN.md 4/C20"),
    "C13": ("primitive-level reading of the seven Variable kinds (randomize/correct/decode/get_bounds/size/children/validators) against domain laws; idempotence by primitive composition; validator formulas via FRM",
            "Static: every law is reduced to obligations on primitives read from models.py - sampling primitive and its range "
            "arguments, clamp arguments in (low, high) order from the variable's own fields, discrete index range 0..len-1 and "
            "decode indexing, element-wise delegation of the multi kinds to children built from the measured sequence, validators "
            "rejecting upper <= lower / length mismatch / n_vars <= 0 with ValueError. Known finding: PermutationVariable.correct = "
            "argsort is not idempotent and decode re-applies it.",
            "numpy primitive summaries; behaviour on huge/inf/NaN/numpy-scalar inputs not decided.",
            "DESIGN.md 4/C13"),
    "C14": ("return-shape inference of the Variable protocol vs the has_children() discriminator + sibling agreement of the four Task flatteners + slicing rule of transform_solution",
            "Static shape typing: get_bounds/randomize/get of each kind must have the shape Task unpacks for its has_children() value; "
            "get_variables, get_bounds, empty_solution and transform_solution must use the same discriminator; space_dimension is the "
            "sum of sizes; transform_solution slices by a running counter of size() and keys by name with no bypass; correct_solution "
            "zips every coordinate with its variable.",
            "Field annotations are the field types; PermutationVariable is the declared shape exception.",
            "DESIGN.md 4/C14"),
    "C03": ("path-order rule on optimize() + who-may-write closure after the best assignment + ORD abstract evaluation + SGN parity",
            "Static: in the main loop the best agent is assigned from special_agents(self._population, 1, 1) after the step and the "
            "snapshot, nothing reachable afterwards writes _population/_best_agent, the ORD evaluator proves the first unpacked "
            "target is FIRST(1) of ascending internal cost, and sign handling in/out composes to the identity, so the internal "
            "minimum of the last recorded list is the optimum in the task's direction.",
            "Ties/NaN: any minimal element satisfies the statement; NaN not decided; Python sort semantics trusted.",
            "DESIGN.md 4/C03"),
    "C04": ("structured path rule on the main loop + who-may-write on the bookkeeping fields + symbolic boolean execution of __should_stop__ compared with the spec by truth table over canonical atoms",
            "Static: loop-control order (step, snapshot, one error check, break iff stop, counter += 1 last, no other exit), "
            "bookkeeping fields written only by optimize/__error_check__, counter reset to 1 and rates to [] per run, one rate "
            "abs(1 - mean fitness) and one difference per cycle, and the stop predicate extracted symbolically and proven "
            "propositionally equivalent to the three-disjunct specification (mirrored comparisons and local naming normalised); "
            "patience >= 1 validated. Decides `at most max_cycles, never earlier, never later` for every history of rates.",
            "Termination of loops inside optimizer steps and numeric rate values are not decided.",
            "DESIGN.md 4/C04"),
    "C16": ("order/window abstract interpretation of the 12 ranking helpers for both directions against a spec table + non-mutation + path-condition rule on the greedy selectors",
            "Static: each helper is evaluated symbolically (source, objs|idx, ORIG|ASC|DESC, ALL|FIRST(n)|LAST(n), fresh) under MIN "
            "and MAX and must equal the specification; helpers never store/mutate through a parameter; each _greedy_select_agent "
            "implementation returns the challenger only on a path containing the strict cost comparison; population-level greedy "
            "selection sorts both lists ascending and pairs by index; trim helpers keep FIRST(population_size) of ASC. Complete "
            "for the order-theoretic content over all populations, n and both directions.",
            "Python list.sort/sorted/slicing semantics; NaN/inf comparisons not decided.",
            "DESIGN.md 4/C16"),
    "C01": ("agent-origin discipline: inductive invariant over every Agent construction / copy / store site + correction-chain shape (ast, alias tracking)",
            "Static inductive invariant: all 130+ Agent constructor sites, all model_copy sites, all stores to core fields and all "
            "aliases of a position list are enumerated; the only explicit position/cost/fitness construction is the root whose "
            "position is the output of initial_solution -> correct_solution -> Variable.correct; copies preserve it; nothing "
            "rewrites it. Decides the routing clause of membership for every optimizer, input, configuration and mode.",
            "Finiteness (NaN through np.clip), exact dimension and permutation encoding are not decided; Variable.correct (C13); "
            "pydantic summaries; closed-world guard R0.",
            "DESIGN.md 4/C01"),
    "C02": ("pairing invariant at the root constructor (reaching definitions) + copy discipline + sign partial evaluation + idempotence by primitive composition",
            "Static: the name evaluated by _fcn, the stored position, cost and fitness are tied by reaching definitions in the single "
            "root; every other generator copies the triple; _fcn and both sign-restoration closures are partially evaluated under "
            "MIN/MAX and must compose to the identity by copy; every Variable.correct must be idempotent by primitive composition "
            "(the evaluated position is corrected twice). Known findings: ImperialistCompetitive reports empire totals; "
            "PermutationVariable.correct = argsort is not idempotent.",
            "Deterministic objective; fitness formula and np.dot semantics not decided; pydantic summaries; closed-world guard R0.",
            "DESIGN.md 4/C02"),
    "C15": ("immutability of recorded core state (ORG scans) + append-only history + direction typing of result-ranking calls",
            "Static: no store/in-place mutation can reach position/cost/fitness of an existing agent (all sites enumerated, aliases "
            "followed), sign restoration is by copy, evolution is only appended with freshly packaged populations; every ranking of "
            "result data in utils passes a direction that originates from the result, which records it.",
            "Auxiliary agent fields are outside the observable; pydantic copies list fields on validation; closed-world guard R0.",
            "DESIGN.md 4/C15"),
    "C08": ("flow-sensitive typestate walk of one optimize() run per class: Leak = upward-exposed fields ∩ written fields (ast, MRO inlining)",
            "Static typestate/effect analysis over 84 class contexts: optimize() is walked with all self/super/closure calls "
            "inlined through the MRO; a field read, read-modify-written or mutated in place (aliases and helper-object "
            "methods included) before being definitely assigned afresh in the run, and written by the run, is state leaking "
            "between optimize() calls. Empty Leak for every class is necessary for history independence and is decided for "
            "all call histories at once.",
            "Does not cover state outside the instance (global RNG -> C07, configuration object -> C09); closed-world guard R0; "
            "helper objects are attributed to the field holding them.",
            "DESIGN.md 4/C08"),
    "C12": ("non-interference (taint-to-sink) analysis of direction and fitness reads + partial evaluation of the sign conversions under MIN/MAX",
            "Static non-interference: all references to the task direction and to Agent.fitness are enumerated and their "
            "sinks classified against an allow-list; algorithm code passes no direction to the selection helpers; the stop "
            "formula uses rates only under the optional criteria; _fcn and the two restoration closures are partially "
            "evaluated under MIN and MAX and must compose to the identity. Sufficient and necessary for the duality of "
            "single-objective runs stopped by cycle count.",
            "IEEE negation is exact; AntLion (fitness-weighted) is the exception the property names; closed-world guard R0.",
            "DESIGN.md 4/C12"),
    "C18": ("per-class shape rules + transitive no-dereference analysis of constructors (ast, alias tracking)",
            "Static check of all 84 exported optimizers: constructor has defaults for every parameter and never dereferences the "
            "configuration transitively; set_config_parameters is exactly `self._config = K(**parameters)` with K the class in "
            "the constructor annotation; optimize is sealed and starts with the configuration test; `configuration` returns "
            "self._config. With C08's per-run initialisation analysis this gives run(ctor(cfg)) == run(ctor(); set_config_parameters).",
            "pydantic validates at K(**d); closed-world guard R0.",
            "DESIGN.md 4/C18"),
    "C07": ("effect analysis of randomness sources over the per-class call graph + typed-sink and seeding-dominance rules (ast)",
            "Static effect analysis: for each of the 84 optimizers every function reachable from optimize() is scanned and "
            "every external reference classified against a randomness source table; np.random.seed(task.seed) must be the "
            "only seeding call and precede every hook; Task.seed must be int-typed; no draw in constructors, module/class "
            "bodies or defaults; no sequence is built from a set whose elements are not provably ints (hash-seed dependent order). "
            "Decides `no source of randomness escapes the seed` for all inputs in serial mode.",
            "Trusts numpy legacy RNG determinism, a deterministic user objective, CPython int-set / dict iteration order; "
            "closed-world guard R0.",
            "DESIGN.md 4/C07"),
    "C09": ("who-may-write analysis with alias tracking and parameter-write summaries (ast)",
            "Static who-may-write analysis over all 500+ functions of optimizer classes: no store, augmented store, delete, "
            "setattr or mutating call may reach a value rooted at self._config / self._task / the task parameter (local "
            "aliases, closure variables, loop variables, views, alias fields followed); such values are not passed to callees "
            "whose parameter-write summary writes them; no self-writing model method is reachable from optimize(); shallow copies "
            "(model_copy() / copy.copy) of those objects share their mutable fields and are followed; a task-method result that an "
            "optimizer changes in place must be a fresh object. Holds for all inputs, configurations and modes.",
            "Trusts numpy/pydantic freshness summaries (library call results are fresh unless listed as views; the task's own methods are checked); the user objective "
            "does not mutate the task; closed-world guard R0.",
            "DESIGN.md 4/C09"),
    # id: (technique, level text, level note, design ref)
    "C05": ("who-may-call closure + reaching-definition check over the parsed package (ast)",
            "Static who-may-call closure: every reference to objective_function / solve / _fcn in all parsed modules is "
            "enumerated and must be the single allow-listed call; the argument of objective_function must have "
            "self.correct_solution(x) as its reaching definition; correct_solution must correct every zipped coordinate. "
            "Decides the routing clause for all inputs and modes; finiteness of coordinates is not decided.",
            "Trusts python's ast, the closed-world guard R0 (no reflection), Variable.correct (C13) and numpy summaries.",
            "DESIGN.md 4/C05"),
}
NOT_YET = "check not built yet in this round (static rule designed in DESIGN.md section 4)"

def main():
    props = [json.loads(l)["id"] for l in open(os.path.join(HERE, "properties.jsonl"))]
    checks, na = [], []
    for p in props:
        if p in CLAIMS and os.path.exists(os.path.join(HERE, "pvlint", "rules", p.lower() + ".py")):
            tech, text, note, ref = CLAIMS[p]
            checks.append({
                "property_id": p,
                "quick_cmd": f"./check {p} --tier quick",
                "thorough_cmd": f"./check {p} --tier thorough",
                "evidence_file": f"evidence/{p}.json",
                "replay_cmd_template": "./check explain {path}",
                "engine": "pvlint",
                "level_claimed": {"category": "other", "text": text, "design_ref": ref},
                "level_note": note,
                "technique": "static analysis: " + tech,
            })
        else:
            na.append({"property_id": p, "reason": NOT_YET})
    man = {
        "version": 1,
        "setup_cmd": "/venv/bin/python -B -c \"import ast, sys; sys.path.insert(0, '.'); import pvlint.main\"",
        "hooks": {
            "guard": "PYVOLUTIONARY_VERIF",
            "enable": "none needed: the checks read source only; no instrumentation exists in /repo",
            "baseline_off_cmd": "cd /repo && /venv/bin/python -m pytest -ra -q -p no:cacheprovider --timeout=900 --continue-on-collection-errors",
            "source_commits": [],
            "add_only": True,
        },
        "engines": [{"name": "pvlint", "path": "pvlint/", "serves_properties": [c["property_id"] for c in checks],
                     "kind_free_text": "repository-specific static analyser on the stdlib ast: program model, per-class call "
                                       "resolution, structured dataflow, abstract evaluators; variant battery self-test"}],
        "checks": checks,
        "not_applicable": na,
        "notes": "Technique family: static analysis only. See DESIGN.md. Exit 0 held / 1 VIOLATION / 2 ANALYSIS-ERROR.",
    }
    with open(os.path.join(HERE, "MANIFEST.json"), "w") as fh:
        json.dump(man, fh, indent=1)
        fh.write("\n")

if __name__ == "__main__":
    main()
