#!/bin/sh
# usage: tools/chk_on.sh <patch-dir> <Cxx> [<Cyy>...] : run checks on a scratch tree with the patch applied
d=$1; shift
wt=/tmp/wtv/chk_$$
git -C /repo worktree add --detach $wt HEAD -q && (cd $wt && git apply $d/patch.diff)
for p in "$@"; do (cd /verif && PVLINT_REPO=$wt PVLINT_NO_SELFTEST=1 PVLINT_SCRATCH_DIR=/tmp/wtv/s_$$ ./check $p 2>&1 | grep -E "^\[|rule=|construct|ERROR|^  [A-Za-z_].*:" | grep -v "instances" | cut -c1-400); done
git -C /repo worktree remove --force $wt; rm -rf /tmp/wtv/s_$$
