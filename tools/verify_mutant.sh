#!/bin/sh
# usage: tools/verify_mutant.sh <dir with patch.diff demo.py meta.json> [--notests]
# Confirms a seeded change in a scratch worktree (demo passes before, fails after, full suite passes after),
# then runs every check against the patched tree and prints which properties fire.  Never touches /repo's working tree.
d=$(cd "$1" && pwd); notests=$2
name=$(echo "$d" | sed 's#/#_#g')
wt=/tmp/wtv/$name
rm -rf "$wt"; git -C /repo worktree prune; git -C /repo worktree add --detach "$wt" HEAD -q || exit 2
cd "$wt" || exit 2
PYTHONPATH=$wt timeout 300 /venv/bin/python "$d/demo.py" > "$d/demo_before.log" 2>&1; b=$?
git apply "$d/patch.diff" || { echo "PATCH-DOES-NOT-APPLY"; git -C /repo worktree remove --force "$wt"; exit 3; }
PYTHONPATH=$wt timeout 300 /venv/bin/python "$d/demo.py" > "$d/demo_after.log" 2>&1; a=$?
t="skipped"
if [ "$notests" != "--notests" ]; then
  t=$(/venv/bin/python -m pytest -q -p no:cacheprovider -n 10 --timeout=900 2>&1 | tail -1)
fi
fired=""
for p in C01 C02 C03 C04 C05 C06 C07 C08 C09 C10 C11 C12 C13 C14 C15 C16 C17 C18 C19 C20; do
  out=$(cd /verif && PVLINT_REPO=$wt PVLINT_NO_SELFTEST=1 PVLINT_SCRATCH_DIR=/tmp/wtv/scratch_$name ./check $p 2>&1); code=$?
  if [ $code -eq 1 ]; then fired="$fired $p"; echo "$out" | grep -A3 "^VIOLATION" | grep -E "rule=|construct" | head -4 | sed "s/^/   [$p]/"; fi
  if [ $code -eq 2 ]; then fired="$fired $p(err)"; echo "$out" | grep "ANALYSIS-ERROR" | head -2 | sed "s/^/   [$p]/"; fi
done
echo "RESULT dir=$d demo_before_exit=$b demo_after_exit=$a tests='$t' fired=[$fired ]"
cd /; git -C /repo worktree remove --force "$wt"
rm -rf /tmp/wtv/scratch_$name
