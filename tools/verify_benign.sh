#!/bin/sh
# usage: tools/verify_benign.sh <dir with patch.diff equiv.py>  - behaviour-preserving change: every check must stay silent
d=$(cd "$1" && pwd)
name=$(echo "$d" | sed 's#/#_#g')
wt=/tmp/wtv/$name
rm -rf "$wt"; git -C /repo worktree prune; git -C /repo worktree add --detach "$wt" HEAD -q || exit 2
cd "$wt" || exit 2
b=$(PYTHONPATH=$wt timeout 300 /venv/bin/python "$d/equiv.py" 2>/dev/null | tail -1)
git apply "$d/patch.diff" || { echo "PATCH-DOES-NOT-APPLY $d"; git -C /repo worktree remove --force "$wt"; exit 3; }
a=$(PYTHONPATH=$wt timeout 300 /venv/bin/python "$d/equiv.py" 2>/dev/null | tail -1)
fired=""
for p in C01 C02 C03 C04 C05 C06 C07 C08 C09 C10 C11 C12 C13 C14 C15 C16 C17 C18 C19 C20; do
  out=$(cd /verif && PVLINT_REPO=$wt PVLINT_NO_SELFTEST=1 PVLINT_SCRATCH_DIR=/tmp/wtv/scratch_$name ./check $p 2>&1); code=$?
  if [ $code -eq 1 ]; then fired="$fired $p"; echo "$out" | grep -A3 "^VIOLATION" | grep -E "rule=|construct" | head -4 | cut -c1-260 | sed "s/^/   [$p]/"; fi
  if [ $code -eq 2 ]; then fired="$fired $p(exit2)"; echo "$out" | grep "ANALYSIS-ERROR" | head -2 | cut -c1-260 | sed "s/^/   [$p]/"; fi
done
same=no; [ "$a" = "$b" ] && [ -n "$a" ] && same=yes
echo "BENIGN dir=$d digest_equal=$same fired=[$fired ]"
cd /; git -C /repo worktree remove --force "$wt"; rm -rf /tmp/wtv/scratch_$name
