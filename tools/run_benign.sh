#!/bin/sh
# usage: tools/run_benign.sh [ids...]  - every behaviour-preserving change must leave every check silent (exit 0) or undecided (exit 2, reported)
cd /verif/seeded_benign || exit 2
ids=${@:-$(ls)}
for id in $ids; do /verif/tools/verify_benign.sh /verif/seeded_benign/$id 2>&1 | grep -E "BENIGN|rule=|ERROR" | cut -c1-230; done
