#!/usr/bin/env python3
"""tools/keep_mutant.py <mutant dir> <seeded id>: runs tools/verify_mutant.sh (with the full test suite) and, when the
change is confirmed (demo passes before, fails after, 285 tests pass, patch applies), stores it under /verif/seeded/<id>/."""
import json, os, re, shutil, subprocess, sys
d, sid = sys.argv[1], sys.argv[2]
out = subprocess.run(["/verif/tools/verify_mutant.sh", d], capture_output=True, text=True).stdout
print(out[-1500:])
m = re.search(r"RESULT dir=\S+ demo_before_exit=(\d+) demo_after_exit=(\d+) tests='([^']*)' fired=\[(.*?)\]", out)
if not m:
    sys.exit("no RESULT line")
before, after, tests, fired = int(m.group(1)), int(m.group(2)), m.group(3), m.group(4).split()
ok = before == 0 and after != 0 and "285 passed" in tests and "failed" not in tests
print("CONFIRMED" if ok else "NOT-CONFIRMED", before, after, tests, fired)
if not ok:
    sys.exit(1)
dst = f"/verif/seeded/{sid}"
os.makedirs(dst, exist_ok=True)
for f in ("patch.diff", "demo.py"):
    shutil.copy(os.path.join(d, f), os.path.join(dst, f))
meta = json.load(open(os.path.join(d, "meta.json")))
meta["confirmed_by"] = ("tools/verify_mutant.sh in a scratch worktree of /repo HEAD: demo.py exit 0 before the patch, exit %d after; "
                        "full suite `pytest -q -n 10`: %s" % (after, tests))
meta["checks_fired_when_first_run"] = fired
details = [l.strip() for l in out.splitlines() if l.strip().startswith("[C")]
meta["first_run_reports"] = details[:12]
json.dump(meta, open(os.path.join(dst, "meta.json"), "w"), indent=1)
