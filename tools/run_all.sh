#!/bin/sh
# usage: tools/run_all.sh [quick|thorough]  - runs every registered check, prints one line each
cd "$(dirname "$0")/.." || exit 2
tier=${1:-quick}
rc=0
for p in $(python3 -c "import json;print(' '.join(c['property_id'] for c in json.load(open('MANIFEST.json'))['checks']))"); do
  out=$(./check "$p" --tier "$tier" 2>&1); code=$?
  echo "$p exit=$code $(echo "$out" | head -1 | sed 's/.*obligations/obligations/') $(echo "$out" | grep -c '^KNOWN-FINDING') known-lines"
  if [ $code -ne 0 ]; then rc=1; echo "$out" | grep -E "VIOLATION|ANALYSIS-ERROR|rule=|construct" | head -8; fi
done
exit $rc
