#!/usr/bin/env python3
"""Re-runs every registered check against every seeded change (each applied in its own scratch worktree of /repo HEAD,
removed afterwards) and writes /verif/seeded/MATRIX.json + the table for DESIGN.md section 10 (stdout).
Usage: tools/seeded_matrix.py [-j N]"""
import json, os, subprocess, sys, glob, shutil
from concurrent.futures import ThreadPoolExecutor

VERIF = os.path.dirname(os.path.dirname(os.path.abspath(__file__)))
PROPS = [f"C{i:02d}" for i in range(1, 21)]


def run_one(sid):
    d = os.path.join(VERIF, "seeded", sid)
    wt = f"/tmp/wtv/matrix_{sid}"
    subprocess.run(["git", "-C", "/repo", "worktree", "remove", "--force", wt], capture_output=True)
    shutil.rmtree(wt, ignore_errors=True)
    subprocess.run(["git", "-C", "/repo", "worktree", "prune"], capture_output=True)
    r = subprocess.run(["git", "-C", "/repo", "worktree", "add", "--detach", wt, "HEAD", "-q"], capture_output=True, text=True)
    if r.returncode:
        return sid, {"error": r.stderr}
    try:
        a = subprocess.run(["git", "apply", os.path.join(d, "patch.diff")], cwd=wt, capture_output=True, text=True)
        if a.returncode:
            return sid, {"error": "patch does not apply: " + a.stderr[:200]}
        fired, rules = [], {}
        env = dict(os.environ, PVLINT_REPO=wt, PVLINT_NO_SELFTEST="1", PVLINT_SCRATCH_DIR=f"/tmp/wtv/scratch_matrix_{sid}")
        for p in PROPS:
            o = subprocess.run([os.path.join(VERIF, "check"), p], capture_output=True, text=True, env=env)
            if o.returncode == 1:
                fired.append(p)
                rules[p] = sorted({l.split("rule=")[1].split(" at ")[0] for l in o.stdout.splitlines() if "rule=" in l})
            elif o.returncode == 2:
                fired.append(p + "(exit2)")
        return sid, {"fired": fired, "rules": rules}
    finally:
        subprocess.run(["git", "-C", "/repo", "worktree", "remove", "--force", wt], capture_output=True)
        shutil.rmtree(f"/tmp/wtv/scratch_matrix_{sid}", ignore_errors=True)


def main():
    j = int(sys.argv[sys.argv.index("-j") + 1]) if "-j" in sys.argv else 6
    sids = sorted(os.path.basename(os.path.dirname(p)) for p in glob.glob(os.path.join(VERIF, "seeded", "*", "patch.diff")))
    os.makedirs("/tmp/wtv", exist_ok=True)
    with ThreadPoolExecutor(max_workers=j) as ex:
        results = dict(ex.map(run_one, sids))
    out = {}
    print("| seeded change | breaks | what it needs to manifest | caught by (own property first) | rules |")
    print("|---|---|---|---|---|")
    for sid in sids:
        meta = json.load(open(os.path.join(VERIF, "seeded", sid, "meta.json")))
        r = results[sid]
        prop = meta.get("property")
        fired = r.get("fired", [])
        own = prop in fired
        others = [f for f in fired if f != prop]
        out[sid] = {"property": prop, "own_check_fires": own, "fired": fired, "rules": r.get("rules", {}), "error": r.get("error")}
        rules = "; ".join(r.get("rules", {}).get(prop, [])[:2]) if own else "-"
        caught = ("**" + prop + "**" if own else "~~" + prop + "~~ (not decided)") + ((", " + ", ".join(others)) if others else "")
        print(f"| {sid} | {prop} | {meta.get('summary', '')[:150]} / needs: {meta.get('needs', '')[:140]} | {caught} | {rules} |")
    json.dump(out, open(os.path.join(VERIF, "seeded", "MATRIX.json"), "w"), indent=1)
    missed = [s for s, v in out.items() if not v["own_check_fires"]]
    print(f"\n{len(out)} seeded changes, {len(out) - len(missed)} caught by their own property's check; not caught by it: {missed}", file=sys.stderr)


if __name__ == "__main__":
    main()
